//! C11 — a subscription's rows and events always equal its query run on the database.
//!
//! A REAL in-process agent (`klukai_agent::agent::setup`), the real schema path (`api_v1_db_schema`),
//! the real subscription path (`api_v1_subs` → `SubsManager::get_or_insert` → `Matcher`), local writes
//! through `api_v1_transactions` (→ `broadcast_changes` → `match_changes`), remote writes made on a
//! second cr-sqlite database and delivered with `process_multiple_changes` (complete changesets) or
//! in two partial chunks + `process_fully_buffered_changes` (→ `match_changes_from_db_version`).
//!
//! The matcher batches candidates with a 600 ms deadline.  All transactions between two `sync` ops
//! are meant to be ONE batch: the harness learns the phase of every matcher's deadline from the
//! `corro.subs.changes.processing.duration.seconds` histogram (own `metrics::Recorder`), sends a
//! group inside a window that contains no deadline, and verifies afterwards that exactly one batch
//! was processed (otherwise the case is retried / inconclusive).
use std::collections::{BTreeMap, HashMap};
use std::sync::atomic::{AtomicU64, Ordering};
use std::sync::{Arc, Mutex, OnceLock};
use std::time::{Duration, Instant};

use axum::Extension;
use axum::response::IntoResponse;
use http_body_util::BodyExt;
use klukai_agent::agent::util::process_fully_buffered_changes;
use klukai_agent::agent::{AgentOptions, process_multiple_changes, setup};
use klukai_agent::api::public::pubsub::{SubParams, api_v1_subs};
use klukai_agent::api::public::{TimeoutParams, api_v1_db_schema, api_v1_transactions};
use klukai_types::actor::ActorId;
use klukai_types::agent::{Agent, Bookie, migrate};
use klukai_types::api::{ExecResult, QueryEvent, Statement};
use klukai_types::broadcast::{BroadcastInput, BroadcastV1, ChangeSource, ChangeV1, Changeset};
use klukai_types::change::{Change, row_to_change};
use klukai_types::config::Config;
use klukai_types::pubsub::{ChangeType, MatcherHandle};
use klukai_types::schema::{Schema, apply_schema, parse_sql};
use klukai_types::sqlite::{CrConn, setup_conn};
use klukai_types::tripwire::Tripwire;

use crate::crkit::{TmpDir, precreate_db, show_pk, show_val, show_valref, site_id};
use crate::rng::Rng;
use crate::runner::{CaseResult, Prop, Tier};

pub struct C11;

// ------------------------------------------------------------------------------------------------
// schema
// ------------------------------------------------------------------------------------------------

pub const SCHEMA: &str = r#"
CREATE TABLE t (id INTEGER NOT NULL PRIMARY KEY, a TEXT, b INTEGER);
CREATE TABLE u (k1 INTEGER NOT NULL, k2 TEXT NOT NULL, x TEXT, PRIMARY KEY (k1, k2));
CREATE TABLE k (id INTEGER NOT NULL PRIMARY KEY);
CREATE TABLE w (id TEXT NOT NULL PRIMARY KEY, y INTEGER);
"#;

#[derive(Clone, Copy, Debug)]
struct Tbl {
    name: &'static str,
    nk: usize,
    cols: &'static [&'static str],
    /// 'i' integer / 't' text, per column
    ty: &'static [char],
}

const TABLES: [Tbl; 4] = [
    Tbl { name: "t", nk: 1, cols: &["id", "a", "b"], ty: &['i', 't', 'i'] },
    Tbl { name: "u", nk: 2, cols: &["k1", "k2", "x"], ty: &['i', 't', 't'] },
    Tbl { name: "k", nk: 1, cols: &["id"], ty: &['i'] },
    Tbl { name: "w", nk: 1, cols: &["id", "y"], ty: &['t', 'i'] },
];

fn tbl(name: &str) -> Option<&'static Tbl> {
    TABLES.iter().find(|t| t.name == name)
}

/// value token → SQL literal; only NULL, integers and lower-case alphanumeric text
fn lit(tok: &str) -> Option<String> {
    if tok == "n" {
        return Some("NULL".into());
    }
    let (k, rest) = tok.split_at(1);
    match k {
        "i" => rest.parse::<i64>().ok().map(|i| i.to_string()),
        "t" => {
            let b = hex::decode(rest).ok()?;
            if b.iter().all(|c| c.is_ascii_lowercase() || c.is_ascii_digit()) {
                Some(format!("'{}'", String::from_utf8(b).ok()?))
            } else {
                None
            }
        }
        _ => None,
    }
}

fn val_ok(tok: &str, ty: char, key: bool) -> bool {
    match tok.chars().next() {
        Some('n') => !key && tok == "n",
        Some('i') => ty == 'i',
        Some('t') => ty == 't',
        _ => false,
    }
}

/// statements: ins:<tbl>:<pk>:<col=val,..|->  upd:<tbl>:<pk>:<col=val,..>  del:<tbl>:<pk>  mov:<tbl>:<pk>:<newpk>
#[derive(Clone, Debug)]
struct Stmt {
    kind: String,
    table: String,
    pk: Vec<String>,
    assigns: Vec<(String, String)>,
    newpk: Vec<String>,
}

fn parse_stmt(s: &str) -> Option<Stmt> {
    let parts: Vec<&str> = s.split(':').collect();
    let kind = *parts.first()?;
    let t = tbl(parts.get(1)?)?;
    let pk: Vec<String> = parts.get(2)?.split('+').map(|x| x.to_string()).collect();
    if pk.len() != t.nk || !pk.iter().enumerate().all(|(i, v)| val_ok(v, t.ty[i], true) && lit(v).is_some()) {
        return None;
    }
    let mut st = Stmt { kind: kind.to_string(), table: t.name.to_string(), pk, assigns: vec![], newpk: vec![] };
    match kind {
        "ins" | "upd" => {
            let a = parts.get(3).copied().unwrap_or("-");
            if parts.len() > 4 {
                return None;
            }
            if a != "-" && !a.is_empty() {
                for kv in a.split(',') {
                    let (c, v) = kv.split_once('=')?;
                    let ci = t.cols.iter().position(|x| *x == c)?;
                    if ci < t.nk || !val_ok(v, t.ty[ci], false) || lit(v).is_none() {
                        return None;
                    }
                    if st.assigns.iter().any(|(x, _)| x == c) {
                        return None;
                    }
                    st.assigns.push((c.to_string(), v.to_string()));
                }
            }
            if kind == "upd" && st.assigns.is_empty() {
                return None;
            }
        }
        "del" => {
            if parts.len() != 3 {
                return None;
            }
        }
        "mov" => {
            if parts.len() != 4 {
                return None;
            }
            let np: Vec<String> = parts[3].split('+').map(|x| x.to_string()).collect();
            if np.len() != t.nk || !np.iter().enumerate().all(|(i, v)| val_ok(v, t.ty[i], true) && lit(v).is_some()) {
                return None;
            }
            st.newpk = np;
        }
        _ => return None,
    }
    Some(st)
}

fn stmt_to_sql(st: &Stmt) -> String {
    let t = tbl(&st.table).unwrap();
    let wh = |pk: &[String]| -> String {
        (0..t.nk).map(|i| format!("{} = {}", t.cols[i], lit(&pk[i]).unwrap())).collect::<Vec<_>>().join(" AND ")
    };
    match st.kind.as_str() {
        "ins" => {
            let mut names: Vec<String> = (0..t.nk).map(|i| t.cols[i].to_string()).collect();
            let mut vals: Vec<String> = st.pk.iter().map(|v| lit(v).unwrap()).collect();
            for (c, v) in &st.assigns {
                names.push(c.clone());
                vals.push(lit(v).unwrap());
            }
            format!("INSERT INTO {} ({}) VALUES ({})", t.name, names.join(", "), vals.join(", "))
        }
        "upd" => {
            let sets: Vec<String> = st.assigns.iter().map(|(c, v)| format!("{c} = {}", lit(v).unwrap())).collect();
            format!("UPDATE {} SET {} WHERE {}", t.name, sets.join(", "), wh(&st.pk))
        }
        "del" => format!("DELETE FROM {} WHERE {}", t.name, wh(&st.pk)),
        _ => {
            let sets: Vec<String> = (0..t.nk).map(|i| format!("{} = {}", t.cols[i], lit(&st.newpk[i]).unwrap())).collect();
            format!("UPDATE {} SET {} WHERE {}", t.name, sets.join(", "), wh(&st.pk))
        }
    }
}

fn parse_tx(s: &str) -> Option<Vec<Stmt>> {
    s.split(';').map(parse_stmt).collect()
}

// ------------------------------------------------------------------------------------------------
// query specs:  <tbl>[;<I|L>:<tbl>:<pred>]* | <pred> | <expr>[;<expr>]*
//   expr := c<pos>.<col> | v<valtoken> | cat(e,e) | add(e,e)
//   pred := T | eq|ne|lt|le|gt|ge(e,e) | nul(e) | nn(e) | and(p,p) | or(p,p)
// ------------------------------------------------------------------------------------------------

#[derive(Clone, Debug)]
enum Expr {
    Col(usize, usize),
    Const(String),
    Cat(Box<Expr>, Box<Expr>),
    Add(Box<Expr>, Box<Expr>),
}

#[derive(Clone, Debug)]
enum Pred {
    True,
    Cmp(&'static str, Expr, Expr),
    IsNull(Expr),
    NotNull(Expr),
    And(Box<Pred>, Box<Pred>),
    Or(Box<Pred>, Box<Pred>),
}

#[derive(Clone, Debug)]
struct Query {
    tables: Vec<&'static Tbl>,
    /// (left?, on) for positions 1..
    joins: Vec<(bool, Pred)>,
    wher: Pred,
    proj: Vec<Expr>,
}

struct P<'a> {
    s: &'a [u8],
    i: usize,
}

impl<'a> P<'a> {
    fn eat(&mut self, lit: &str) -> bool {
        if self.s[self.i..].starts_with(lit.as_bytes()) {
            self.i += lit.len();
            true
        } else {
            false
        }
    }
    fn num(&mut self) -> Option<usize> {
        let st = self.i;
        while self.i < self.s.len() && self.s[self.i].is_ascii_digit() {
            self.i += 1;
        }
        std::str::from_utf8(&self.s[st..self.i]).ok()?.parse().ok()
    }
    fn expr(&mut self, q: &[&'static Tbl]) -> Option<Expr> {
        if self.eat("cat(") {
            let a = self.expr(q)?;
            if !self.eat(",") {
                return None;
            }
            let b = self.expr(q)?;
            if !self.eat(")") {
                return None;
            }
            return Some(Expr::Cat(Box::new(a), Box::new(b)));
        }
        if self.eat("add(") {
            let a = self.expr(q)?;
            if !self.eat(",") {
                return None;
            }
            let b = self.expr(q)?;
            if !self.eat(")") {
                return None;
            }
            return Some(Expr::Add(Box::new(a), Box::new(b)));
        }
        if self.eat("c") {
            let p = self.num()?;
            if !self.eat(".") {
                return None;
            }
            let c = self.num()?;
            if p >= q.len() || c >= q[p].cols.len() {
                return None;
            }
            return Some(Expr::Col(p, c));
        }
        if self.eat("v") {
            let st = self.i;
            while self.i < self.s.len() && (self.s[self.i].is_ascii_alphanumeric() || self.s[self.i] == b'-') {
                self.i += 1;
            }
            let tok = std::str::from_utf8(&self.s[st..self.i]).ok()?;
            lit(tok)?;
            return Some(Expr::Const(tok.to_string()));
        }
        None
    }
    fn pred(&mut self, q: &[&'static Tbl]) -> Option<Pred> {
        for (name, op) in [("eq(", "="), ("ne(", "<>"), ("lt(", "<"), ("le(", "<="), ("gt(", ">"), ("ge(", ">=")] {
            if self.eat(name) {
                let a = self.expr(q)?;
                if !self.eat(",") {
                    return None;
                }
                let b = self.expr(q)?;
                if !self.eat(")") {
                    return None;
                }
                return Some(Pred::Cmp(op, a, b));
            }
        }
        if self.eat("nul(") {
            let a = self.expr(q)?;
            return if self.eat(")") { Some(Pred::IsNull(a)) } else { None };
        }
        if self.eat("nn(") {
            let a = self.expr(q)?;
            return if self.eat(")") { Some(Pred::NotNull(a)) } else { None };
        }
        for (name, and) in [("and(", true), ("or(", false)] {
            if self.eat(name) {
                let a = self.pred(q)?;
                if !self.eat(",") {
                    return None;
                }
                let b = self.pred(q)?;
                if !self.eat(")") {
                    return None;
                }
                return Some(if and { Pred::And(Box::new(a), Box::new(b)) } else { Pred::Or(Box::new(a), Box::new(b)) });
            }
        }
        if self.eat("T") {
            return Some(Pred::True);
        }
        None
    }
}

fn parse_pred_full(s: &str, q: &[&'static Tbl]) -> Option<Pred> {
    let mut p = P { s: s.as_bytes(), i: 0 };
    let r = p.pred(q)?;
    if p.i == s.len() { Some(r) } else { None }
}

fn parse_query(spec: &str) -> Option<Query> {
    let parts: Vec<&str> = spec.split('|').collect();
    if parts.len() != 3 {
        return None;
    }
    let froms: Vec<&str> = parts[0].split(';').collect();
    let mut tables: Vec<&'static Tbl> = vec![tbl(froms[0])?];
    let mut raw_joins = vec![];
    for j in &froms[1..] {
        let f: Vec<&str> = j.split(':').collect();
        if f.len() != 3 || (f[0] != "I" && f[0] != "L") {
            return None;
        }
        let t = tbl(f[1])?;
        if tables.iter().any(|x| x.name == t.name) {
            return None;
        }
        tables.push(t);
        raw_joins.push((f[0] == "L", f[2], tables.len()));
    }
    if tables.len() > 3 {
        return None;
    }
    let mut joins = vec![];
    for (left, on, upto) in raw_joins {
        joins.push((left, parse_pred_full(on, &tables[..upto])?));
    }
    let wher = parse_pred_full(parts[1], &tables)?;
    let mut proj = vec![];
    for e in parts[2].split(';') {
        let mut p = P { s: e.as_bytes(), i: 0 };
        let x = p.expr(&tables)?;
        if p.i != e.len() {
            return None;
        }
        proj.push(x);
    }
    Some(Query { tables, joins, wher, proj })
}

impl Query {
    fn name(&self, pos: usize, alias: bool) -> String {
        if alias { format!("x{pos}") } else { self.tables[pos].name.to_string() }
    }
    fn expr_sql(&self, e: &Expr, alias: bool) -> String {
        match e {
            Expr::Col(p, c) => format!("{}.{}", self.name(*p, alias), self.tables[*p].cols[*c]),
            Expr::Const(t) => lit(t).unwrap(),
            Expr::Cat(a, b) => format!("({} || {})", self.expr_sql(a, alias), self.expr_sql(b, alias)),
            Expr::Add(a, b) => format!("({} + {})", self.expr_sql(a, alias), self.expr_sql(b, alias)),
        }
    }
    fn pred_sql(&self, p: &Pred, alias: bool) -> String {
        match p {
            Pred::True => "1".into(),
            Pred::Cmp(op, a, b) => format!("({} {op} {})", self.expr_sql(a, alias), self.expr_sql(b, alias)),
            Pred::IsNull(a) => format!("({} IS NULL)", self.expr_sql(a, alias)),
            Pred::NotNull(a) => format!("({} IS NOT NULL)", self.expr_sql(a, alias)),
            Pred::And(a, b) => format!("({} AND {})", self.pred_sql(a, alias), self.pred_sql(b, alias)),
            Pred::Or(a, b) => format!("({} OR {})", self.pred_sql(a, alias), self.pred_sql(b, alias)),
        }
    }
    /// the user's SELECT (keyed = false) or the same SELECT with every source key in front (oracle only)
    fn sql(&self, alias: bool, keyed: bool) -> String {
        let mut cols: Vec<String> = vec![];
        if keyed {
            for (p, t) in self.tables.iter().enumerate() {
                for i in 0..t.nk {
                    cols.push(format!("{}.{}", self.name(p, alias), t.cols[i]));
                }
            }
        }
        for e in &self.proj {
            cols.push(self.expr_sql(e, alias));
        }
        let tn = |p: usize| -> String {
            if alias { format!("{} AS x{p}", self.tables[p].name) } else { self.tables[p].name.to_string() }
        };
        let mut s = format!("SELECT {} FROM {}", cols.join(", "), tn(0));
        for (i, (left, on)) in self.joins.iter().enumerate() {
            s.push_str(&format!(" {} JOIN {} ON {}", if *left { "LEFT" } else { "INNER" }, tn(i + 1), self.pred_sql(on, alias)));
        }
        if !matches!(self.wher, Pred::True) {
            s.push_str(&format!(" WHERE {}", self.pred_sql(&self.wher, alias)));
        }
        s
    }
    fn nkeys(&self) -> usize {
        self.tables.iter().map(|t| t.nk).sum()
    }
    fn has_left(&self) -> bool {
        self.joins.iter().any(|j| j.0)
    }
    /// names of the tables on the nullable side of a LEFT join
    fn nullable_tables(&self) -> Vec<&'static str> {
        self.joins.iter().enumerate().filter(|(_, j)| j.0).map(|(i, _)| self.tables[i + 1].name).collect()
    }
}

// ------------------------------------------------------------------------------------------------
// metrics recorder: what the matcher tells about itself (matched keys, processed batches + when)
// ------------------------------------------------------------------------------------------------

#[derive(Default)]
struct SubStats {
    matched: AtomicU64,
    /// (end of handle_candidates, its duration in seconds)
    batches: Mutex<Vec<(Instant, f64)>>,
}

fn registry() -> &'static Mutex<HashMap<String, Arc<SubStats>>> {
    static R: OnceLock<Mutex<HashMap<String, Arc<SubStats>>>> = OnceLock::new();
    R.get_or_init(|| Mutex::new(HashMap::new()))
}

fn stats_of(hash: &str) -> Arc<SubStats> {
    registry().lock().unwrap().entry(hash.to_string()).or_default().clone()
}

fn clear_stats() {
    registry().lock().unwrap().clear();
}

struct MatchedFn(Arc<SubStats>);
impl metrics::CounterFn for MatchedFn {
    fn increment(&self, v: u64) {
        self.0.matched.fetch_add(v, Ordering::SeqCst);
    }
    fn absolute(&self, _v: u64) {}
}
struct BatchFn(Arc<SubStats>);
impl metrics::HistogramFn for BatchFn {
    fn record(&self, v: f64) {
        self.0.batches.lock().unwrap().push((Instant::now(), v));
    }
}

struct Rec;
fn label<'a>(key: &'a metrics::Key, name: &str) -> Option<&'a str> {
    key.labels().find(|l| l.key() == name).map(|l| l.value())
}
impl metrics::Recorder for Rec {
    fn describe_counter(&self, _: metrics::KeyName, _: Option<metrics::Unit>, _: metrics::SharedString) {}
    fn describe_gauge(&self, _: metrics::KeyName, _: Option<metrics::Unit>, _: metrics::SharedString) {}
    fn describe_histogram(&self, _: metrics::KeyName, _: Option<metrics::Unit>, _: metrics::SharedString) {}
    fn register_counter(&self, key: &metrics::Key, _: &metrics::Metadata<'_>) -> metrics::Counter {
        if key.name() == "corro.subs.changes.matched.count" {
            if let Some(h) = label(key, "sql_hash") {
                return metrics::Counter::from_arc(Arc::new(MatchedFn(stats_of(h))));
            }
        }
        metrics::Counter::noop()
    }
    fn register_gauge(&self, _: &metrics::Key, _: &metrics::Metadata<'_>) -> metrics::Gauge {
        metrics::Gauge::noop()
    }
    fn register_histogram(&self, key: &metrics::Key, _: &metrics::Metadata<'_>) -> metrics::Histogram {
        if key.name() == "corro.subs.changes.processing.duration.seconds" {
            if let Some(h) = label(key, "sql_hash") {
                return metrics::Histogram::from_arc(Arc::new(BatchFn(stats_of(h))));
            }
        }
        metrics::Histogram::noop()
    }
}

fn install_recorder() {
    static ONCE: OnceLock<()> = OnceLock::new();
    ONCE.get_or_init(|| {
        let _ = metrics::set_global_recorder(Rec);
    });
}

// ------------------------------------------------------------------------------------------------
// the world of one case
// ------------------------------------------------------------------------------------------------

const DEADLINE: Duration = Duration::from_millis(600);
const LONG: Duration = Duration::from_secs(30);

#[derive(Clone, Debug, PartialEq)]
struct Ev {
    kind: char,
    rowid: u64,
    cells: Vec<String>,
    id: u64,
}

struct Sub {
    sid: String,
    sql: String,
    keyed_sql: String,
    query: Query,
    handle: MatcherHandle,
    stats: Arc<SubStats>,
    rx: tokio::sync::mpsc::UnboundedReceiver<Result<QueryEvent, String>>,
    /// rowid → cells, folded from the initial rows and every event (the client's view)
    replay: BTreeMap<u64, Vec<String>>,
    last_id: u64,
    /// events not yet printed by `events`
    unprinted: Vec<Ev>,
    matched_seen: u64,
    batches_seen: usize,
    /// reference point of the matcher's deadline timer: deadlines at t_ref + k*600ms (true value in [lo,hi])
    t_ref_lo: Instant,
    t_ref_hi: Instant,
    last_keyed: Vec<String>,
    /// a transaction changed a nullable-side table of this query without writing its base table
    left_unsafe: bool,
    total_events: usize,
}

struct World {
    agent: Agent,
    opts: AgentOptions,
    bookie: Bookie,
    _tw: (Tripwire, klukai_types::tripwire::TripwireWorker<tokio_stream::wrappers::ReceiverStream<()>>, tokio::sync::mpsc::Sender<()>),
    dir: std::path::PathBuf,
    peer: Option<CrConn>,
    /// node's own db_version already copied to the peer
    pulled: i64,
    subs: Vec<Sub>,
    group_open: bool,
    t_last_send: Instant,
    fails: Vec<String>,
    syncs: usize,
    split: bool,
    /// experiment only (`rh` / `rd`): change lists written on the peer and not yet delivered
    held: Vec<Vec<Change>>,
    /// `ro1`: the first of two peer transactions, not delivered yet
    pending: Option<Vec<Change>>,
    /// some statement used the empty string as a key value
    empty_key: bool,
    ro_first_empty: bool,
}

fn cells_of(vals: &[klukai_types::api::SqliteValue]) -> Vec<String> {
    vals.iter().map(show_val).collect()
}

fn peer_actor() -> ActorId {
    ActorId::from_bytes(site_id(1))
}

fn open_peer(dir: &std::path::Path) -> rusqlite::Result<CrConn> {
    let path = dir.join("peer.sqlite");
    precreate_db(&path, site_id(1))?;
    let mut conn = CrConn::init(rusqlite::Connection::open(&path)?)?;
    setup_conn(&conn)?;
    migrate(Arc::new(uhlc::HLC::default()), &mut conn)?;
    let mut schema = parse_sql(SCHEMA).expect("schema parses");
    {
        let tx = conn.transaction()?;
        apply_schema(&tx, &Schema::default(), &mut schema).expect("schema applies");
        tx.commit()?;
    }
    Ok(conn)
}

fn show_changes(chs: &[Change]) -> String {
    if chs.is_empty() {
        return "-".into();
    }
    chs.iter().map(|c| format!("{}/{}/{}", c.table.0, show_pk(&c.pk), c.cid.0)).collect::<Vec<_>>().join(",")
}

impl World {
    fn prefix(&self, s: &Sub) -> &'static str {
        if s.query.has_left() && self.empty_key {
            "empty-string-key: "
        } else if s.query.has_left() && s.left_unsafe {
            "left-join-nullable-side: "
        } else {
            "ivm: "
        }
    }

    /// is `now` inside a stretch that contains no deadline of any matcher (with room for `need`)?
    fn window_ok(&self, now: Instant, lo_ms: u64, hi_ms: u64) -> bool {
        for s in &self.subs {
            if now < s.t_ref_hi {
                return false;
            }
            let since_hi = now - s.t_ref_hi;
            let since_lo = now - s.t_ref_lo;
            let ticks = (since_lo.as_millis() / DEADLINE.as_millis()) as u64;
            let ph_hi = (since_hi.as_millis() % DEADLINE.as_millis()) as u64;
            let ph_lo = (since_lo.as_millis() % DEADLINE.as_millis()) as u64;
            // the true phase lies in [ph_hi, ph_lo]; idle ticks drift by a millisecond or two each
            if ph_lo < ph_hi || ph_hi < lo_ms + 3 * ticks.min(40) || ph_lo > hi_ms {
                return false;
            }
        }
        true
    }

    async fn align(&self, lo_ms: u64, hi_ms: u64) {
        let t0 = Instant::now();
        while !self.window_ok(Instant::now(), lo_ms, hi_ms) && t0.elapsed() < Duration::from_secs(2) {
            tokio::time::sleep(Duration::from_millis(4)).await;
        }
        if t0.elapsed() >= Duration::from_secs(2) && std::env::var("HX_TIMING").is_ok() {
            let now = Instant::now();
            for s in &self.subs {
                eprintln!("  align timeout: sub {} width {:?} since_hi {:?}", s.sid, s.t_ref_hi - s.t_ref_lo, now - s.t_ref_hi);
            }
        }
    }

    fn note_left_unsafe(&mut self, stmts: &[Stmt]) {
        if stmts.iter().any(|st| st.pk.iter().chain(st.newpk.iter()).any(|v| v == "t")) {
            self.empty_key = true;
        }
        for s in &mut self.subs {
            if !s.query.has_left() {
                continue;
            }
            let base = s.query.tables[0].name;
            let nullable = s.query.nullable_tables();
            let touches_nullable = stmts.iter().any(|st| nullable.contains(&st.table.as_str()));
            let touches_base = stmts.iter().any(|st| st.table == base);
            if touches_nullable && !touches_base {
                s.left_unsafe = true;
            }
        }
    }

    async fn begin_group(&mut self) {
        if !self.group_open {
            self.align(25, 260).await;
            self.group_open = true;
        }
    }

    // ---------------------------------------------------------------- local write
    async fn local_tx(&mut self, stmts: &[Stmt]) -> Result<String, String> {
        self.begin_group().await;
        let before = self.matched_snapshot();
        let body: Vec<Statement> = stmts.iter().map(|s| Statement::Simple(stmt_to_sql(s))).collect();
        let (status, resp) =
            api_v1_transactions(Extension(self.agent.clone()), axum::extract::Query(TimeoutParams { timeout: None }), axum::Json(body)).await;
        if !status.is_success() {
            let msg = resp.0.results.iter().find_map(|r| if let ExecResult::Error { error } = r { Some(error.clone()) } else { None }).unwrap_or_default();
            self.t_last_send = Instant::now();
            return Ok(if msg.contains("constraint") { "err constraint".into() } else { format!("err other:{}", msg.chars().take(60).collect::<String>().replace(' ', "_")) });
        }
        let mut shown = "-".to_string();
        if let Some(v) = resp.0.version {
            // `broadcast_changes` is spawned: the candidates have been sent once the broadcast shows up
            let mut all: Vec<Change> = vec![];
            let t0 = Instant::now();
            loop {
                let left = LONG.checked_sub(t0.elapsed()).ok_or("timeout waiting for broadcast_changes")?;
                let got = tokio::time::timeout(left, self.opts.rx_bcast.recv()).await.map_err(|_| "timeout waiting for broadcast_changes")?;
                match got {
                    Some(BroadcastInput::AddBroadcast(BroadcastV1::Change(ChangeV1 { changeset: Changeset::Full { version, changes, seqs, last_seq, .. }, .. })))
                        if version.0 == v =>
                    {
                        all.extend(changes);
                        if *seqs.end() == last_seq {
                            break;
                        }
                    }
                    Some(_) => {}
                    None => return Err("broadcast channel closed".into()),
                }
            }
            shown = show_changes(&all);
        }
        self.t_last_send = Instant::now();
        self.note_left_unsafe(stmts);
        Ok(format!("ok ch={shown} m={}", self.matched_since(&before)))
    }

    fn matched_snapshot(&self) -> Vec<u64> {
        self.subs.iter().map(|s| s.stats.matched.load(Ordering::SeqCst)).collect()
    }
    fn matched_since(&self, before: &[u64]) -> String {
        let v: Vec<String> = self.subs.iter().zip(before).map(|(s, b)| (s.stats.matched.load(Ordering::SeqCst) - b).to_string()).collect();
        if v.is_empty() { "-".into() } else { v.join(",") }
    }

    // ---------------------------------------------------------------- remote writes
    /// copy the node's own changes to the peer, so that the peer's next write is causally after them
    async fn pull_to_peer(&mut self) -> Result<(), String> {
        if self.peer.is_none() {
            self.peer = Some(open_peer(&self.dir).map_err(|e| format!("peer: {e}"))?);
        }
        let conn = self.agent.pool().read().await.map_err(|e| e.to_string())?;
        let pulled = self.pulled;
        let (chs, maxv) = tokio::task::block_in_place(|| -> rusqlite::Result<(Vec<Change>, i64)> {
            let mut st = conn.prepare(
                r#"SELECT "table", pk, cid, val, col_version, db_version, seq, site_id, cl FROM crsql_changes
                   WHERE site_id = crsql_site_id() AND db_version > ? ORDER BY db_version, seq"#,
            )?;
            let chs: Vec<Change> = st.query_map([pulled], row_to_change)?.collect::<rusqlite::Result<_>>()?;
            let maxv = chs.iter().map(|c| c.db_version.0 as i64).max().unwrap_or(pulled);
            Ok((chs, maxv))
        })
        .map_err(|e| e.to_string())?;
        let peer = self.peer.as_mut().unwrap();
        tokio::task::block_in_place(|| -> rusqlite::Result<()> {
            let tx = peer.transaction()?;
            for c in &chs {
                tx.prepare_cached(
                    r#"INSERT INTO crsql_changes ("table", pk, cid, val, col_version, db_version, site_id, cl, seq)
                       VALUES (?, ?, ?, ?, ?, ?, ?, ?, ?)"#,
                )?
                .execute(rusqlite::params![c.table.0.as_str(), c.pk, c.cid.0.as_str(), c.val, c.col_version, c.db_version.0 as i64, c.site_id.to_vec(), c.cl, c.seq.0 as i64])?;
            }
            tx.commit()
        })
        .map_err(|e| format!("merge into peer: {e}"))?;
        self.pulled = maxv;
        Ok(())
    }

    /// one transaction on the peer → its change list (None: constraint error)
    fn peer_tx(&mut self, stmts: &[Stmt]) -> Result<Option<Vec<Change>>, String> {
        let peer = self.peer.as_mut().unwrap();
        tokio::task::block_in_place(|| {
            let before: i64 = peer.query_row("SELECT crsql_db_version()", [], |r| r.get(0)).map_err(|e| e.to_string())?;
            let res: rusqlite::Result<()> = (|| {
                let tx = peer.transaction()?;
                for s in stmts {
                    tx.execute(&stmt_to_sql(s), [])?;
                }
                tx.commit()
            })();
            match res {
                Err(e) if e.sqlite_error_code() == Some(rusqlite::ErrorCode::ConstraintViolation) => return Ok(None),
                Err(e) => return Err(format!("peer write: {e}")),
                Ok(()) => {}
            }
            let after: i64 = peer.query_row("SELECT crsql_db_version()", [], |r| r.get(0)).map_err(|e| e.to_string())?;
            if after == before {
                return Ok(Some(vec![]));
            }
            let mut st = peer
                .prepare(
                    r#"SELECT "table", pk, cid, val, col_version, db_version, seq, site_id, cl FROM crsql_changes
                       WHERE site_id = crsql_site_id() AND db_version = ? ORDER BY seq"#,
                )
                .map_err(|e| e.to_string())?;
            let chs: Vec<Change> = st.query_map([after], row_to_change).and_then(|r| r.collect()).map_err(|e| e.to_string())?;
            Ok(Some(chs))
        })
    }

    fn changeset(chs: &[Change], lo: usize, hi: usize) -> ChangeV1 {
        let part: Vec<Change> = chs[lo..=hi].to_vec();
        // sequence ranges tile 0..=last_seq whatever holes the change list has (as ChunkedChanges does):
        // a cell written twice or a row inserted and deleted in one transaction leaves unused seqs
        let last_seq = chs[chs.len() - 1].seq;
        let start = if lo == 0 { klukai_types::base::CrsqlSeq(0) } else { klukai_types::base::CrsqlSeq(chs[lo - 1].seq.0 + 1) };
        let end = if hi == chs.len() - 1 { last_seq } else { chs[hi].seq };
        ChangeV1 {
            actor_id: peer_actor(),
            changeset: Changeset::Full {
                version: chs[0].db_version,
                seqs: start..=end,
                last_seq,
                changes: part,
                ts: Default::default(),
            },
        }
    }

    /// `mode`: "r" one complete changeset per transaction, one call each; "rb" all in one call;
    /// "rp" two partial chunks, then `process_fully_buffered_changes`
    async fn remote(&mut self, mode: &str, txs: &[Vec<Stmt>]) -> Result<String, String> {
        self.begin_group().await;
        self.pull_to_peer().await?;
        let before = self.matched_snapshot();
        self.ro_first_empty = false;
        let mut sets: Vec<Vec<Change>> = vec![];
        for stmts in txs {
            match self.peer_tx(stmts)? {
                None => {
                    self.t_last_send = Instant::now();
                    // earlier transactions of an `rb` group stay on the peer only; keep it simple: report and stop
                    if !sets.is_empty() {
                        return Err("rb: a later transaction failed after earlier ones were applied (generator must not do that)".into());
                    }
                    return Ok("err constraint".into());
                }
                Some(chs) => {
                    self.note_left_unsafe(stmts);
                    if sets.is_empty() && chs.is_empty() {
                        self.ro_first_empty = true;
                    }
                    if !chs.is_empty() {
                        sets.push(chs);
                    }
                }
            }
        }
        let shown: Vec<String> = sets.iter().map(|c| show_changes(c)).collect();
        let tmo = Duration::from_secs(60);
        match mode {
            "ro1" => {
                // two transactions: only the LATER one is delivered now
                if txs.len() != 2 || sets.len() > 2 {
                    return Err("ro1 wants two transactions".into());
                }
                // which of the two produced changes?  (a transaction without changes has no version)
                let (first, second): (Option<Vec<Change>>, Option<Vec<Change>>) = match sets.len() {
                    2 => (Some(sets[0].clone()), Some(sets[1].clone())),
                    1 => {
                        if self.ro_first_empty { (None, Some(sets[0].clone())) } else { (Some(sets[0].clone()), None) }
                    }
                    _ => (None, None),
                };
                self.pending = Some(first.unwrap_or_default());
                let mut shown2 = "-".to_string();
                if let Some(chs) = second {
                    shown2 = show_changes(&chs);
                    let cv = Self::changeset(&chs, 0, chs.len() - 1);
                    process_multiple_changes(self.agent.clone(), self.bookie.clone(), vec![(cv, ChangeSource::Broadcast, Instant::now())], tmo)
                        .await
                        .map_err(|e| format!("process_multiple_changes: {e}"))?;
                }
                self.t_last_send = Instant::now();
                return Ok(format!("ok ch={shown2} m={}", self.matched_since(&before)));
            }
            "rh" => {
                self.held.extend(sets);
                return Ok(format!("ok held={} ch={}", self.held.len(), shown.join("|")));
            }
            "rp" => {
                for chs in &sets {
                    if chs.len() < 2 {
                        let cv = Self::changeset(chs, 0, chs.len() - 1);
                        process_multiple_changes(self.agent.clone(), self.bookie.clone(), vec![(cv, ChangeSource::Sync, Instant::now())], tmo)
                            .await
                            .map_err(|e| format!("process_multiple_changes: {e}"))?;
                        continue;
                    }
                    let h = chs.len() / 2;
                    // second half first: the version stays incomplete until the first half arrives
                    for (lo, hi) in [(h, chs.len() - 1), (0, h - 1)] {
                        let cv = Self::changeset(chs, lo, hi);
                        process_multiple_changes(self.agent.clone(), self.bookie.clone(), vec![(cv, ChangeSource::Sync, Instant::now())], tmo)
                            .await
                            .map_err(|e| format!("process_multiple_changes(partial): {e}"))?;
                    }
                    let (actor, version) = tokio::time::timeout(LONG, self.opts.rx_apply.recv())
                        .await
                        .map_err(|_| "timeout waiting for the apply trigger of a fully buffered version")?
                        .ok_or("apply channel closed")?;
                    process_fully_buffered_changes(&self.agent, &self.bookie, actor, version, tmo)
                        .await
                        .map_err(|e| format!("process_fully_buffered_changes: {e}"))?;
                }
            }
            "rb" => {
                let batch: Vec<_> = sets.iter().map(|chs| (Self::changeset(chs, 0, chs.len() - 1), ChangeSource::Broadcast, Instant::now())).collect();
                if !batch.is_empty() {
                    process_multiple_changes(self.agent.clone(), self.bookie.clone(), batch, tmo).await.map_err(|e| format!("process_multiple_changes: {e}"))?;
                }
            }
            _ => {
                for chs in &sets {
                    let cv = Self::changeset(chs, 0, chs.len() - 1);
                    process_multiple_changes(self.agent.clone(), self.bookie.clone(), vec![(cv, ChangeSource::Broadcast, Instant::now())], tmo)
                        .await
                        .map_err(|e| format!("process_multiple_changes: {e}"))?;
                }
            }
        }
        self.t_last_send = Instant::now();
        Ok(format!("ok ch={} m={}", if shown.is_empty() { "-".to_string() } else { shown.join("|") }, self.matched_since(&before)))
    }
}

// ------------------------------------------------------------------------------------------------
// subscriptions, sync, oracle
// ------------------------------------------------------------------------------------------------

fn show_rows(mut rows: Vec<String>) -> String {
    rows.sort();
    if rows.is_empty() { "-".into() } else { rows.join(";") }
}

impl World {
    async fn query_node(&self, sql: &str) -> Result<Vec<Vec<String>>, String> {
        let conn = self.agent.pool().read().await.map_err(|e| e.to_string())?;
        tokio::task::block_in_place(|| {
            let mut st = conn.prepare(sql).map_err(|e| format!("{e} in {sql}"))?;
            let n = st.column_count();
            let mut q = st.query([]).map_err(|e| e.to_string())?;
            let mut out = vec![];
            while let Some(r) = q.next().map_err(|e| e.to_string())? {
                out.push((0..n).map(|i| show_valref(r.get_ref(i).unwrap())).collect());
            }
            Ok(out)
        })
    }

    /// rows of the materialised `query` table: (rowid, pk columns, cells)
    async fn materialised(&self, s: &Sub) -> Result<Vec<(u64, Vec<String>, Vec<String>)>, String> {
        let conn = s.handle.pool().get().await.map_err(|e| e.to_string())?;
        let nk = s.query.nkeys();
        tokio::task::block_in_place(|| {
            let mut st = conn.prepare("SELECT * FROM query").map_err(|e| e.to_string())?;
            let n = st.column_count();
            let mut q = st.query([]).map_err(|e| e.to_string())?;
            let mut out = vec![];
            while let Some(r) = q.next().map_err(|e| e.to_string())? {
                let rowid: i64 = r.get(0).map_err(|e| e.to_string())?;
                let all: Vec<String> = (1..n).map(|i| show_valref(r.get_ref(i).unwrap())).collect();
                out.push((rowid as u64, all[..nk].to_vec(), all[nk..].to_vec()));
            }
            Ok(out)
        })
    }

    async fn max_change_id(&self, s: &Sub) -> Result<u64, String> {
        let conn = s.handle.pool().get().await.map_err(|e| e.to_string())?;
        tokio::task::block_in_place(|| conn.query_row("SELECT COALESCE(MAX(id),0) FROM changes", [], |r| r.get::<_, i64>(0)).map(|x| x as u64).map_err(|e| e.to_string()))
    }

    async fn subscribe(&mut self, sid: &str, spec: &str, alias: bool) -> Result<String, String> {
        let query = parse_query(spec).ok_or("bad-op")?;
        if self.subs.iter().any(|s| s.sid == sid) {
            return Err("bad-op".into());
        }
        let sql = query.sql(alias, false);
        let keyed_sql = query.sql(alias, true);
        if self.subs.iter().any(|s| s.sql == sql) {
            return Err("bad-op".into());
        }
        if !self.subs.is_empty() {
            // start the new matcher's timer in phase with the others
            self.align(5, 150).await;
        }
        let t_lo = Instant::now();
        let res = api_v1_subs(
            Extension(self.agent.clone()),
            Extension(self.opts.subs_bcast_cache.clone()),
            Extension(self.opts.tripwire.clone()),
            axum::extract::Query(SubParams::default()),
            axum::Json(Statement::Simple(sql.clone())),
        )
        .await
        .into_response();
        if !res.status().is_success() {
            let b = res.into_body().collect().await.map(|b| b.to_bytes()).unwrap_or_default();
            return Ok(format!("err sub:{}", String::from_utf8_lossy(&b).chars().take(80).collect::<String>().replace(' ', "_")));
        }
        let handle = self.agent.subs_manager().get_by_query(&sql).ok_or("subscription not registered under its sql")?;
        // the registry is emptied at the start of every case; the matcher registered its counters in `Matcher::new`
        let stats = stats_of(handle.hash());
        let (tx, mut rx) = tokio::sync::mpsc::unbounded_channel();
        let mut body = res.into_body();
        tokio::spawn(async move {
            let mut buf: Vec<u8> = vec![];
            while let Some(fr) = body.frame().await {
                match fr {
                    Ok(frame) => {
                        if let Some(d) = frame.data_ref() {
                            buf.extend_from_slice(d);
                            while let Some(pos) = buf.iter().position(|b| *b == b'\n') {
                                let line: Vec<u8> = buf.drain(..=pos).collect();
                                let ev = serde_json::from_slice::<QueryEvent>(&line[..line.len() - 1]).map_err(|e| format!("undecodable event: {e}"));
                                if tx.send(ev).is_err() {
                                    return;
                                }
                            }
                        }
                    }
                    Err(e) => {
                        let _ = tx.send(Err(format!("body error: {e}")));
                        return;
                    }
                }
            }
        });
        // the matcher's deadline timer is created when the state becomes `Running`
        let h2 = handle.clone();
        let pool = handle.pool().clone();
        let conn = pool.get().await.map_err(|e| e.to_string())?;
        let t_wait = Instant::now();
        tokio::task::spawn_blocking(move || h2.max_change_id(&conn).map(|_| ())).await.map_err(|e| e.to_string())?.map_err(|e| e.to_string())?;
        let t_hi = Instant::now();
        // `max_change_id` returns when the state flips to Running (the timer is created right after): if it
        // had to wait, the flip happened just now; otherwise some time since the request was made
        let (t_lo, t_hi) = if t_hi - t_wait >= Duration::from_millis(2) { (t_hi - Duration::from_millis(3), t_hi) } else { (t_lo, t_wait) };
        // initial rows
        let mut replay = BTreeMap::new();
        let mut cells_list = vec![];
        let mut saw_cols = false;
        loop {
            let ev = tokio::time::timeout(LONG, rx.recv()).await.map_err(|_| "timeout waiting for the initial rows")?.ok_or("event stream ended")??;
            match ev {
                QueryEvent::Columns(_) => saw_cols = true,
                QueryEvent::Row(rowid, cells) => {
                    let c = cells_of(&cells);
                    if replay.insert(rowid.0, c.clone()).is_some() {
                        self.fails.push(format!("ivm: sub {sid}: initial rows repeat rowid {}", rowid.0));
                    }
                    cells_list.push(c.join(","));
                }
                QueryEvent::EndOfQuery { change_id, .. } => {
                    if change_id.map(|c| c.0) != Some(0) {
                        self.fails.push(format!("ivm: sub {sid}: end of initial query carries change id {change_id:?}, expected 0"));
                    }
                    break;
                }
                QueryEvent::Change(..) => return Err("change event before end of query".into()),
                QueryEvent::Error(e) => return Ok(format!("err sub-event:{}", e.replace(' ', "_"))),
            }
        }
        if !saw_cols {
            self.fails.push(format!("ivm: sub {sid}: no columns event"));
        }
        let n = cells_list.len();
        let mut s = Sub {
            sid: sid.to_string(),
            sql,
            keyed_sql,
            query,
            handle,
            stats,
            rx,
            replay,
            last_id: 0,
            unprinted: vec![],
            matched_seen: 0,
            batches_seen: 0,
            t_ref_lo: t_lo,
            t_ref_hi: t_hi,
            last_keyed: vec![],
            left_unsafe: false,
            total_events: 0,
        };
        self.check_sub(&mut s, &[], true).await?;
        self.subs.push(s);
        Ok(format!("ok n={n} {}", show_rows(cells_list)))
    }

    /// the property, evaluated on what the real node shows (independent of the model)
    async fn check_sub(&mut self, s: &mut Sub, new_events: &[Ev], initial: bool) -> Result<(), String> {
        let pre = self.prefix(s);
        let at = if initial { "at subscription".to_string() } else { format!("after sync #{}", self.syncs) };
        let mat = self.materialised(s).await?;
        let keyed_db: Vec<String> = {
            let mut v: Vec<String> = self.query_node(&s.keyed_sql).await?.into_iter().map(|r| {
                let nk = s.query.nkeys();
                format!("{}|{}", r[..nk].join("+"), r[nk..].join(","))
            }).collect();
            v.sort();
            v
        };
        let mut keyed_sub: Vec<String> = mat.iter().map(|(_, p, c)| format!("{}|{}", p.join("+"), c.join(","))).collect();
        keyed_sub.sort();
        if keyed_sub != keyed_db {
            self.fails.push(format!("{pre}sub {} [{}] {at}: materialised rows differ from the query on the database: sub={} db={}", s.sid, s.sql, show_rows(keyed_sub.clone()), show_rows(keyed_db.clone())));
        }
        // the user's own SELECT, as multisets of cells
        let mut plain_db: Vec<String> = self.query_node(&s.sql).await?.into_iter().map(|r| r.join(",")).collect();
        plain_db.sort();
        let mut plain_sub: Vec<String> = mat.iter().map(|(_, _, c)| c.join(",")).collect();
        plain_sub.sort();
        if plain_sub != plain_db && keyed_sub == keyed_db {
            self.fails.push(format!("{pre}sub {} [{}] {at}: cells differ from the user's SELECT: sub={} db={}", s.sid, s.sql, show_rows(plain_sub.clone()), show_rows(plain_db.clone())));
        }
        // replaying initial rows + events gives the materialised rows, and so the query result
        let mat_by_rowid: BTreeMap<u64, Vec<String>> = mat.iter().map(|(r, _, c)| (*r, c.clone())).collect();
        if mat_by_rowid != s.replay {
            self.fails.push(format!("{pre}sub {} [{}] {at}: replaying the initial rows and the events does not give the materialised rows: replay={:?} rows={:?}", s.sid, s.sql, s.replay, mat_by_rowid));
        }
        let mut replay_cells: Vec<String> = s.replay.values().map(|c| c.join(",")).collect();
        replay_cells.sort();
        if replay_cells != plain_db && mat_by_rowid == s.replay && plain_sub == plain_db {
            self.fails.push(format!("{pre}sub {} {at}: replay differs from the query result", s.sid));
        }
        if !initial && !new_events.is_empty() && keyed_db == s.last_keyed {
            self.fails.push(format!("{pre}sub {} [{}] {at}: {} event(s) emitted although the query result did not change", s.sid, s.sql, new_events.len()));
        }
        s.last_keyed = keyed_db;
        Ok(())
    }

    async fn sync(&mut self) -> Result<String, String> {
        self.syncs += 1;
        self.group_open = false;
        let mut out = vec![];
        let mut subs = std::mem::take(&mut self.subs);
        let mut err = None;
        for s in subs.iter_mut() {
            match self.sync_sub(s).await {
                Ok(b) => out.push(b.to_string()),
                Err(e) => {
                    err = Some(e);
                    break;
                }
            }
        }
        self.subs = subs;
        if let Some(e) = err {
            return Err(e);
        }
        Ok(format!("ok b={}", if out.is_empty() { "-".to_string() } else { out.join(",") }))
    }

    async fn sync_sub(&mut self, s: &mut Sub) -> Result<usize, String> {
        let matched = s.stats.matched.load(Ordering::SeqCst);
        let mut nb = 0usize;
        if matched > s.matched_seen {
            s.matched_seen = matched;
            // Wait for a batch that started after the last candidate message of the group was sent: the
            // matcher drains its channel before it looks at the deadline, so that batch contains them all.
            // A batch that started earlier may have missed the later messages: then another one follows
            // within one deadline (give it 3 s; the machine may be busy).
            let mut ambiguous_since: Option<Instant> = None;
            let t0 = Instant::now();
            loop {
                let all = s.stats.batches.lock().unwrap().clone();
                if all.len() > s.batches_seen {
                    nb += all.len() - s.batches_seen;
                    s.batches_seen = all.len();
                    let (t_end, dur) = all[all.len() - 1];
                    s.t_ref_lo = t_end;
                    s.t_ref_hi = t_end + Duration::from_millis(2);
                    let t_start = t_end.checked_sub(Duration::from_secs_f64(dur.max(0.0))).unwrap_or(t_end);
                    if t_start >= self.t_last_send + Duration::from_millis(20) {
                        break;
                    }
                    ambiguous_since = Some(Instant::now());
                }
                if let Some(a) = ambiguous_since {
                    if a.elapsed() > Duration::from_secs(3) {
                        break;
                    }
                } else if t0.elapsed() > Duration::from_secs(90) {
                    return Err(format!("sub {}: candidates were matched but no batch was processed within 90 s", s.sid));
                }
                tokio::time::sleep(Duration::from_millis(3)).await;
            }
            if nb != 1 {
                self.split = true;
            }
        }
        // all events of the processed batches
        let want = self.max_change_id(s).await?;
        let mut new_events = vec![];
        let t0 = Instant::now();
        while s.last_id + (new_events.len() as u64) < want {
            let left = LONG.checked_sub(t0.elapsed()).ok_or_else(|| format!("sub {}: change log is at {want} but only {} events arrived", s.sid, s.last_id as usize + new_events.len()))?;
            let ev = tokio::time::timeout(left, s.rx.recv()).await.map_err(|_| format!("sub {}: change log is at {want} but the events did not arrive", s.sid))?.ok_or("event stream ended")??;
            match ev {
                QueryEvent::Change(kind, rowid, cells, id) => {
                    let k = match kind {
                        ChangeType::Insert => 'I',
                        ChangeType::Update => 'U',
                        ChangeType::Delete => 'D',
                    };
                    new_events.push(Ev { kind: k, rowid: rowid.0, cells: cells_of(&cells), id: id.0 });
                }
                QueryEvent::Error(e) => return Err(format!("sub {}: error event {e}", s.sid)),
                other => return Err(format!("sub {}: unexpected event {other:?}", s.sid)),
            }
        }
        // nothing more may be in flight
        while let Ok(ev) = s.rx.try_recv() {
            self.fails.push(format!("ivm: sub {}: event beyond the change log: {ev:?}", s.sid));
        }
        let pre = self.prefix(s);
        for e in &new_events {
            if e.id != s.last_id + 1 {
                self.fails.push(format!("{pre}sub {}: change id {} follows {} (must increase by exactly one)", s.sid, e.id, s.last_id));
            }
            s.last_id = e.id;
            match e.kind {
                'I' => {
                    if s.replay.insert(e.rowid, e.cells.clone()).is_some() {
                        self.fails.push(format!("{pre}sub {}: insert event for a row the client already has (rowid {})", s.sid, e.rowid));
                    }
                }
                'U' => {
                    if s.replay.insert(e.rowid, e.cells.clone()).is_none() {
                        self.fails.push(format!("{pre}sub {}: update event for a row the client does not have (rowid {})", s.sid, e.rowid));
                    }
                }
                _ => {
                    if s.replay.remove(&e.rowid).is_none() {
                        self.fails.push(format!("{pre}sub {}: delete event for a row the client does not have (rowid {})", s.sid, e.rowid));
                    }
                }
            }
        }
        s.total_events += new_events.len();
        self.check_sub(s, &new_events, false).await?;
        s.unprinted.extend(new_events);
        Ok(nb)
    }

    async fn rows(&self, sid: &str) -> Result<String, String> {
        let s = self.subs.iter().find(|s| s.sid == sid).ok_or("bad-op")?;
        let mat = self.materialised(s).await?;
        let rows: Vec<String> = mat.iter().map(|(_, p, c)| format!("{}|{}", p.join("+"), c.join(","))).collect();
        Ok(format!("n={} {}", rows.len(), show_rows(rows)))
    }

    fn events(&mut self, sid: &str) -> Result<String, String> {
        let s = self.subs.iter_mut().find(|s| s.sid == sid).ok_or("bad-op")?;
        let evs = std::mem::take(&mut s.unprinted);
        if evs.is_empty() {
            return Ok("n=0 ids=- -".into());
        }
        let ids = format!("{}-{}", evs[0].id, evs[evs.len() - 1].id);
        let list: Vec<String> = evs.iter().map(|e| format!("{}:{}", e.kind, e.cells.join(","))).collect();
        Ok(format!("n={} ids={ids} {}", evs.len(), show_rows(list)))
    }
}

// ------------------------------------------------------------------------------------------------
// one case
// ------------------------------------------------------------------------------------------------

async fn start_world(dir: &std::path::Path) -> Result<World, String> {
    let (tripwire, worker, tx) = Tripwire::new_simple();
    let conf = Config::builder()
        .db_path(dir.join("corrosion.db").display().to_string())
        .gossip_addr("127.0.0.1:0".parse().unwrap())
        .api_addr("127.0.0.1:0".parse().unwrap())
        .build()
        .map_err(|e| format!("config: {e}"))?;
    let (agent, opts) = setup(conf, tripwire.clone()).await.map_err(|e| format!("setup: {e}"))?;
    let (status, body) = api_v1_db_schema(Extension(agent.clone()), axum::Json(vec![SCHEMA.to_string()])).await;
    if !status.is_success() {
        return Err(format!("schema: {:?}", body.0.results));
    }
    let bookie = Bookie::new_with_registry(Default::default(), opts.lock_registry.clone());
    {
        let mut w = bookie.write::<&str, _>("init", None).await;
        w.insert(agent.actor_id(), agent.booked().clone());
    }
    Ok(World {
        agent,
        opts,
        bookie,
        _tw: (tripwire, worker, tx),
        dir: dir.to_path_buf(),
        peer: None,
        pulled: 0,
        subs: vec![],
        group_open: false,
        t_last_send: Instant::now(),
        fails: vec![],
        syncs: 0,
        split: false,
        held: vec![],
        pending: None,
        empty_key: false,
        ro_first_empty: false,
    })
}

struct Outcome {
    outputs: Vec<String>,
    fails: Vec<String>,
    split: bool,
    events: usize,
    tags: Vec<String>,
}

async fn run_case(ops: &[String], dir: &std::path::Path) -> Result<Outcome, String> {
    let mut w = start_world(dir).await?;
    let mut outputs = vec![];
    let mut tags = vec![];
    let timing = std::env::var("HX_TIMING").is_ok();
    for op in ops {
        let t_op = Instant::now();
        let toks: Vec<&str> = op.split_whitespace().collect();
        let r: Result<String, String> = match toks.as_slice() {
            ["sub", sid, spec, mode] if *mode == "plain" || *mode == "alias" => w.subscribe(sid, spec, *mode == "alias").await,
            ["w", tx] if w.pending.is_none() => match parse_tx(tx) {
                Some(st) => w.local_tx(&st).await,
                None => Err("bad-op".into()),
            },
            ["rd", idx] => match idx.parse::<usize>().ok().filter(|i| *i < w.held.len()) {
                Some(i) => {
                    w.begin_group().await;
                    let before = w.matched_snapshot();
                    let chs = w.held[i].clone();
                    let cv = World::changeset(&chs, 0, chs.len() - 1);
                    match process_multiple_changes(w.agent.clone(), w.bookie.clone(), vec![(cv, ChangeSource::Broadcast, Instant::now())], Duration::from_secs(60)).await {
                        Ok(()) => {
                            w.t_last_send = Instant::now();
                            Ok(format!("ok ch={} m={}", show_changes(&chs), w.matched_since(&before)))
                        }
                        Err(e) => Err(format!("process_multiple_changes: {e}")),
                    }
                }
                None => Err("bad-op".into()),
            },
            ["ro2"] => match w.pending.take() {
                Some(chs) => {
                    w.begin_group().await;
                    let before = w.matched_snapshot();
                    if chs.is_empty() {
                        Ok(format!("ok ch=- m={}", w.matched_since(&before)))
                    } else {
                        let cv = World::changeset(&chs, 0, chs.len() - 1);
                        match process_multiple_changes(w.agent.clone(), w.bookie.clone(), vec![(cv, ChangeSource::Broadcast, Instant::now())], Duration::from_secs(60)).await {
                            Ok(()) => {
                                w.t_last_send = Instant::now();
                                Ok(format!("ok ch={} m={}", show_changes(&chs), w.matched_since(&before)))
                            }
                            Err(e) => Err(format!("process_multiple_changes: {e}")),
                        }
                    }
                }
                None => Err("bad-op".into()),
            },
            [m @ ("r" | "rp" | "rb" | "rh" | "ro1"), txs] if w.pending.is_none() => {
                let parsed: Option<Vec<Vec<Stmt>>> = txs.split('|').map(parse_tx).collect();
                match parsed {
                    Some(p) if (*m == "ro1" && p.len() == 2) || *m == "rb" || (*m != "ro1" && p.len() == 1) => w.remote(m, &p).await,
                    _ => Err("bad-op".into()),
                }
            }
            ["sync"] => w.sync().await,
            ["rows", sid] => w.rows(sid).await,
            ["events", sid] => w.events(sid),
            _ => Err("bad-op".into()),
        };
        if timing {
            eprintln!("{:>6} ms  {}", t_op.elapsed().as_millis(), op.chars().take(60).collect::<String>());
        }
        match r {
            Ok(o) => outputs.push(o),
            Err(e) if e == "bad-op" => outputs.push("bad-op".into()),
            Err(e) => return Err(format!("at op `{op}`: {e}")),
        }
    }
    for s in &w.subs {
        tags.push(format!("tables:{}", s.query.tables.len()));
        if s.query.has_left() {
            tags.push("left-join".into());
        }
        if s.total_events > 0 {
            tags.push("sub-with-events".into());
        }
    }
    let events = w.subs.iter().map(|s| s.total_events).sum();
    Ok(Outcome { outputs, fails: std::mem::take(&mut w.fails), split: w.split, events, tags })
}

impl Prop for C11 {
    fn id(&self) -> &'static str {
        "C11"
    }
    fn rule(&self) -> &'static str {
        "one case = one history (local / remote / partially delivered transactions in groups, one matcher batch per group) \
         observed by 1-5 subscriptions; evaluations counts cases, tag `pairs` counts (query, history) pairs; \
         non-trivial iff at least one change event was emitted; distinct by hash of the op list"
    }
    fn default_cases(&self, tier: Tier) -> usize {
        match tier {
            Tier::Quick => 16,
            Tier::Thorough => 360,
        }
    }
    fn begin(&self) {
        install_recorder();
    }
    fn gen_case(&self, rng: &mut Rng, tier: Tier, index: usize) -> Vec<String> {
        gen_case(rng, tier, index)
    }
    fn exec_case(&self, ops: &[String]) -> CaseResult {
        install_recorder();
        let mut res = CaseResult::default();
        let mut last_err = String::new();
        for attempt in 0..3 {
            clear_stats();
            let dir = TmpDir::new("c11");
            let rt = tokio::runtime::Builder::new_multi_thread().worker_threads(4).enable_all().build().expect("runtime");
            let r = rt.block_on(run_case(ops, dir.path()));
            rt.shutdown_background();
            drop(dir);
            match r {
                Ok(o) if o.split && attempt < 2 => {
                    last_err = "a group was not processed as one batch".into();
                    continue;
                }
                Ok(o) => {
                    if o.split {
                        res.inconclusive = Some("batch-split".into());
                        return res;
                    }
                    res.outputs = o.outputs;
                    res.oracle_failures = o.fails;
                    res.nontrivial = o.events > 0;
                    res.tags = o.tags;
                    let pairs = ops.iter().filter(|l| l.starts_with("sub ")).count();
                    for _ in 0..pairs {
                        res.tags.push("pairs".into());
                    }
                    return res;
                }
                Err(e) => {
                    last_err = e;
                    break;
                }
            }
        }
        res.oracle_failures.push(format!("harness could not drive the real node: {last_err}"));
        while res.outputs.len() < ops.len() {
            res.outputs.push("impl-error".into());
        }
        res
    }
}

// ------------------------------------------------------------------------------------------------
// generator
// ------------------------------------------------------------------------------------------------

const TXT: [&str; 4] = ["t70", "t71", "t72", "t73"];

fn templates(rng: &mut Rng) -> Vec<(String, bool)> {
    let c = format!("i{}", rng.range(1, 4));
    let t = TXT[rng.below(4) as usize];
    let t2 = TXT[rng.below(2) as usize];
    let inner: Vec<String> = vec![
        "t|T|c0.0;c0.1;c0.2".into(),
        format!("t|gt(c0.2,v{c})|c0.0;c0.1"),
        format!("t|and(ge(c0.2,v{c}),nn(c0.1))|c0.1;add(c0.2,vi1)"),
        format!("t|or(nul(c0.1),lt(c0.2,v{c}))|c0.0;cat(c0.1,vt7a);c0.2"),
        format!("t|eq(c0.1,v{t})|c0.0;c0.2"),
        "u|T|c0.0;c0.1;c0.2".into(),
        format!("u|ge(c0.0,v{c})|c0.2;c0.1"),
        format!("u|and(eq(c0.1,v{t2}),nn(c0.2))|c0.0;cat(c0.1,c0.2)"),
        format!("w|gt(c0.1,v{c})|c0.0;c0.1"),
        "k|T|c0.0".into(),
        format!("t|ne(c0.1,v{t})|c0.0;cat(c0.1,vt78)"),
        "w|T|c0.0;add(c0.1,c0.1)".into(),
        format!("t|le(c0.2,v{c})|c0.2;c0.1"),
        "t|T|c0.0".into(),
        format!("t|gt(c0.0,v{c})|c0.0"),
        "u|T|c0.1;c0.0".into(),
        "t;I:u:eq(c1.0,c0.0)|T|c0.0;c1.1".into(),
        "w;I:t:eq(c1.1,c0.0)|T|c1.0".into(),
        "t;I:u:eq(c1.0,c0.2)|T|c0.0;c0.1;c1.1;c1.2".into(),
        format!("t;I:u:eq(c1.0,c0.2)|gt(c0.2,v{c})|c0.1;c1.2"),
        "t;I:w:eq(c1.0,c0.1)|T|c0.0;c1.1;c0.2".into(),
        "u;I:t:eq(c1.0,c0.0)|nn(c1.1)|c0.1;c0.2;c1.1".into(),
        "t;I:k:eq(c1.0,c0.2)|T|c0.0;c0.1;c1.0".into(),
        "u;I:w:eq(c1.0,c0.2)|T|c0.0;c0.1;c0.2;c1.1".into(),
        format!("t;I:u:and(eq(c1.0,c0.2),eq(c1.1,v{t2}))|T|c0.0;c0.1;c1.2"),
        "t;I:u:eq(c1.0,c0.0)|or(nul(c1.2),nn(c0.1))|c0.0;cat(c0.1,c1.2)".into(),
        "w;I:t:eq(c1.1,c0.0)|T|c0.0;c0.1;c1.0;c1.2".into(),
        "t;I:u:eq(c1.0,c0.2);I:w:eq(c2.0,c1.2)|T|c0.0;c0.1;c1.1;c1.2;c2.1".into(),
        "t;I:u:eq(c1.0,c0.2);I:k:eq(c2.0,c0.0)|T|c0.0;c0.1;c1.2;c2.0".into(),
        format!("u;I:t:eq(c1.0,c0.0);I:w:eq(c2.0,c1.1)|gt(c2.1,v{c})|c0.2;c1.1;c2.1"),
    ];
    let left: Vec<String> = vec![
        "t;L:u:eq(c1.0,c0.2)|T|c0.0;c0.1;c1.1;c1.2".into(),
        "t;L:u:eq(c1.0,c0.2)|nul(c1.2)|c0.0;c0.1;c1.2".into(),
        "t;L:w:eq(c1.0,c0.1)|T|c0.0;c0.1;c1.1".into(),
        "u;L:t:eq(c1.0,c0.0)|T|c0.0;c0.1;c0.2;c1.1".into(),
        "t;L:u:eq(c1.0,c0.2);L:w:eq(c2.0,c1.2)|T|c0.0;c0.1;c1.2;c2.1".into(),
        "t;I:u:eq(c1.0,c0.2);L:w:eq(c2.0,c1.2)|T|c0.0;c0.1;c1.2;c2.1".into(),
        format!("t;L:u:and(eq(c1.0,c0.2),eq(c1.1,v{t2}))|T|c0.0;c0.1;c1.2"),
        format!("t;L:k:eq(c1.0,c0.2)|gt(c0.0,v{c})|c0.0;c0.1;c1.0"),
        format!("t;L:w:eq(c1.0,c0.1)|or(nul(c1.1),gt(c1.1,v{c}))|c0.0;cat(c0.1,vt78);c1.1"),
    ];
    inner.into_iter().map(|s| (s, false)).chain(left.into_iter().map(|s| (s, true))).collect()
}

#[derive(Clone, Default)]
struct MiniDb {
    /// (table, pk) → non-key column values
    rows: BTreeMap<(String, String), BTreeMap<String, String>>,
}

fn key_domain(t: &str) -> Vec<String> {
    match t {
        "t" => (1..=6).map(|i| format!("i{i}")).collect(),
        "u" => (1..=4).flat_map(|i| ["t70", "t71"].into_iter().map(move |k| format!("i{i}+{k}"))).collect(),
        "k" => (1..=5).map(|i| format!("i{i}")).collect(),
        _ => TXT.iter().map(|s| s.to_string()).collect(),
    }
}

fn gen_value(rng: &mut Rng, ty: char) -> String {
    if rng.chance(1, 6) {
        return "n".into();
    }
    if ty == 'i' { format!("i{}", rng.range(1, 4)) } else { TXT[rng.below(4) as usize].to_string() }
}

impl MiniDb {
    fn keys_of(&self, t: &str) -> Vec<String> {
        self.rows.keys().filter(|k| k.0 == t).map(|k| k.1.clone()).collect()
    }
    /// apply one statement; false = constraint error
    fn apply(&mut self, st: &Stmt) -> bool {
        let key = (st.table.clone(), st.pk.join("+"));
        let t = tbl(&st.table).unwrap();
        match st.kind.as_str() {
            "ins" => {
                if self.rows.contains_key(&key) {
                    return false;
                }
                let mut m: BTreeMap<String, String> = t.cols[t.nk..].iter().map(|c| (c.to_string(), "n".to_string())).collect();
                for (c, v) in &st.assigns {
                    m.insert(c.clone(), v.clone());
                }
                self.rows.insert(key, m);
            }
            "upd" => {
                if let Some(m) = self.rows.get_mut(&key) {
                    for (c, v) in &st.assigns {
                        m.insert(c.clone(), v.clone());
                    }
                }
            }
            "del" => {
                self.rows.remove(&key);
            }
            _ => {
                let nk = (st.table.clone(), st.newpk.join("+"));
                if nk == key {
                    return true;
                }
                if self.rows.contains_key(&key) {
                    if self.rows.contains_key(&nk) {
                        return false;
                    }
                    let m = self.rows.remove(&key).unwrap();
                    self.rows.insert(nk, m);
                }
            }
        }
        true
    }
}

fn gen_stmt(rng: &mut Rng, db: &MiniDb, allow_bad: bool) -> String {
    let t = &TABLES[match rng.below(10) {
        0..=3 => 0,
        4..=6 => 1,
        7 => 2,
        _ => 3,
    }];
    let have = db.keys_of(t.name);
    let free: Vec<String> = key_domain(t.name).into_iter().filter(|k| !have.contains(k)).collect();
    let assigns = |rng: &mut Rng, must: bool| -> String {
        let mut a = vec![];
        for ci in t.nk..t.cols.len() {
            if rng.chance(2, 3) {
                a.push(format!("{}={}", t.cols[ci], gen_value(rng, t.ty[ci])));
            }
        }
        if a.is_empty() && must && t.cols.len() > t.nk {
            let ci = t.nk + rng.below((t.cols.len() - t.nk) as u64) as usize;
            a.push(format!("{}={}", t.cols[ci], gen_value(rng, t.ty[ci])));
        }
        if a.is_empty() { "-".into() } else { a.join(",") }
    };
    let roll = rng.below(100);
    if allow_bad && roll < 3 && !have.is_empty() {
        return format!("ins:{}:{}:{}", t.name, rng.pick(&have), assigns(rng, false));
    }
    if have.is_empty() || (roll < 40 && !free.is_empty()) {
        if free.is_empty() {
            return format!("del:{}:{}", t.name, rng.pick(&have));
        }
        return format!("ins:{}:{}:{}", t.name, rng.pick(&free), assigns(rng, false));
    }
    if roll < 70 && t.cols.len() > t.nk {
        return format!("upd:{}:{}:{}", t.name, rng.pick(&have), assigns(rng, true));
    }
    if roll < 88 || free.is_empty() {
        return format!("del:{}:{}", t.name, rng.pick(&have));
    }
    format!("mov:{}:{}:{}", t.name, rng.pick(&have), rng.pick(&free))
}

/// statements of one transaction; in `guards` = [(nullable table, base table, touched column, type)]
/// every write to a nullable-side table is accompanied by an update of every row of the base table
fn gen_tx(rng: &mut Rng, db: &mut MiniDb, guards: &[(&'static str, &'static str)], allow_bad: bool) -> String {
    let n = 1 + rng.below(3) as usize;
    let mut stmts: Vec<String> = vec![];
    let mut trial = db.clone();
    let mut ok = true;
    for _ in 0..n {
        let s = gen_stmt(rng, &trial, allow_bad);
        let st = parse_stmt(&s).expect("generated statement parses");
        if !trial.apply(&st) {
            ok = false;
        }
        stmts.push(s);
        if !ok {
            break;
        }
    }
    if ok {
        // closure of the touch rule
        let mut touched: Vec<String> = stmts.iter().map(|s| s.split(':').nth(1).unwrap().to_string()).collect();
        let mut done: Vec<&str> = vec![];
        loop {
            let need: Vec<&'static str> = guards.iter().filter(|(n, b)| touched.iter().any(|t| t == n) && !done.contains(b)).map(|(_, b)| *b).collect();
            let Some(base) = need.first().copied() else { break };
            done.push(base);
            let (col, ty) = if base == "t" { ("a", 't') } else { ("x", 't') };
            for pk in trial.keys_of(base) {
                let cur = trial.rows[&(base.to_string(), pk.clone())][col].clone();
                let mut v = gen_value(rng, ty);
                while v == cur {
                    v = TXT[rng.below(4) as usize].to_string();
                }
                let s = format!("upd:{base}:{pk}:{col}={v}");
                trial.apply(&parse_stmt(&s).unwrap());
                stmts.push(s);
            }
            touched.push(base.to_string());
        }
        *db = trial;
    }
    stmts.join(";")
}

fn gen_case(rng: &mut Rng, tier: Tier, _index: usize) -> Vec<String> {
    let left_mode = rng.chance(2, 5);
    let all = templates(rng);
    let mut pool: Vec<&(String, bool)> = all.iter().filter(|t| left_mode || !t.1).collect();
    rng.shuffle(&mut pool);
    let nsubs = rng.range(3, 5) as usize;
    let mut chosen: Vec<&(String, bool)> = vec![];
    if left_mode {
        let mut lefts: Vec<&(String, bool)> = all.iter().filter(|t| t.1).collect();
        rng.shuffle(&mut lefts);
        chosen.extend(lefts.into_iter().take(2));
    }
    for t in pool {
        if chosen.len() >= nsubs {
            break;
        }
        if !chosen.iter().any(|c| c.0 == t.0) {
            chosen.push(t);
        }
    }
    // (nullable table, base table) of every LEFT subscription
    let mut guards: Vec<(&'static str, &'static str)> = vec![];
    for (spec, _) in chosen.iter().map(|c| (&c.0, c.1)) {
        let q = parse_query(spec).expect("template parses");
        for n in q.nullable_tables() {
            guards.push((n, q.tables[0].name));
        }
    }
    let mut db = MiniDb::default();
    let mut ops = vec![];
    if rng.chance(1, 2) {
        for _ in 0..rng.range(1, 3) {
            ops.push(format!("w {}", gen_tx(rng, &mut db, &[], false)));
        }
        ops.push("sync".to_string());
    }
    let late = if chosen.len() > 2 && rng.chance(1, 3) { Some(chosen.len() - 1) } else { None };
    let mut live: Vec<usize> = vec![];
    for (i, c) in chosen.iter().enumerate() {
        if Some(i) == late {
            continue;
        }
        ops.push(format!("sub {i} {} {}", c.0, if rng.chance(1, 3) { "alias" } else { "plain" }));
        live.push(i);
    }
    let groups = if tier == Tier::Thorough { rng.range(5, 9) } else { rng.range(4, 7) } as usize;
    let late_at = rng.range(1, 3) as usize;
    for g in 0..groups {
        if let (Some(i), true) = (late, g == late_at) {
            ops.push(format!("sub {i} {} {}", chosen[i].0, if rng.chance(1, 3) { "alias" } else { "plain" }));
            live.push(i);
        }
        let ntx = match rng.below(10) {
            0..=5 => 1,
            6..=8 => 2,
            _ => 3,
        };
        if !left_mode && rng.chance(1, 6) {
            // two peer versions arriving in the wrong order, observed in between
            let a = gen_tx(rng, &mut db, &guards, false);
            let b = gen_tx(rng, &mut db, &guards, false);
            ops.push(format!("ro1 {a}|{b}"));
            ops.push("sync".to_string());
            for i in &live {
                ops.push(format!("rows {i}"));
                ops.push(format!("events {i}"));
            }
            ops.push("ro2".to_string());
            ops.push("sync".to_string());
            for i in &live {
                ops.push(format!("rows {i}"));
                ops.push(format!("events {i}"));
            }
            continue;
        }
        let mut k = 0;
        while k < ntx {
            match rng.below(100) {
                0..=49 => ops.push(format!("w {}", gen_tx(rng, &mut db, &guards, true))),
                50..=72 => ops.push(format!("r {}", gen_tx(rng, &mut db, &guards, true))),
                73..=85 => ops.push(format!("rp {}", gen_tx(rng, &mut db, &guards, false))),
                _ => {
                    let a = gen_tx(rng, &mut db, &guards, false);
                    let b = gen_tx(rng, &mut db, &guards, false);
                    ops.push(format!("rb {a}|{b}"));
                    k += 1;
                }
            }
            k += 1;
        }
        ops.push("sync".to_string());
        for i in &live {
            ops.push(format!("rows {i}"));
            ops.push(format!("events {i}"));
        }
    }
    ops
}
