//! C07 — local transactions on a REAL in-process agent (`klukai_agent::agent::setup`, no background loops:
//! the harness owns `rx_bcast`) through the real `api_v1_transactions` → `make_broadcastable_changes` →
//! `insert_local_changes` → spawned `broadcast_changes`, vs the Lean model `Corro.LocalTx`.
//!
//! Op lines (one case = one fresh agent, site id 0, schema `crkit::VSCHEMA`):
//!   cfg <limit>                 the byte limit of a broadcast chunk; answered with the REAL `MAX_CHANGES_BYTE_SIZE`
//!   tx <stmt>;<stmt>;…          one request; stmt = crkit mini-language (`ins:…`/`upd:…`/`del:…`) or an injected
//!                               failing statement: `bad` (syntax error), `badparam` (placeholder without parameter),
//!                               `missing` (unknown table).  `-` = empty statement list
//!   txt <secs> <stmt>;…         the same with `?timeout=<secs>`; additionally `slow` (a statement that runs for
//!                               minutes unless interrupted)
//!   txbig <n> <base> <len>      one request inserting rows base..base+n-1 into `t` (a = <len> bytes 'a', b = index)
//!   conc <k> <tx>|<tx>|…        k requests issued concurrently (generated row-disjoint, so every serialisation
//!                               yields the same set of results); compared as a set, versions as a block
//!   rv <peer> <stmts>           peer 1..3 (a plain cr-sqlite database, site id = peer) commits a transaction; its complete
//!                               changeset is delivered to the agent through the REAL `process_multiple_changes` (one call).
//!                               Peer version numbers collide with the node's own: versions are per actor
//!   state                       own need/head from `generate_sync`, `crsql_db_version()`, announced versions,
//!                               number of stray broadcast messages, store dump
//!
//! Waiting: the broadcast of an acknowledged version is a spawned task and every chunk is sent from its own
//! spawned task, so chunks may arrive in any order.  After an acknowledged request the harness receives from
//! `rx_bcast` until the chunks received for that version tile `0..=last_seq` (deadline 25 s); once the final
//! chunk is there and the tiling is still incomplete it gives up after 400 ms of silence (only a defective
//! broadcast gets there).  Nothing is ever awaited for failed / no-op requests: a message they caused shows up
//! while a later acknowledged request (the generator ends every case with one) is drained, or in the short grace
//! period of `state`, and is reported as a stray.
//!
//! After a remote version (`rv`): own `crsql_db_version()`, own head and own need unchanged, nothing announced.
//! Oracle (on the real trace only, independent of the model): failed ⇒ store digest, `crsql_db_version()` and
//! own head/need unchanged, response carries no version; no-op ⇒ the same; acknowledged ⇒ version = previous + 1
//! = `crsql_db_version()` afterwards, the version's chunks tile `0..=last_seq` exactly once, `last_seq` = highest
//! seq of the version, the concatenated chunk changes equal `crsql_changes` of (own site, version) by seq, each
//! change inside its chunk's range and attributed to the own site and that version; own need always empty and
//! own head = current version; no message for anything that was not acknowledged.
use std::collections::{BTreeMap, BTreeSet};
use std::path::PathBuf;
use std::time::{Duration, Instant};

use axum::Extension;
use klukai_agent::agent::{AgentOptions, setup};
use klukai_agent::api::public::{TimeoutParams, api_v1_db_schema, api_v1_transactions};
use klukai_types::actor::ActorId;
use klukai_types::agent::{Agent, Bookie};
use klukai_types::api::{ExecResult, SqliteParam, Statement};
use klukai_agent::agent::util::process_multiple_changes;
use klukai_types::base::{CrsqlDbVersion, CrsqlSeq};
use klukai_types::broadcast::{BroadcastInput, BroadcastV1, ChangeSource, ChangeV1, Changeset, Timestamp};
use klukai_types::change::row_to_change;
use klukai_types::change::{Change, MAX_CHANGES_BYTE_SIZE};
use klukai_types::config::Config;
use klukai_types::sqlite::CrConn;
use klukai_types::sync::generate_sync;
use klukai_types::tripwire::Tripwire;

use crate::cluster::{gen_stmt, stmt_literal};
use crate::crkit::*;
use crate::rng::Rng;
use crate::runner::{CaseResult, Prop, Tier};
use crate::util::{fnv, show_list, show_nats, show_ranges};

pub struct C07;

const BCAST_DEADLINE: Duration = Duration::from_secs(25);
const BROKEN_DEADLINE: Duration = Duration::from_secs(2);
const QUIET: Duration = Duration::from_millis(400);
const GRACE: Duration = Duration::from_millis(150);
const API_DEADLINE: Duration = Duration::from_secs(120);

const SQL_BAD: &str = "INSRT INTO t (id) VALUES (1)";
const SQL_BADPARAM: &str = "INSERT INTO k (id) VALUES (?)";
const SQL_MISSING: &str = "INSERT INTO nosuch (id) VALUES (1)";
const SQL_SLOW: &str = "INSERT INTO k (id) SELECT 900000 + (count(*) % 7) FROM (WITH RECURSIVE c(x) AS (SELECT 1 UNION ALL SELECT x + 1 FROM c WHERE x < 60000000000) SELECT x FROM c)";

type TripParts = (Tripwire, klukai_types::tripwire::TripwireWorker<tokio_stream::wrappers::ReceiverStream<()>>, tokio::sync::mpsc::Sender<()>);

struct Msg {
    lo: u64,
    hi: u64,
    last: u64,
    changes: Vec<Change>,
}

struct World {
    _dir: TmpDir,
    db_path: PathBuf,
    agent: Agent,
    bookie: Bookie,
    opts: AgentOptions,
    _tw: TripParts,
    /// every `Changeset::Full` of the own actor received so far, by version
    got: BTreeMap<u64, Vec<Msg>>,
    /// anything else that came out of `rx_bcast`
    other: Vec<String>,
    acked: BTreeSet<u64>,
    strays_reported: BTreeSet<u64>,
    fails: Vec<String>,
    /// one entry per request / event (counted into the input distribution)
    tags: Vec<String>,
    broken: bool,
    nontrivial: bool,
    /// plain cr-sqlite databases of other actors (site id = index)
    peers: BTreeMap<usize, CrConn>,
}

struct Snap {
    dbv: i64,
    digest: String,
    head: u64,
    need: Vec<(u64, u64)>,
}

enum Outcome {
    Ack(u64),
    Noop,
    Err(String),
}

fn clip(s: String) -> String {
    if s.len() > 3000 { format!("fnv:{:016x}:{}", fnv(&s), s.len()) } else { s }
}

fn show_runs(xs: &[u64]) -> String {
    let mut runs: Vec<(u64, u64)> = vec![];
    for &x in xs {
        match runs.last_mut() {
            Some((_, b)) if x == *b + 1 => *b = x,
            _ => runs.push((x, x)),
        }
    }
    let items: Vec<String> = runs.iter().map(|(a, b)| if a == b { a.to_string() } else { format!("{a}-{b}") }).collect();
    show_list(&items, ",")
}

fn show_change(c: &Change, mask_version: bool) -> String {
    let dbv = if mask_version { "*".to_string() } else { c.db_version.0.to_string() };
    format!(
        "{}/{}/{}={}@{}.{}.{}.{}.{}",
        c.table.0,
        show_pk(&c.pk),
        c.cid.0,
        show_val(&c.val),
        c.col_version,
        c.cl,
        site_index(&c.site_id),
        dbv,
        c.seq.0
    )
}

fn mask(c: &Chg) -> String {
    format!("{}/{}/{}={}@{}.{}.{}.*.{}", c.table, c.pk, c.cid, c.val, c.colv, c.cl, c.site, c.seq)
}

/// `crkit::dump_db` text with the version of every clock entry masked (which concurrent request got which
/// version is up to the scheduler; the versions themselves are compared on every `tx`)
fn mask_dump(d: &str) -> String {
    let (chs, rows) = d.split_once(" | ").unwrap_or((d, ""));
    if chs == "-" {
        return d.to_string();
    }
    let ents: Vec<String> = chs
        .split(';')
        .map(|e| {
            let (kv, clock) = e.rsplit_once('@').unwrap_or((e, ""));
            let mut f: Vec<&str> = clock.split('.').collect();
            if f.len() == 5 {
                f[3] = "*";
            }
            format!("{kv}@{}", f.join("."))
        })
        .collect();
    format!("{} | {rows}", ents.join(";"))
}

fn to_param(v: &rusqlite::types::Value) -> SqliteParam {
    match v {
        rusqlite::types::Value::Null => SqliteParam::Null,
        rusqlite::types::Value::Integer(i) => SqliteParam::Integer(*i),
        rusqlite::types::Value::Real(r) => SqliteParam::Real(*r),
        rusqlite::types::Value::Text(t) => SqliteParam::Text(t.as_str().into()),
        rusqlite::types::Value::Blob(b) => SqliteParam::Blob(b.as_slice().into()),
    }
}

/// one statement token → the real API statement (`None` = not a statement of the op language)
fn build_stmt(tok: &str, allow_slow: bool) -> Option<Statement> {
    match tok {
        "bad" => Some(Statement::Simple(SQL_BAD.into())),
        "badparam" => Some(Statement::WithParams(SQL_BADPARAM.into(), vec![])),
        "missing" => Some(Statement::Simple(SQL_MISSING.into())),
        "slow" => allow_slow.then(|| Statement::Simple(SQL_SLOW.into())),
        _ => {
            // both parameter styles of the API, chosen by the token itself (deterministic)
            if fnv(tok) % 2 == 0 {
                let (sql, ps) = stmt_sql(tok)?;
                Some(Statement::WithParams(sql, ps.iter().map(to_param).collect()))
            } else {
                Some(Statement::Simple(stmt_literal(tok)?))
            }
        }
    }
}

fn build_req(stmts: &str, allow_slow: bool) -> Option<Vec<Statement>> {
    if stmts == "-" {
        return Some(vec![]);
    }
    stmts.split(';').map(|s| build_stmt(s, allow_slow)).collect()
}

/// position of the first injected failing statement, if any
fn injected_at(stmts: &str) -> Option<usize> {
    stmts.split(';').position(|s| matches!(s, "bad" | "badparam" | "missing" | "slow"))
}

fn classify_error(status: u16, msg: &str) -> String {
    let m = msg.to_lowercase();
    let (kind, want) = if m.contains("at least 1 statement") {
        ("empty".to_string(), 400)
    } else if m.contains("unique constraint") || m.contains("constraint failed") {
        ("constraint".to_string(), 500)
    } else if m.contains("syntax error") {
        ("syntax".to_string(), 500)
    } else if m.contains("wrong number of parameters") {
        ("params".to_string(), 500)
    } else if m.contains("no such table") {
        ("no-table".to_string(), 500)
    } else if m.contains("interrupt") {
        ("timeout".to_string(), 500)
    } else {
        let s: String = m.chars().filter(|c| c.is_ascii_alphanumeric() || *c == ' ').take(60).collect();
        (format!("other:{}", s.replace(' ', "-")), 500)
    };
    if status == want { format!("err {kind}") } else { format!("err {kind} status={status}") }
}

impl World {
    async fn new() -> Result<World, String> {
        let dir = TmpDir::new("c07");
        let db_path = dir.path().join("corrosion.db");
        precreate_db(&db_path, site_id(0)).map_err(|e| format!("precreate: {e}"))?;
        let (tripwire, worker, tx) = Tripwire::new_simple();
        let conf = Config::builder()
            .db_path(db_path.display().to_string())
            .gossip_addr("127.0.0.1:0".parse().unwrap())
            .api_addr("127.0.0.1:0".parse().unwrap())
            .build()
            .map_err(|e| format!("config: {e}"))?;
        let (agent, opts) = setup(conf, tripwire.clone()).await.map_err(|e| format!("setup: {e:#}"))?;
        if agent.actor_id() != ActorId::from_bytes(site_id(0)) {
            return Err("agent did not keep the pre-created site id".into());
        }
        let (status, body) = api_v1_db_schema(Extension(agent.clone()), axum::Json(vec![VSCHEMA.to_string()])).await;
        if !status.is_success() {
            return Err(format!("schema: {:?}", body.0.results));
        }
        let bookie = Bookie::new_with_registry(Default::default(), opts.lock_registry.clone());
        {
            let mut w = bookie.write::<&str, _>("init", None).await;
            w.insert(agent.actor_id(), agent.booked().clone());
        }
        Ok(World {
            _dir: dir,
            db_path,
            agent,
            bookie,
            opts,
            _tw: (tripwire, worker, tx),
            got: BTreeMap::new(),
            other: vec![],
            acked: BTreeSet::new(),
            strays_reported: BTreeSet::new(),
            fails: vec![],
            tags: vec![],
            broken: false,
            nontrivial: false,
            peers: BTreeMap::new(),
        })
    }

    fn read_conn(&self) -> Result<CrConn, String> {
        CrConn::init(rusqlite::Connection::open(&self.db_path).map_err(|e| e.to_string())?).map_err(|e| e.to_string())
    }

    fn fail(&mut self, what: String) {
        if self.fails.len() < 20 {
            self.fails.push(what);
        }
    }

    async fn snap(&self) -> Result<Snap, String> {
        let conn = self.read_conn()?;
        let dbv: i64 = conn.query_row("SELECT crsql_db_version()", [], |r| r.get(0)).map_err(|e| e.to_string())?;
        let digest = dump_db(&conn).map_err(|e| e.to_string())?;
        let st = generate_sync(&self.bookie, self.agent.actor_id()).await;
        let me = self.agent.actor_id();
        let head = st.heads.get(&me).map(|v| v.0).unwrap_or(0);
        let mut need: Vec<(u64, u64)> = st.need.get(&me).map(|rs| rs.iter().map(|r| (r.start().0, r.end().0)).collect()).unwrap_or_default();
        need.sort();
        if st.partial_need.get(&me).map(|m| !m.is_empty()).unwrap_or(false) {
            need.push((u64::MAX, u64::MAX)); // a partial need for the own actor is a need as well
        }
        Ok(Snap { dbv, digest, head, need })
    }

    fn take(&mut self, m: BroadcastInput) {
        match m {
            BroadcastInput::AddBroadcast(BroadcastV1::Change(ChangeV1 { actor_id, changeset: Changeset::Full { version, changes, seqs, last_seq, .. } }))
                if actor_id == self.agent.actor_id() =>
            {
                self.got.entry(version.0).or_default().push(Msg { lo: seqs.start().0, hi: seqs.end().0, last: last_seq.0, changes });
            }
            BroadcastInput::AddBroadcast(BroadcastV1::Change(c)) => {
                self.other.push(format!("foreign-or-empty changeset of actor {}", site_index(c.actor_id.0.as_bytes())))
            }
            BroadcastInput::Rebroadcast(_) => self.other.push("rebroadcast".into()),
        }
    }

    fn sweep(&mut self) {
        while let Ok(m) = self.opts.rx_bcast.try_recv() {
            self.take(m);
        }
    }

    fn sorted_ranges(&self, v: u64) -> Vec<(u64, u64, u64)> {
        let mut r: Vec<(u64, u64, u64)> = self.got.get(&v).map(|ms| ms.iter().map(|m| (m.lo, m.hi, m.last)).collect()).unwrap_or_default();
        r.sort();
        r
    }

    /// the chunks received for `v` cover `0..=last_seq` exactly once
    fn tiled(&self, v: u64) -> bool {
        let r = self.sorted_ranges(v);
        let Some(first) = r.first() else { return false };
        let last = first.2;
        if first.0 != 0 || r.iter().any(|x| x.2 != last || x.0 > x.1) {
            return false;
        }
        r.windows(2).all(|w| w[1].0 == w[0].1 + 1) && r.last().unwrap().1 == last
    }

    fn has_final(&self, v: u64) -> bool {
        self.got.get(&v).map(|ms| ms.iter().any(|m| m.hi == m.last)).unwrap_or(false)
    }

    /// receive until every version of `vs` is tiled (see the module comment for the give-up rule)
    async fn wait_tiled(&mut self, vs: &[u64]) {
        let deadline = tokio::time::Instant::now() + if self.broken { BROKEN_DEADLINE } else { BCAST_DEADLINE };
        let mut last_arrival = tokio::time::Instant::now();
        loop {
            if vs.iter().all(|v| self.tiled(*v)) {
                break;
            }
            let all_final = vs.iter().all(|v| self.has_final(*v));
            let until = if all_final { deadline.min(last_arrival + QUIET) } else { deadline };
            match tokio::time::timeout_at(until, self.opts.rx_bcast.recv()).await {
                Ok(Some(m)) => {
                    self.take(m);
                    last_arrival = tokio::time::Instant::now();
                }
                Ok(None) => break,
                Err(_) => {
                    if !all_final {
                        self.broken = true;
                    }
                    break;
                }
            }
        }
        self.sweep();
    }

    /// the property's clauses about one acknowledged version, on what was really received and stored
    fn check_version(&mut self, v: u64, rows: &[Chg]) {
        let me = site_id(0);
        let mut msgs: Vec<&Msg> = self.got.get(&v).map(|m| m.iter().collect()).unwrap_or_default();
        msgs.sort_by_key(|m| (m.lo, m.hi));
        let mut fails = vec![];
        if msgs.is_empty() {
            fails.push(format!("acknowledged version {v} was never announced"));
        } else {
            let last = msgs[0].last;
            let row_last = rows.iter().map(|c| c.seq as u64).max();
            if msgs.iter().any(|m| m.last != last) {
                fails.push(format!("chunks of version {v} disagree on last_seq"));
            }
            if row_last != Some(last) {
                fails.push(format!("version {v} announced with last_seq {last} but the highest seq of its changes is {row_last:?}"));
            }
            if msgs[0].lo != 0 {
                fails.push(format!("chunks of version {v} start at seq {} instead of 0", msgs[0].lo));
            }
            if msgs.last().unwrap().hi != last {
                fails.push(format!("chunks of version {v} end at seq {} instead of last_seq {last}", msgs.last().unwrap().hi));
            }
            for w in msgs.windows(2) {
                if w[1].lo != w[0].hi + 1 {
                    fails.push(format!("chunks of version {v} do not tile: {}-{} then {}-{}", w[0].lo, w[0].hi, w[1].lo, w[1].hi));
                }
            }
            let mut flat: Vec<String> = vec![];
            for m in &msgs {
                if m.lo > m.hi {
                    fails.push(format!("inverted chunk {}-{} of version {v}", m.lo, m.hi));
                }
                for c in &m.changes {
                    if c.seq.0 < m.lo || c.seq.0 > m.hi {
                        fails.push(format!("change seq {} of version {v} outside its chunk {}-{}", c.seq.0, m.lo, m.hi));
                    }
                    if c.site_id != me || c.db_version.0 != v {
                        fails.push(format!("announced change of version {v} attributed to site {} version {}", site_index(&c.site_id), c.db_version.0));
                    }
                    flat.push(show_change(c, false));
                }
            }
            let want: Vec<String> = rows.iter().map(|c| c.show()).collect();
            if flat != want {
                fails.push(format!("announced changes of version {v} differ from crsql_changes of that version ({} announced, {} stored)", flat.len(), want.len()));
            }
        }
        for c in rows {
            if c.site_raw != me.to_vec() || c.dbv as u64 != v {
                fails.push(format!("stored change of version {v} attributed to site {} version {}", c.site, c.dbv));
            }
        }
        if msgs.len() >= 2 {
            self.nontrivial = true;
            self.tags.push("multi-chunk".into());
        }
        self.tags.push(format!("chunks:{}", match msgs.len() { 0 => "0", 1 => "1", 2..=5 => "2-5", 6..=20 => "6-20", _ => "21+" }));
        self.tags.push(format!("changes:{}", match rows.len() { 0 => "0", 1..=9 => "1-9", 10..=99 => "10-99", 100..=999 => "100-999", _ => "1000+" }));
        if rows.windows(2).any(|w| w[1].seq > w[0].seq + 1) || rows.first().map(|c| c.seq > 0).unwrap_or(false) {
            self.tags.push("seq-holes".into());
        }
        for f in fails {
            self.fail(f);
        }
    }

    fn check_book(&mut self, s: &Snap, when: &str) {
        if !s.need.is_empty() {
            self.fail(format!("own versions listed as needed {when}: {}", show_ranges(&s.need)));
        }
        if s.head != s.dbv as u64 {
            self.fail(format!("own head {} differs from crsql_db_version {} {when}", s.head, s.dbv));
        }
    }

    fn version_rows(&self, v: u64) -> Result<Vec<Chg>, String> {
        let conn = self.read_conn()?;
        let site = site_id(0).to_vec();
        let ver = v as i64;
        let mut rows = read_changes(&conn, "WHERE site_id = ? AND db_version = ? ORDER BY seq", &[&site, &ver]).map_err(|e| e.to_string())?;
        rows.sort_by_key(|c| c.seq);
        Ok(rows)
    }

    fn show_bc(&self, v: u64) -> String {
        let mut msgs: Vec<&Msg> = self.got.get(&v).map(|m| m.iter().collect()).unwrap_or_default();
        msgs.sort_by_key(|m| (m.lo, m.hi));
        let items: Vec<String> = msgs
            .iter()
            .map(|m| format!("{}-{}/{}:{}", m.lo, m.hi, m.last, show_runs(&m.changes.iter().map(|c| c.seq.0).collect::<Vec<_>>())))
            .collect();
        clip(show_list(&items, ";"))
    }

    async fn call(agent: Agent, timeout: Option<u64>, body: Vec<Statement>) -> Result<Outcome, String> {
        let fut = api_v1_transactions(Extension(agent), axum::extract::Query(TimeoutParams { timeout }), axum::extract::Json(body));
        let (status, resp) = tokio::time::timeout(API_DEADLINE, fut).await.map_err(|_| "api call did not return".to_string())?;
        let resp = resp.0;
        if !status.is_success() {
            let msg = resp.results.iter().find_map(|r| if let ExecResult::Error { error } = r { Some(error.clone()) } else { None }).unwrap_or_default();
            let mut out = classify_error(status.as_u16(), &msg);
            if let Some(v) = resp.version {
                out.push_str(&format!(" version={v}"));
            }
            return Ok(Outcome::Err(out));
        }
        Ok(match resp.version {
            Some(v) => Outcome::Ack(v),
            None => Outcome::Noop,
        })
    }

    /// one sequential request
    async fn op_tx(&mut self, timeout: Option<u64>, body: Vec<Statement>, fail_pos: Option<usize>) -> Result<String, String> {
        self.sweep();
        let before = self.snap().await?;
        let out = Self::call(self.agent.clone(), timeout, body).await?;
        match out {
            Outcome::Ack(v) => {
                self.acked.insert(v);
                self.wait_tiled(&[v]).await;
                let rows = self.version_rows(v)?;
                let after = self.snap().await?;
                if v as i64 != before.dbv + 1 {
                    self.fail(format!("acknowledged version {v} is not previous version {} + 1", before.dbv));
                }
                if after.dbv != v as i64 {
                    self.fail(format!("crsql_db_version is {} after version {v} was acknowledged", after.dbv));
                }
                self.check_version(v, &rows);
                self.check_book(&after, "after an acknowledged request");
                self.tags.push("ack".into());
                let ch: Vec<String> = rows.iter().map(|c| c.show()).collect();
                Ok(format!("ok v={v} bc={} ch={}", self.show_bc(v), clip(show_list(&ch, ";"))))
            }
            Outcome::Noop | Outcome::Err(_) => {
                let what = if matches!(out, Outcome::Noop) { "no-op" } else { "failed" };
                let after = self.snap().await?;
                if after.dbv != before.dbv {
                    self.fail(format!("a {what} request consumed a version: crsql_db_version {} -> {}", before.dbv, after.dbv));
                }
                if after.digest != before.digest {
                    self.fail(format!("a {what} request changed rows or crsql_changes"));
                }
                if after.head != before.head || after.need != before.need {
                    self.fail(format!("a {what} request changed the own bookkeeping: head {} -> {}", before.head, after.head));
                }
                self.check_book(&after, &format!("after a {what} request"));
                self.sweep();
                match out {
                    Outcome::Noop => {
                        self.tags.push("noop".into());
                        Ok("ok none".into())
                    }
                    Outcome::Err(e) => {
                        if e.contains("version=") {
                            self.fail(format!("error response carries a version: {e}"));
                        }
                        self.tags.push(e.replace(' ', ":"));
                        if let Some(p) = fail_pos {
                            self.tags.push(format!("inject-pos:{}", p.min(3)));
                            if p > 0 {
                                self.nontrivial = true;
                            }
                        } else if e.contains("constraint") {
                            self.nontrivial = true;
                        }
                        Ok(e)
                    }
                    Outcome::Ack(_) => unreachable!(),
                }
            }
        }
    }

    async fn op_conc(&mut self, bodies: Vec<Vec<Statement>>) -> Result<String, String> {
        self.sweep();
        let before = self.snap().await?;
        let handles: Vec<_> = bodies
            .into_iter()
            .map(|b| {
                let agent = self.agent.clone();
                tokio::spawn(async move { Self::call(agent, None, b).await })
            })
            .collect();
        let mut outs = vec![];
        for h in handles {
            outs.push(h.await.map_err(|e| format!("join: {e}"))??);
        }
        let mut vs: Vec<u64> = outs.iter().filter_map(|o| if let Outcome::Ack(v) = o { Some(*v) } else { None }).collect();
        for v in &vs {
            self.acked.insert(*v);
        }
        self.wait_tiled(&vs).await;
        let after = self.snap().await?;
        let mut results = vec![];
        for o in &outs {
            match o {
                Outcome::Ack(v) => {
                    let rows = self.version_rows(*v)?;
                    self.check_version(*v, &rows);
                    // same text as the sequential answer but without the version numbers
                    let mut msgs: Vec<&Msg> = self.got.get(v).map(|m| m.iter().collect()).unwrap_or_default();
                    msgs.sort_by_key(|m| (m.lo, m.hi));
                    let ch: Vec<String> = rows.iter().map(mask).collect();
                    results.push(format!("ok bc={} ch={}", self.show_bc(*v), clip(show_list(&ch, ";"))));
                }
                Outcome::Noop => results.push("ok none".into()),
                Outcome::Err(e) => {
                    if e.contains("version=") {
                        self.fail(format!("error response carries a version: {e}"));
                    }
                    results.push(e.clone())
                }
            }
        }
        results.sort();
        vs.sort();
        let k = vs.len() as u64;
        let want: Vec<u64> = (0..k).map(|i| before.dbv as u64 + 1 + i).collect();
        if vs != want {
            self.fail(format!("concurrent requests were acknowledged with versions {vs:?}, expected the block {want:?}"));
        }
        if after.dbv as u64 != before.dbv as u64 + k {
            self.fail(format!("crsql_db_version is {} after {k} acknowledged concurrent requests on top of {}", after.dbv, before.dbv));
        }
        self.check_book(&after, "after concurrent requests");
        self.nontrivial = true;
        self.tags.push(format!("conc-acks:{}", k.min(5)));
        let block = if k == 0 { "-".to_string() } else { format!("{}-{}", before.dbv + 1, before.dbv as u64 + k) };
        Ok(format!("acks={k} block={block} results={}", results.join(" & ")))
    }

    /// strays: messages for versions nobody acknowledged, or anything that is not a change of the own actor
    fn strays(&mut self) -> usize {
        let stray_versions: Vec<u64> = self.got.keys().filter(|v| !self.acked.contains(v)).copied().collect();
        for v in &stray_versions {
            if self.strays_reported.insert(*v) {
                let n = self.got[v].len();
                self.fail(format!("{n} change message(s) announced for version {v}, which was never acknowledged"));
            }
        }
        let others = std::mem::take(&mut self.other);
        for o in &others {
            self.fail(format!("unexpected message on the broadcast queue: {o}"));
        }
        stray_versions.len() + others.len()
    }

    async fn op_state(&mut self) -> Result<String, String> {
        // grace period: whatever a failed / no-op request wrongly spawned has had every later acknowledged
        // request's drain to show up; give it one more short window
        loop {
            match tokio::time::timeout(GRACE, self.opts.rx_bcast.recv()).await {
                Ok(Some(m)) => self.take(m),
                _ => break,
            }
        }
        // late duplicates of acknowledged versions
        let dup: Vec<u64> = self.acked.iter().filter(|v| self.got.contains_key(v) && !self.tiled(**v)).copied().collect();
        for v in dup {
            if self.strays_reported.insert(v) {
                let r = self.sorted_ranges(v);
                self.fail(format!("messages of acknowledged version {v} do not tile once: {r:?}"));
            }
        }
        let stray = self.strays();
        let s = self.snap().await?;
        self.check_book(&s, "at `state`");
        let announced: Vec<u64> = self.got.keys().copied().collect();
        Ok(format!(
            "need={} head={} dbv={} announced={} stray={} dump={}",
            show_ranges(&s.need),
            s.head,
            s.dbv,
            show_nats(&announced),
            stray,
            clip(mask_dump(&s.digest))
        ))
    }

    /// a peer commits a transaction; its complete changeset goes through the real ingest path
    async fn op_rv(&mut self, peer: usize, stmts: &str) -> Result<String, String> {
        let parsed: Option<Vec<(String, Vec<rusqlite::types::Value>)>> = stmts.split(';').map(stmt_sql).collect();
        let Some(parsed) = parsed else { return Ok("bad-op".into()) };
        self.sweep();
        let before = self.snap().await?;
        if !self.peers.contains_key(&peer) {
            let c = open_plain_db(self._dir.path(), peer).map_err(|e| format!("peer db: {e}"))?;
            self.peers.insert(peer, c);
        }
        let conn = self.peers.get_mut(&peer).unwrap();
        let v0: i64 = conn.query_row("SELECT crsql_db_version()", [], |r| r.get(0)).map_err(|e| e.to_string())?;
        let res: rusqlite::Result<()> = (|| {
            let tx = conn.transaction()?;
            for (sql, ps) in &parsed {
                tx.execute(sql, rusqlite::params_from_iter(ps.iter()))?;
            }
            tx.commit()
        })();
        match res {
            Err(e) if e.sqlite_error_code() == Some(rusqlite::ErrorCode::ConstraintViolation) => return Ok("err constraint".into()),
            Err(e) => return Err(format!("peer write: {e}")),
            Ok(()) => {}
        }
        let v1: i64 = conn.query_row("SELECT crsql_db_version()", [], |r| r.get(0)).map_err(|e| e.to_string())?;
        if v1 == v0 {
            return Ok("noop".into());
        }
        let site = site_id(peer).to_vec();
        let changes: Vec<Change> = conn
            .prepare(r#"SELECT "table", pk, cid, val, col_version, db_version, seq, site_id, cl FROM crsql_changes WHERE db_version = ? AND site_id = ? ORDER BY seq ASC"#)
            .and_then(|mut st| st.query_map(rusqlite::params![v1, site], row_to_change)?.collect::<rusqlite::Result<Vec<_>>>())
            .map_err(|e| format!("peer changes: {e}"))?;
        let last_seq = changes.iter().map(|c| c.seq).max().unwrap_or(CrsqlSeq(0));
        let shown: Vec<String> = changes.iter().map(|c| show_change(c, false)).collect();
        let n = changes.len();
        let batch = vec![(
            ChangeV1 {
                actor_id: ActorId::from_bytes(site_id(peer)),
                changeset: Changeset::Full {
                    version: CrsqlDbVersion(v1 as u64),
                    changes,
                    seqs: CrsqlSeq(0)..=last_seq,
                    last_seq,
                    ts: Timestamp::from(self.agent.clock().new_timestamp()),
                },
            },
            ChangeSource::Broadcast,
            Instant::now(),
        )];
        process_multiple_changes(self.agent.clone(), self.bookie.clone(), batch, Duration::from_secs(60))
            .await
            .map_err(|e| format!("process_multiple_changes: {e}"))?;
        let after = self.snap().await?;
        // a remote version is not the node's own: own counter, own head and own need stay, nothing is announced
        if after.dbv != before.dbv {
            self.fail(format!("ingesting a remote version moved the node's own crsql_db_version {} -> {}", before.dbv, after.dbv));
        }
        if after.head != before.head || after.need != before.need {
            self.fail(format!("ingesting a remote version changed the own bookkeeping: head {} -> {}", before.head, after.head));
        }
        self.check_book(&after, "after a remote version was ingested");
        self.sweep();
        self.tags.push(format!("remote:{}", if v1 as i64 > after.dbv { "ahead" } else if v1 as i64 == after.dbv { "level" } else { "behind" }));
        if v1 == after.dbv + 1 {
            self.tags.push("remote:collides-with-next-own".into());
            self.nontrivial = true;
        }
        Ok(format!("ok p={peer} v={v1} n={n} last={} dbv={} ch={}", last_seq.0, after.dbv, clip(show_list(&shown, ";"))))
    }

    async fn exec(&mut self, toks: &[&str]) -> Result<String, String> {
        match toks {
            ["cfg", l] => {
                if l.parse::<u64>().is_err() {
                    return Ok("bad-op".into());
                }
                Ok(format!("limit={MAX_CHANGES_BYTE_SIZE}"))
            }
            ["tx", stmts] => match build_req(stmts, false) {
                Some(body) => self.op_tx(None, body, injected_at(stmts)).await,
                None => Ok("bad-op".into()),
            },
            ["txt", secs, stmts] => {
                let Ok(secs) = secs.parse::<u64>() else { return Ok("bad-op".into()) };
                if secs == 0 {
                    return Ok("bad-op".into());
                }
                match build_req(stmts, true) {
                    Some(body) => {
                        self.tags.push("with-timeout".into());
                        self.op_tx(Some(secs), body, injected_at(stmts)).await
                    }
                    None => Ok("bad-op".into()),
                }
            }
            ["txbig", n, base, len] => {
                let (Ok(n), Ok(base), Ok(len)) = (n.parse::<u64>(), base.parse::<u64>(), len.parse::<usize>()) else { return Ok("bad-op".into()) };
                if n == 0 || n > 4000 || len > 2000 {
                    return Ok("bad-op".into());
                }
                let a = "a".repeat(len);
                let body: Vec<Statement> = (0..n)
                    .map(|j| {
                        Statement::WithParams(
                            "INSERT INTO t (id, a, b) VALUES (?, ?, ?)".into(),
                            vec![SqliteParam::Integer((base + j) as i64), SqliteParam::Text(a.as_str().into()), SqliteParam::Integer(j as i64)],
                        )
                    })
                    .collect();
                self.tags.push(format!("big:{}", if n >= 1000 { "1000+" } else if n >= 100 { "100+" } else { "<100" }));
                self.op_tx(None, body, None).await
            }
            ["conc", k, txs] => {
                let Ok(k) = k.parse::<usize>() else { return Ok("bad-op".into()) };
                let bodies: Option<Vec<Vec<Statement>>> = txs.split('|').map(|t| build_req(t, false)).collect();
                match bodies {
                    Some(b) if b.len() == k && k > 0 => self.op_conc(b).await,
                    _ => Ok("bad-op".into()),
                }
            }
            ["rv", peer, stmts] => {
                let Ok(peer) = peer.parse::<usize>() else { return Ok("bad-op".into()) };
                if !(1..=3).contains(&peer) {
                    return Ok("bad-op".into());
                }
                self.op_rv(peer, stmts).await
            }
            ["state"] => self.op_state().await,
            _ => Ok("bad-op".into()),
        }
    }
}

// ------------------------------------------------------------------------------------------------ generator

fn marker(i: u64) -> String {
    format!("tx ins:k:i{}", 7000 + i)
}

/// a request of `n` mini-language statements with `inj` put at position `pos`
fn with_injection(rng: &mut Rng, n: usize, pos: usize, inj: &str) -> String {
    let mut st: Vec<String> = (0..n).map(|_| gen_stmt(rng)).collect();
    st.insert(pos.min(n), inj.to_string());
    st.join(";")
}

fn gen_noop(rng: &mut Rng) -> String {
    match rng.below(3) {
        0 => format!("upd:t:i{}:a=t61", 50 + rng.range(0, 5)),
        1 => format!("del:k:i{}", 50 + rng.range(0, 5)),
        _ => format!("del:u:i{}+t7a", 50 + rng.range(0, 5)),
    }
}

/// a transaction of a remote actor: mostly several cell changes (more than the node's next own write has)
fn gen_rv(rng: &mut Rng) -> String {
    let peer = rng.range(1, 3);
    let st: Vec<String> = match rng.below(4) {
        0 => (0..rng.range(1, 2)).map(|_| gen_stmt(rng)).collect(),
        _ => (0..rng.range(2, 4))
            .map(|_| {
                let key = 300 + 10 * peer + rng.range(0, 6);
                match rng.below(5) {
                    0 => format!("upd:t:i{key}:a=t{:02x},b=i{}", rng.range(0x61, 0x63), rng.range(0, 2)),
                    1 => format!("del:t:i{key}"),
                    _ => format!("ins:t:i{key}:a=t{:02x},b=i{}", rng.range(0x61, 0x63), rng.range(0, 2)),
                }
            })
            .collect(),
    };
    format!("rv {peer} {}", st.join(";"))
}

/// a row-disjoint request for slot `slot` of a concurrent op (keys 100*(slot+1)+j)
fn gen_slot_tx(rng: &mut Rng, slot: u64) -> String {
    let n = rng.range(1, 3);
    let mut st = vec![];
    for _ in 0..n {
        let key = 100 * (slot + 1) + rng.range(0, 2);
        st.push(match rng.below(6) {
            0 => format!("ins:k:i{key}"),
            1 => format!("del:t:i{key}"),
            2 => format!("upd:t:i{key}:a=t{:02x}", rng.range(0x61, 0x63)),
            3 => format!("upd:t:i{key}:b=i{}", rng.range(0, 2)),
            _ => format!("ins:t:i{key}:a=t{:02x},b=i{}", rng.range(0x61, 0x63), rng.range(0, 2)),
        });
    }
    if rng.chance(1, 5) {
        let pos = rng.below(st.len() as u64 + 1) as usize;
        st.insert(pos, (*rng.pick(&["bad", "badparam", "missing"])).to_string());
    }
    st.join(";")
}

impl Prop for C07 {
    fn id(&self) -> &'static str {
        "C07"
    }
    fn rule(&self) -> &'static str {
        "one case = one fresh real agent and a sequence of write requests (tx/txt/txbig/conc) ending with an acknowledged marker \
         request and `state`; non-trivial iff a request failed after an earlier statement of the same request had executed \
         (or by a constraint violation), or a version was announced in >= 2 chunks, or requests ran concurrently, or a remote actor's version \
         carried the number of the node's next own version; distinct by hash of the op list"
    }
    fn default_cases(&self, tier: Tier) -> usize {
        match tier {
            Tier::Quick => 22,
            Tier::Thorough => 400,
        }
    }
    fn enumerated_case(&self, _tier: Tier, index: usize) -> Option<Vec<String>> {
        // every failure kind at the first / middle / last position of a request that also does real work
        let kinds = ["bad", "badparam", "missing", "ins:t:i1", "slow"];
        let n = kinds.len() * 3;
        if index >= n + 4 {
            return None;
        }
        let cfg = format!("cfg {MAX_CHANGES_BYTE_SIZE}");
        if index == n {
            // requests that change nothing, between requests that do
            return Some(vec![
                cfg,
                "tx ins:t:i1:a=t61,b=i1".into(),
                "tx upd:t:i1:a=t61".into(),
                "tx del:t:i9;upd:u:i1+t61:x=t62".into(),
                "tx -".into(),
                "tx upd:t:i1:a=t62;upd:t:i1:a=t61".into(),
                marker(0),
                "state".into(),
            ]);
        }
        if index == n + 1 {
            // a transaction of several chunks whose last statement fails, then the same rows for real
            return Some(vec![cfg, "tx ins:t:i1299:a=t61".into(), "txbig 300 1000 40".into(), "state".into(), "txbig 299 1000 40".into(), marker(0), "state".into()]);
        }
        if index == n + 3 {
            // remote versions level with the node's own counter, each with more changes than the node's next write;
            // no-op, failing and real local requests in between
            return Some(vec![
                cfg,
                "rv 1 ins:t:i1:a=t61,b=i1;ins:t:i2:a=t62,b=i2".into(),
                "tx upd:t:i9:a=t61".into(),
                "tx del:k:i9".into(),
                "tx ins:k:i5;bad".into(),
                "state".into(),
                "tx ins:k:i5".into(),
                "rv 2 ins:t:i3:a=t63,b=i3;ins:u:i1+t61:x=t62;ins:k:i6".into(),
                "rv 1 upd:t:i1:a=t62,b=i2;del:t:i2".into(),
                "tx del:t:i7".into(),
                "tx upd:t:i3:b=i4".into(),
                "tx upd:t:i3:b=i4".into(),
                marker(0),
                "state".into(),
            ]);
        }
        if index == n + 2 {
            // 1500 statements / 2998 changes rolled back because the LAST statement violates the primary key, then
            // the biggest transaction of the run: 3000 changes in ~27 chunks
            return Some(vec![
                cfg,
                "tx ins:t:i5000:a=t61".into(),
                "txbig 1500 3501 8".into(),
                "state".into(),
                "txbig 1500 2000 8".into(),
                marker(0),
                "state".into(),
            ]);
        }
        let (kind, pos) = (kinds[index / 3], index % 3);
        let mut st = vec!["ins:t:i2:a=t62,b=i2".to_string(), "upd:t:i1:b=i7".to_string()];
        st.insert(pos, kind.to_string());
        let req = if kind == "slow" { format!("txt 1 {}", st.join(";")) } else { format!("tx {}", st.join(";")) };
        Some(vec![cfg, "tx ins:t:i1:a=t61,b=i1".into(), req, "state".into(), marker(0), "state".into()])
    }
    fn gen_case(&self, rng: &mut Rng, tier: Tier, _index: usize) -> Vec<String> {
        let mut ops = vec![format!("cfg {MAX_CHANGES_BYTE_SIZE}")];
        let nreq = rng.range(8, 16);
        let mut markers = 0u64;
        let mut big_base = 1000u64;
        // one case in three keeps remote actors level with / ahead of the node's own version counter
        let remote_heavy = rng.chance(1, 3);
        for _ in 0..nreq {
            if rng.chance(if remote_heavy { 3 } else { 1 }, if remote_heavy { 5 } else { 12 }) {
                ops.push(gen_rv(rng));
                if remote_heavy && rng.chance(1, 2) {
                    // a local request that changes nothing right behind it
                    ops.push(format!("tx {}", gen_noop(rng)));
                }
            }
            match rng.below(100) {
                0..=39 => {
                    let k = if rng.chance(1, 2) { 1 } else { rng.range(2, 4) };
                    let st: Vec<String> = (0..k).map(|_| gen_stmt(rng)).collect();
                    ops.push(format!("tx {}", st.join(";")));
                }
                40..=59 => {
                    let n = rng.range(0, 3) as usize;
                    let pos = match rng.below(3) {
                        0 => 0,
                        1 => n,
                        _ => rng.below(n as u64 + 1) as usize,
                    };
                    let inj = *rng.pick(&["bad", "badparam", "missing"]);
                    ops.push(format!("tx {}", with_injection(rng, n, pos, inj)));
                }
                60..=64 => {
                    // a duplicate key inside the request: the later INSERT violates the primary key
                    let key = 20 + rng.range(0, 3);
                    let mut st = vec![format!("ins:k:i{key}"), gen_stmt(rng), format!("ins:k:i{key}")];
                    if rng.chance(1, 2) {
                        st.push(gen_stmt(rng));
                    }
                    ops.push(format!("tx {}", st.join(";")));
                }
                65..=71 => {
                    let k = rng.range(1, 2);
                    let st: Vec<String> = (0..k).map(|_| gen_noop(rng)).collect();
                    ops.push(format!("tx {}", st.join(";")));
                }
                72 => ops.push("tx -".into()),
                73..=76 => {
                    let k = rng.range(1, 3);
                    let st: Vec<String> = (0..k).map(|_| gen_stmt(rng)).collect();
                    ops.push(format!("txt 60 {}", st.join(";")));
                }
                77..=78 => {
                    let n = rng.range(0, 2) as usize;
                    let pos = rng.below(n as u64 + 1) as usize;
                    ops.push(format!("txt 1 {}", with_injection(rng, n, pos, "slow")));
                }
                79..=85 => {
                    let n = match (tier, rng.below(10)) {
                        (_, 0..=3) => rng.range(2, 40),
                        (_, 4..=7) => rng.range(60, 300),
                        (Tier::Quick, _) => rng.range(300, 700),
                        (Tier::Thorough, 8) => rng.range(300, 900),
                        (Tier::Thorough, _) => 1500,
                    };
                    let len = *rng.pick(&[0u64, 8, 40, 200, 900]);
                    // sometimes overlapping the previous big request's last rows: fails at one of its last statements
                    let base = if big_base > 1000 && rng.chance(1, 4) { (big_base + 1).saturating_sub(rng.range(1, 3) + n) } else { big_base };
                    let base = base.max(1000);
                    ops.push(format!("txbig {n} {base} {len}"));
                    big_base = big_base.max(base + n);
                }
                86..=93 => {
                    let k = rng.range(2, 5);
                    let txs: Vec<String> = (0..k).map(|s| gen_slot_tx(rng, s)).collect();
                    ops.push(format!("conc {k} {}", txs.join("|")));
                }
                _ => {
                    ops.push(marker(markers));
                    markers += 1;
                    ops.push("state".into());
                }
            }
        }
        ops.push(marker(markers));
        ops.push("state".into());
        ops
    }
    fn exec_case(&self, ops: &[String]) -> CaseResult {
        let rt = tokio::runtime::Builder::new_multi_thread().worker_threads(4).enable_all().build().expect("runtime");
        let mut res = CaseResult::default();
        rt.block_on(async {
            let mut w = match World::new().await {
                Ok(w) => w,
                Err(e) => {
                    res.inconclusive = Some(format!("setup-failed:{}", e.chars().take(40).collect::<String>()));
                    return;
                }
            };
            for op in ops {
                let toks: Vec<&str> = op.split_whitespace().collect();
                match w.exec(&toks).await {
                    Ok(o) => res.outputs.push(o),
                    Err(e) => {
                        res.outputs.push(format!("harness-error {}", e.chars().take(80).collect::<String>()));
                        w.fail(format!("harness could not observe the node after `{op}`: {e}"));
                    }
                }
            }
            // end of case: anything still in flight that nobody acknowledged
            w.sweep();
            w.strays();
            if w.broken {
                w.tags.push("broadcast-never-completed".into());
            }
            res.oracle_failures = std::mem::take(&mut w.fails);
            res.nontrivial = w.nontrivial;
            res.tags = std::mem::take(&mut w.tags);
        });
        rt.shutdown_timeout(Duration::from_secs(2));
        res
    }
    fn end(&self) {
        cleanup_template();
    }
}
