//! C08 — real `ChunkedChanges` and `chunk_range` vs the Lean model `Corro.Chunker`.
use klukai_agent::api::peer::verif_hooks::chunk_range_versions;
use klukai_types::base::{CrsqlDbVersion, CrsqlSeq};
use klukai_types::change::{Change, ChunkedChanges};

use crate::rng::Rng;
use crate::runner::{CaseResult, Prop, Tier};
use crate::util::*;

pub struct C08;

/// size of a change with empty table/cid/pk and a NULL value, as the real estimate computes it
fn base_size() -> usize {
    Change::default().estimated_byte_size()
}

fn mk_change(seq: u64, size: usize) -> Option<Change> {
    let base = base_size();
    if size < base {
        return None;
    }
    let c = Change { pk: vec![0u8; size - base], seq: CrsqlSeq(seq), ..Default::default() };
    assert_eq!(c.estimated_byte_size(), size);
    Some(c)
}

fn exec_chunk(toks: &[&str]) -> Result<(String, bool, Vec<String>), String> {
    let start: u64 = toks[1].parse().map_err(|_| "bad-op")?;
    let last: u64 = toks[2].parse().map_err(|_| "bad-op")?;
    let lims = parse_nats(toks[3]).ok_or("bad-op")?;
    let mut changes = vec![];
    for c in split_list(toks[4]) {
        let (s, z) = c.split_once(':').ok_or("bad-op")?;
        let s: u64 = s.parse().map_err(|_| "bad-op")?;
        let z: usize = z.parse().map_err(|_| "bad-op")?;
        changes.push(mk_change(s, z).ok_or("bad-size")?);
    }
    let lim = |k: usize| -> usize { *lims.get(k).or(lims.last()).unwrap_or(&0) as usize };
    let input: Vec<Change> = changes.clone();
    let mut it = ChunkedChanges::new(changes.into_iter().map(Ok), CrsqlSeq(start), CrsqlSeq(last), lim(0));
    let mut k = 0usize;
    let mut outs = vec![];
    let mut chunks: Vec<(Vec<u64>, u64, u64)> = vec![];
    while let Some(res) = it.next() {
        let (chs, range) = res.map_err(|e| format!("err {e}"))?;
        let seqs: Vec<u64> = chs.iter().map(|c| c.seq.0).collect();
        outs.push(format!("{}-{}:{}", range.start().0, range.end().0, show_nats(&seqs)));
        chunks.push((seqs, range.start().0, range.end().0));
        k += 1;
        it.set_max_buf_size(lim(k));
        if k > 100_000 {
            return Err("err no-termination".into());
        }
    }
    // property oracle, independent of the model
    let mut fails = vec![];
    if chunks.is_empty() {
        fails.push("no chunk produced".to_string());
    } else {
        if chunks[0].1 != start {
            fails.push(format!("first range starts at {} not {start}", chunks[0].1));
        }
        if chunks.last().unwrap().2 != last {
            fails.push(format!("last range ends at {} not {last}", chunks.last().unwrap().2));
        }
        for w in chunks.windows(2) {
            if w[1].1 != w[0].2 + 1 {
                fails.push(format!("ranges not contiguous: {}-{} then {}-{}", w[0].1, w[0].2, w[1].1, w[1].2));
            }
        }
        for c in &chunks {
            if c.1 > c.2 {
                fails.push(format!("inverted range {}-{}", c.1, c.2));
            }
            for s in &c.0 {
                if *s < c.1 || *s > c.2 {
                    fails.push(format!("change seq {s} outside its chunk {}-{}", c.1, c.2));
                }
            }
        }
        let flat: Vec<u64> = chunks.iter().flat_map(|c| c.0.iter().copied()).collect();
        let want: Vec<u64> = input.iter().map(|c| c.seq.0).collect();
        if flat != want {
            fails.push(format!("changes not partitioned in order: got {flat:?} want {want:?}"));
        }
    }
    let nontrivial = chunks.len() >= 2;
    let mut tags = vec![format!("chunks:{}", chunks.len().min(6))];
    if input.is_empty() {
        tags.push("empty-input".into());
    }
    if input.last().map(|c| c.seq.0) != Some(last) {
        tags.push("ends-before-last".into());
    }
    if lims.len() > 1 {
        tags.push("limit-changes".into());
    }
    if !fails.is_empty() {
        return Ok((show_list(&outs, ";"), nontrivial, [tags, fails.iter().map(|f| format!("ORACLE:{f}")).collect()].concat()));
    }
    Ok((show_list(&outs, ";"), nontrivial, tags))
}

fn exec_crange(toks: &[&str]) -> Result<(String, bool, Vec<String>), String> {
    let lo: u64 = toks[1].parse().map_err(|_| "bad-op")?;
    let hi: u64 = toks[2].parse().map_err(|_| "bad-op")?;
    let k: usize = toks[3].parse().map_err(|_| "bad-op")?;
    if k == 0 {
        return Ok(("err zero-step".into(), false, vec![]));
    }
    let blocks: Vec<(u64, u64)> = chunk_range_versions(CrsqlDbVersion(lo)..=CrsqlDbVersion(hi), k)
        .into_iter()
        .map(|r| (r.start().0, r.end().0))
        .collect();
    let mut fails = vec![];
    // oracle: union == [lo,hi], each block forward and inside
    let mut covered = std::collections::BTreeSet::new();
    for b in &blocks {
        if b.0 > b.1 || b.0 < lo || b.1 > hi {
            fails.push(format!("ORACLE:block {}-{} not a forward sub-range of {lo}-{hi}", b.0, b.1));
        }
        for x in b.0..=b.1 {
            covered.insert(x);
        }
    }
    if lo <= hi {
        for x in lo..=hi {
            if !covered.contains(&x) {
                fails.push(format!("ORACLE:version {x} of {lo}-{hi} not covered"));
                break;
            }
        }
    }
    let mut tags = vec![format!("blocks:{}", blocks.len().min(6))];
    tags.extend(fails);
    Ok((show_ranges(&blocks), blocks.len() >= 2, tags))
}

impl Prop for C08 {
    fn id(&self) -> &'static str {
        "C08"
    }
    fn rule(&self) -> &'static str {
        "one case = one `chunk` call (start,last,limit sequence,change list with real estimated sizes) or one `crange` call; \
         non-trivial iff at least two chunks/blocks were produced; distinct by hash of the op line"
    }
    fn default_cases(&self, tier: Tier) -> usize {
        match tier {
            Tier::Quick => 50_000,
            Tier::Thorough => 400_000,
        }
    }
    fn enumerated_case(&self, tier: Tier, index: usize) -> Option<Vec<String>> {
        // exhaustive small scope: subsets of seqs in start..=last for 0 <= start <= last <= L, limits from a small set
        let l_max: u64 = if tier == Tier::Thorough { 7 } else { 4 };
        let base = base_size() as u64;
        let lim_sets: [&[u64]; 6] = [&[0], &[1], &[base + 1], &[2 * base], &[0, 3 * base], &[3 * base, 0]];
        // decode index → (start,last,subset mask,limset)
        let mut idx = index as u64;
        for last in 0..=l_max {
            for start in 0..=last {
                let n = last - start + 1;
                let combos = (1u64 << n) * lim_sets.len() as u64;
                if idx < combos {
                    let mask = idx / lim_sets.len() as u64;
                    let ls = lim_sets[(idx % lim_sets.len() as u64) as usize];
                    let seqs: Vec<String> = (0..n)
                        .filter(|b| mask >> b & 1 == 1)
                        .map(|b| format!("{}:{}", start + b, base + (b % 3)))
                        .collect();
                    return Some(vec![format!("chunk {start} {last} {} {}", show_nats(ls), show_list(&seqs, ","))]);
                }
                idx -= combos;
            }
        }
        None
    }
    fn gen_case(&self, rng: &mut Rng, _tier: Tier, _index: usize) -> Vec<String> {
        if rng.chance(1, 5) {
            let lo = rng.range(0, 60);
            let hi = if rng.chance(1, 10) { lo.saturating_sub(rng.range(0, 3)) } else { lo + rng.range(0, 80) };
            let k = if rng.chance(1, 30) { 0 } else { rng.range(1, 25) };
            return vec![format!("crange {lo} {hi} {k}")];
        }
        let base = base_size() as u64;
        let start = if rng.chance(1, 2) { 0 } else { rng.range(0, 50) };
        let len = match rng.below(10) {
            0 => 0,
            1..=5 => rng.range(1, 12),
            _ => rng.range(10, 60),
        };
        let dense = rng.chance(1, 2);
        let mut seq = start;
        let mut cs = vec![];
        for i in 0..len {
            if i > 0 || !rng.chance(2, 3) {
                seq += if dense { 0 } else { rng.range(0, 3) };
            }
            let size = base + match rng.below(4) { 0 => 0, 1 => rng.range(0, 30), 2 => rng.range(0, 400), _ => rng.range(0, 9000) };
            cs.push((seq, size));
            seq += 1;
        }
        let last = match (cs.last(), rng.below(10)) {
            (Some((s, _)), 0..=6) => *s,
            (Some((s, _)), _) => *s + rng.range(1, 5),
            (None, _) => start + rng.range(0, 5),
        };
        let nl = match rng.below(4) { 0 | 1 => 1, 2 => 2, _ => rng.range(2, 5) };
        let lims: Vec<u64> = (0..nl)
            .map(|_| match rng.below(6) { 0 => 0, 1 => 1, 2 => base, 3 => rng.range(0, 300), 4 => 8192, _ => rng.range(0, 20000) })
            .collect();
        let cs: Vec<String> = cs.iter().map(|(s, z)| format!("{s}:{z}")).collect();
        vec![format!("chunk {start} {last} {} {}", show_nats(&lims), show_list(&cs, ","))]
    }
    fn exec_case(&self, ops: &[String]) -> CaseResult {
        let mut r = CaseResult::default();
        for op in ops {
            let toks: Vec<&str> = op.split_whitespace().collect();
            let res = match toks.first().copied() {
                Some("chunk") if toks.len() == 5 => exec_chunk(&toks),
                Some("crange") if toks.len() == 4 => exec_crange(&toks),
                _ => Err("bad-op".into()),
            };
            match res {
                Ok((out, nt, tags)) => {
                    r.outputs.push(out);
                    r.nontrivial |= nt;
                    for t in tags {
                        if let Some(f) = t.strip_prefix("ORACLE:") {
                            r.oracle_failures.push(f.to_string());
                        } else {
                            r.tags.push(t);
                        }
                    }
                }
                Err(e) => r.outputs.push(e),
            }
        }
        r
    }
}
