//! C20 — the real `SplitPool` (crates/klukai-types/src/agent.rs) vs the Lean model `Corro.WritePool`.
//!
//! Family `sched` (model-compared, deterministic): a current-thread tokio runtime; the harness itself
//! polls the requesters' futures (`write_priority|normal|low()`) with its own wakers, so the dispatcher
//! task of the pool runs only inside the `run` op.  Every op therefore has exactly one outcome, which
//! the model must predict (queued / pending / granted / dropped …).  Cancellation = dropping a future
//! (queued, or owning guard + pooled connection while it waits for the write permit that the harness
//! holds through `ext take`) or dropping a `WriteConn`.
//! Independent oracle on the real trace: never two live `WriteConn`s; at every hand-off (first wake-up
//! of a requester, observed through its waker) the requester chosen is the best live queued one by
//! (class, arrival); after every `run` somebody owns the guard if a live request is queued (no lost
//! hand-off); at the end of the case every remaining live request is granted, in order.
//!
//! Family `stress` (oracle only): a multi-thread runtime, one task per request with seeded hold times
//! and cancellation deadlines (the future is dropped wherever it happens to be: queued, mid-acquisition
//! or holding); oracle: never two holders, every non-cancelled request is granted, everything
//! completes before a 30 s watchdog.
//!
//! Family `agent` (oracle only): a REAL agent (`start_with_config`) whose buffered-apply queue is tiny
//! (`perf.apply_channel_len = cap`).  A foreign actor's k multi-change versions (made by a plain
//! cr-sqlite database) are delivered through the real `process_multiple_changes`: first all first
//! halves (everything is buffered), then all second halves in ONE batch, so that the batch completes
//! k buffered versions while it owns the write connection, with `local` concurrent client writes
//! (`api_v1_transactions`).  Oracle: the batch, the local writes and the background apply of all k
//! versions complete before a watchdog (the pool's own timeout is 5 minutes, so a wedge between the
//! write connection and the apply queue is unmistakable).
use std::collections::BTreeMap;
use std::future::Future;
use std::pin::Pin;
use std::sync::Arc;
use std::sync::atomic::{AtomicBool, AtomicUsize, Ordering};
use std::task::{Context, Poll, Wake, Waker};
use std::time::Duration;

use klukai_types::agent::{PoolError, SplitPool, WriteConn};
use tokio::sync::{OwnedSemaphorePermit, Semaphore};

use crate::rng::Rng;
use crate::runner::{CaseResult, Prop, Tier};
use crate::util::*;

pub struct C20;

const TMP_ROOT: &str = "/verif/harness/target/tmp";
const WATCHDOG: Duration = Duration::from_secs(30);

fn case_dir() -> std::path::PathBuf {
    static N: AtomicUsize = AtomicUsize::new(0);
    let d = std::path::PathBuf::from(format!(
        "{TMP_ROOT}/c20-{}/{}",
        std::process::id(),
        N.fetch_add(1, Ordering::Relaxed)
    ));
    let _ = std::fs::remove_dir_all(&d);
    std::fs::create_dir_all(&d).expect("tmp dir");
    d
}

#[derive(Clone, Copy, PartialEq, Eq, PartialOrd, Ord, Debug)]
enum Prio {
    Priority,
    Normal,
    Low,
}

fn parse_prio(s: &str) -> Option<Prio> {
    match s {
        "p" => Some(Prio::Priority),
        "n" => Some(Prio::Normal),
        "l" => Some(Prio::Low),
        _ => None,
    }
}

async fn acquire(pool: SplitPool, p: Prio) -> Result<WriteConn, PoolError> {
    match p {
        Prio::Priority => pool.write_priority().await,
        Prio::Normal => pool.write_normal().await,
        Prio::Low => pool.write_low().await,
    }
}

// ------------------------------------------------------------------ sched family

struct Flag(AtomicBool);
impl Wake for Flag {
    fn wake(self: Arc<Self>) {
        self.0.store(true, Ordering::SeqCst);
    }
    fn wake_by_ref(self: &Arc<Self>) {
        self.0.store(true, Ordering::SeqCst);
    }
}

type ReqFut = Pin<Box<dyn Future<Output = Result<WriteConn, PoolError>>>>;

enum Slot {
    Pending(ReqFut),
    Holding(WriteConn),
    Gone,
}

struct Req {
    prio: Prio,
    seq: usize,
    slot: Slot,
    flag: Arc<Flag>,
    /// the dispatcher has handed the guard to this requester (its waker fired for the first time)
    woken: bool,
}

struct Sched {
    pool: SplitPool,
    sema: Arc<Semaphore>,
    ext: Option<OwnedSemaphorePermit>,
    reqs: BTreeMap<u64, Req>,
    next_seq: usize,
    fails: Vec<String>,
    grants: usize,
    drops: usize,
    waited: bool,
}

/// let the spawned tasks of the pool (the dispatcher) run until they block
async fn settle() {
    for _ in 0..8 {
        tokio::task::yield_now().await;
    }
    // `wait_conn_drop` awaits the first tick of a fresh `interval` right after handing out the guard;
    // that timer fires one timer-wheel tick (1 ms) later.  Our own later deadline orders us after it.
    tokio::time::sleep(Duration::from_millis(2)).await;
    for _ in 0..8 {
        tokio::task::yield_now().await;
    }
}

impl Sched {
    fn live_holders(&self) -> Vec<u64> {
        self.reqs.iter().filter(|(_, r)| matches!(r.slot, Slot::Holding(_))).map(|(k, _)| *k).collect()
    }
    fn pending(&self) -> Vec<u64> {
        self.reqs.iter().filter(|(_, r)| matches!(r.slot, Slot::Pending(_))).map(|(k, _)| *k).collect()
    }
    fn guard_owned(&self) -> bool {
        self.reqs.values().any(|r| match r.slot {
            Slot::Holding(_) => true,
            Slot::Pending(_) => r.woken,
            Slot::Gone => false,
        })
    }

    fn poll_one(&mut self, id: u64) -> String {
        let r = self.reqs.get_mut(&id).unwrap();
        let out = match &mut r.slot {
            Slot::Holding(_) => return "holding".into(),
            Slot::Gone => return "gone".into(),
            Slot::Pending(f) => {
                let w = Waker::from(r.flag.clone());
                let mut cx = Context::from_waker(&w);
                f.as_mut().poll(&mut cx)
            }
        };
        match out {
            Poll::Pending => {
                if !self.live_holders().is_empty() {
                    self.waited = true;
                }
                "pending".into()
            }
            Poll::Ready(Ok(conn)) => {
                // the connection must be usable
                let ok: rusqlite::Result<i64> = conn.query_row("SELECT 1", [], |row| row.get(0));
                if ok.ok() != Some(1) {
                    self.fails.push(format!("granted connection of request {id} is not usable"));
                }
                let r = self.reqs.get_mut(&id).unwrap();
                if !r.woken {
                    self.fails.push(format!("request {id} was granted without the dispatcher having handed it the guard"));
                }
                r.slot = Slot::Holding(conn);
                self.grants += 1;
                let live = self.live_holders().len();
                if live > 1 {
                    self.fails.push(format!("{live} write connections are handed out at the same time: {:?}", self.live_holders()));
                }
                format!("granted live={live}")
            }
            Poll::Ready(Err(e)) => {
                self.reqs.get_mut(&id).unwrap().slot = Slot::Gone;
                format!("err {}", err_kind(&e))
            }
        }
    }

    /// after the dispatcher ran: who was handed the guard, and was it the right one?
    fn observe_handoff(&mut self) {
        let newly: Vec<u64> = self
            .reqs
            .iter()
            .filter(|(_, r)| matches!(r.slot, Slot::Pending(_)) && !r.woken && r.flag.0.load(Ordering::SeqCst))
            .map(|(k, _)| *k)
            .collect();
        if newly.len() > 1 {
            self.fails.push(format!("the dispatcher handed the guard to several requesters at once: {newly:?}"));
        }
        for id in &newly {
            let (p, s) = {
                let r = &self.reqs[id];
                (r.prio, r.seq)
            };
            // every other live, queued, never-woken request must rank after the chosen one
            for (k, r) in self.reqs.iter() {
                if k != id && matches!(r.slot, Slot::Pending(_)) && !r.woken && !newly.contains(k) && (r.prio, r.seq) < (p, s) {
                    self.fails.push(format!(
                        "priority order violated: request {id} ({p:?}, arrival {s}) was served while request {k} ({:?}, arrival {}) was waiting",
                        r.prio, r.seq
                    ));
                }
            }
        }
        for id in newly {
            self.reqs.get_mut(&id).unwrap().woken = true;
        }
        // no lost hand-off: a live queued request and nobody owns the guard => the dispatcher is stuck
        if !self.guard_owned() {
            let waiting: Vec<u64> = self.pending();
            if !waiting.is_empty() {
                self.fails.push(format!("lost hand-off: requests {waiting:?} are queued, nobody owns the guard, and the dispatcher served none of them"));
            }
        }
    }

    fn drop_req(&mut self, id: u64) -> &'static str {
        let r = self.reqs.get_mut(&id).unwrap();
        let what = match std::mem::replace(&mut r.slot, Slot::Gone) {
            Slot::Pending(f) => {
                drop(f);
                "future"
            }
            Slot::Holding(c) => {
                drop(c);
                "conn"
            }
            Slot::Gone => "none",
        };
        if what != "none" {
            self.drops += 1;
        }
        what
    }

    async fn op(&mut self, toks: &[&str]) -> String {
        match toks {
            ["req", id, p] => {
                let (Ok(id), Some(p)) = (id.parse::<u64>(), parse_prio(p)) else { return "bad-op".into() };
                if self.reqs.contains_key(&id) {
                    return "bad-op".into();
                }
                let fut: ReqFut = Box::pin(tokio::task::unconstrained(acquire(self.pool.clone(), p)));
                let seq = self.next_seq;
                self.next_seq += 1;
                self.reqs.insert(id, Req { prio: p, seq, slot: Slot::Pending(fut), flag: Arc::new(Flag(AtomicBool::new(false))), woken: false });
                match self.poll_one(id).as_str() {
                    "pending" => "queued".into(),
                    other => format!("unexpected-first-poll {other}"),
                }
            }
            ["run"] => {
                settle().await;
                self.observe_handoff();
                "ok".into()
            }
            ["poll", id] => {
                let Ok(id) = id.parse::<u64>() else { return "bad-op".into() };
                if !self.reqs.contains_key(&id) {
                    return "bad-op".into();
                }
                self.poll_one(id)
            }
            ["drop", id] => {
                let Ok(id) = id.parse::<u64>() else { return "bad-op".into() };
                if !self.reqs.contains_key(&id) {
                    return "bad-op".into();
                }
                format!("dropped {}", self.drop_req(id))
            }
            ["dropheld"] => match self.live_holders().first().copied() {
                Some(id) => {
                    self.drop_req(id);
                    format!("dropped {id}")
                }
                None => "dropped none".into(),
            },
            ["ext", "take"] => {
                // refused while a requester owns the guard without holding a WriteConn yet: the semaphore
                // hands a returned permit straight to a queued waiter, which `try_acquire` cannot see
                let mid = self.reqs.values().any(|r| matches!(r.slot, Slot::Pending(_)) && r.woken);
                if mid {
                    return "refused".into();
                }
                match self.sema.clone().try_acquire_owned() {
                    Ok(p) => {
                        if self.ext.is_some() {
                            self.fails.push("the write semaphore handed out two permits".into());
                        }
                        self.ext = Some(p);
                        "ok".into()
                    }
                    Err(_) => "busy".into(),
                }
            }
            ["ext", "release"] => match self.ext.take() {
                Some(p) => {
                    drop(p);
                    "ok".into()
                }
                None => "none".into(),
            },
            ["state"] => format!("holding={} pending={}", show_nats(&self.live_holders()), show_nats(&self.pending())),
            _ => "bad-op".into(),
        }
    }

    /// end of the case: with nothing held outside, every live request must get its turn, in order
    async fn drain(&mut self) {
        self.ext = None;
        let mut rounds = 0;
        while !self.pending().is_empty() || !self.live_holders().is_empty() {
            rounds += 1;
            if rounds > 2 * self.reqs.len() + 4 {
                self.fails.push(format!("stuck: requests {:?} are never granted although nothing is held", self.pending()));
                return;
            }
            for id in self.live_holders() {
                self.drop_req(id);
            }
            settle().await;
            self.observe_handoff();
            for id in self.pending() {
                self.poll_one(id);
            }
        }
    }
}

fn err_kind(e: &PoolError) -> &'static str {
    match e {
        PoolError::Pool(_) => "pool",
        PoolError::QueueClosed => "queue-closed",
        PoolError::CallbackClosed => "callback-closed",
        PoolError::Permit(_) => "permit",
        PoolError::TimedOut { .. } => "timed-out",
    }
}

fn run_sched(ops: &[String]) -> CaseResult {
    let mut res = CaseResult::default();
    let dir = case_dir();
    let rt = tokio::runtime::Builder::new_current_thread().enable_all().build().expect("runtime");
    let (done_tx, done_rx) = std::sync::mpsc::channel::<()>();
    // watchdog: the whole case must complete (it never blocks by construction; a hang is a finding)
    let ops_owned: Vec<String> = ops.to_vec();
    let db = dir.join("c20.db");
    let handle = std::thread::spawn(move || {
        let out = rt.block_on(async move {
            let sema = Arc::new(Semaphore::new(1));
            let pool = SplitPool::create(&db, sema.clone()).await.expect("SplitPool::create");
            let mut s = Sched { pool, sema, ext: None, reqs: BTreeMap::new(), next_seq: 0, fails: vec![], grants: 0, drops: 0, waited: false };
            let mut outs = vec![];
            for op in &ops_owned {
                let toks: Vec<&str> = op.split_whitespace().collect();
                outs.push(s.op(&toks).await);
            }
            s.drain().await;
            (outs, s.fails, s.grants, s.drops, s.waited)
        });
        drop(rt);
        let _ = done_tx.send(());
        out
    });
    match done_rx.recv_timeout(WATCHDOG) {
        Ok(()) => {
            let (outs, fails, grants, drops, waited) = handle.join().expect("case thread");
            res.outputs = outs;
            res.oracle_failures = fails;
            res.nontrivial = grants >= 2 && drops >= 1 && waited;
            res.tags.push(format!("sched-grants:{}", grants.min(8)));
            if waited {
                res.tags.push("sched-contended".into());
            }
        }
        Err(std::sync::mpsc::RecvTimeoutError::Timeout) => {
            res.outputs = ops.iter().map(|_| "stuck".to_string()).collect();
            res.oracle_failures.push(format!("stuck: the schedule did not complete within {WATCHDOG:?}"));
        }
        Err(_) => {
            // the case thread panicked: surface it through the runner's panic handling
            let e = handle.join().err();
            let msg = e
                .and_then(|e| e.downcast_ref::<String>().cloned().or_else(|| e.downcast_ref::<&str>().map(|s| s.to_string())))
                .unwrap_or_else(|| "panic".into());
            res.outputs = ops.iter().map(|_| "impl-panic".to_string()).collect();
            res.oracle_failures.push(format!("implementation panicked: {msg}"));
        }
    }
    let _ = std::fs::remove_dir_all(&dir);
    res
}

// ------------------------------------------------------------------ stress family

struct LiveGuard(Arc<AtomicUsize>);
impl Drop for LiveGuard {
    fn drop(&mut self) {
        self.0.fetch_sub(1, Ordering::SeqCst);
    }
}

fn run_stress(toks: &[&str]) -> Option<(String, Vec<String>, bool)> {
    let threads: usize = toks.get(1)?.parse().ok()?;
    if threads == 0 || threads > 16 {
        return None;
    }
    let mut specs = vec![];
    for s in split_list_sep(toks.get(2)?, ';') {
        let parts: Vec<&str> = s.split(':').collect();
        if parts.len() != 3 {
            return None;
        }
        let p = parse_prio(parts[0])?;
        let hold: u64 = parts[1].parse().ok()?;
        let cancel: Option<u64> = if parts[2] == "-" { None } else { Some(parts[2].parse().ok()?) };
        specs.push((p, hold, cancel));
    }
    if specs.is_empty() {
        return None;
    }
    let n = specs.len();
    let dir = case_dir();
    let db = dir.join("c20.db");
    let rt = tokio::runtime::Builder::new_multi_thread().worker_threads(threads).enable_all().build().expect("runtime");
    let live = Arc::new(AtomicUsize::new(0));
    let max_live = Arc::new(AtomicUsize::new(0));
    let granted = Arc::new(AtomicUsize::new(0));
    let mut fails = vec![];
    let outcome = rt.block_on({
        let (live, max_live, granted) = (live.clone(), max_live.clone(), granted.clone());
        async move {
            let sema = Arc::new(Semaphore::new(1));
            let pool = SplitPool::create(&db, sema.clone()).await.expect("SplitPool::create");
            let mut tasks = vec![];
            for (i, (p, hold, cancel)) in specs.into_iter().enumerate() {
                let (pool, live, max_live, granted) = (pool.clone(), live.clone(), max_live.clone(), granted.clone());
                tasks.push(tokio::spawn(async move {
                    let work = async {
                        let conn = acquire(pool, p).await.map_err(|e| err_kind(&e))?;
                        let now = live.fetch_add(1, Ordering::SeqCst) + 1;
                        let _g = LiveGuard(live.clone());
                        max_live.fetch_max(now, Ordering::SeqCst);
                        granted.fetch_add(1, Ordering::SeqCst);
                        let one: i64 = conn.query_row("SELECT 1", [], |r| r.get(0)).map_err(|_| "sql")?;
                        if one != 1 {
                            return Err("sql");
                        }
                        if hold > 0 {
                            tokio::time::sleep(Duration::from_micros(hold)).await;
                        } else {
                            tokio::task::yield_now().await;
                        }
                        drop(_g);
                        drop(conn);
                        Ok::<(), &'static str>(())
                    };
                    match cancel {
                        None => (i, Some(work.await)),
                        Some(us) => {
                            tokio::select! {
                                r = work => (i, Some(r)),
                                _ = tokio::time::sleep(Duration::from_micros(us)) => (i, None),
                            }
                        }
                    }
                }));
            }
            let all = async {
                let mut outs = vec![];
                for t in tasks {
                    outs.push(t.await);
                }
                outs
            };
            let r = tokio::time::timeout(WATCHDOG, all).await;
            // after everything finished the pool must still serve a request (nothing leaked)
            let after = match &r {
                Ok(_) => Some(tokio::time::timeout(WATCHDOG, pool.write_low()).await.map(|c| c.is_ok())),
                Err(_) => None,
            };
            (r, after)
        }
    });
    rt.shutdown_timeout(Duration::from_secs(2));
    let _ = std::fs::remove_dir_all(&dir);
    let mut cancelled = 0;
    let out = match outcome {
        (Err(_), _) => {
            fails.push(format!("stuck: {n} concurrent requests did not all complete within {WATCHDOG:?}"));
            "stuck".to_string()
        }
        (Ok(results), after) => {
            for r in results {
                match r {
                    Ok((_, Some(Ok(())))) => {}
                    Ok((i, Some(Err(k)))) => fails.push(format!("request {i} failed: {k}")),
                    Ok((_, None)) => cancelled += 1,
                    Err(e) => fails.push(format!("requester task panicked: {e}")),
                }
            }
            match after {
                Some(Ok(true)) => {}
                Some(Ok(false)) => fails.push("a request after the run failed".into()),
                _ => fails.push("stuck: after all requesters finished or were cancelled, a new request is not served (a guard, the connection or the permit leaked)".into()),
            }
            format!("done n={n}")
        }
    };
    let m = max_live.load(Ordering::SeqCst);
    if m > 1 {
        fails.push(format!("{m} holders of the write connection at the same time"));
    }
    if live.load(Ordering::SeqCst) != 0 {
        fails.push("holder counter not back to zero".into());
    }
    let _ = cancelled;
    Some((out, fails, granted.load(Ordering::SeqCst) >= 2))
}

fn split_list_sep(s: &str, sep: char) -> Vec<&str> {
    if s == "-" || s.is_empty() { vec![] } else { s.split(sep).collect() }
}

// ------------------------------------------------------------------ agent family

const AGENT_SCHEMA: &str = "CREATE TABLE t (id INTEGER NOT NULL PRIMARY KEY, a TEXT NOT NULL DEFAULT '', b INTEGER NOT NULL DEFAULT 0);";
const WEDGE: Duration = Duration::from_secs(12);

/// k transactions of 2 inserted rows (= 4 changes, seq 0..=3) on a plain cr-sqlite database
fn foreign_versions(dir: &std::path::Path, k: u64) -> Result<(klukai_types::actor::ActorId, Vec<Vec<klukai_types::change::Change>>), String> {
    use klukai_types::api::{ColumnName, SqliteValue, TableName};
    use klukai_types::base::{CrsqlDbVersion, CrsqlSeq};
    let e = |e: rusqlite::Error| e.to_string();
    let mut conn = klukai_types::sqlite::CrConn::init(rusqlite::Connection::open(dir.join("origin.db")).map_err(e)?).map_err(e)?;
    conn.execute_batch(AGENT_SCHEMA).map_err(e)?;
    conn.query_row("SELECT crsql_as_crr('t')", [], |_| Ok(())).map_err(e)?;
    let site: Vec<u8> = conn.query_row("SELECT crsql_site_id()", [], |r| r.get(0)).map_err(e)?;
    let site16: [u8; 16] = site.clone().try_into().map_err(|_| "site id".to_string())?;
    let mut out = vec![];
    for v in 1..=k {
        let tx = conn.transaction().map_err(e)?;
        tx.execute("INSERT INTO t (id, a, b) VALUES (?, ?, ?)", rusqlite::params![1000 + 2 * v as i64, format!("o{v}"), v as i64]).map_err(e)?;
        tx.execute("INSERT INTO t (id, a, b) VALUES (?, ?, ?)", rusqlite::params![1001 + 2 * v as i64, format!("p{v}"), -(v as i64)]).map_err(e)?;
        tx.commit().map_err(e)?;
        let mut st = conn
            .prepare(r#"SELECT "table", pk, cid, val, col_version, cl, db_version, seq FROM crsql_changes WHERE db_version = ? ORDER BY seq"#)
            .map_err(e)?;
        let chs: Vec<klukai_types::change::Change> = st
            .query_map([v as i64], |r| {
                Ok(klukai_types::change::Change {
                    table: TableName(r.get::<_, String>(0)?.as_str().into()),
                    pk: r.get(1)?,
                    cid: ColumnName(r.get::<_, String>(2)?.as_str().into()),
                    val: r.get::<_, SqliteValue>(3)?,
                    col_version: r.get(4)?,
                    cl: r.get(5)?,
                    db_version: CrsqlDbVersion(r.get::<_, i64>(6)? as u64),
                    seq: CrsqlSeq(r.get::<_, i64>(7)? as u64),
                    site_id: site16,
                })
            })
            .and_then(|it| it.collect())
            .map_err(e)?;
        if chs.len() != 4 || chs.iter().enumerate().any(|(i, c)| c.seq.0 != i as u64) {
            return Err(format!("origin version {v} has an unexpected change list ({} changes)", chs.len()));
        }
        out.push(chs);
    }
    Ok((klukai_types::actor::ActorId(uuid::Uuid::from_bytes(site16)), out))
}

fn run_agent(toks: &[&str]) -> Option<(String, Vec<String>, bool)> {
    use klukai_types::base::{CrsqlDbVersion, CrsqlSeq};
    use klukai_types::broadcast::{ChangeSource, ChangeV1, Changeset, Timestamp};
    let cap: usize = toks.get(1)?.parse().ok()?;
    let k: u64 = toks.get(2)?.parse().ok()?;
    let split: u64 = toks.get(3)?.parse().ok()?;
    let local: usize = toks.get(4)?.parse().ok()?;
    if cap == 0 || cap > 64 || k == 0 || k > 64 || split == 0 || split > 3 || local > 8 {
        return None;
    }
    let expect = format!("done applied={k} local={local}");
    let dir = case_dir();
    let mut fails: Vec<String> = vec![];
    let out = (|| -> Result<String, String> {
        let (origin, versions) = foreign_versions(&dir, k)?;
        std::fs::create_dir_all(dir.join("schema")).map_err(|e| e.to_string())?;
        std::fs::write(dir.join("schema").join("t.sql"), AGENT_SCHEMA).map_err(|e| e.to_string())?;
        let mut conf = klukai_types::config::Config::builder()
            .api_addr("127.0.0.1:0".parse().unwrap())
            .gossip_addr("127.0.0.1:0".parse().unwrap())
            .admin_path(dir.join("admin.sock").display().to_string())
            .db_path(dir.join("agent.db").display().to_string())
            .add_schema_path(dir.join("schema").display().to_string())
            .build()
            .map_err(|e| e.to_string())?;
        // a perfectly legal setting: the queue feeding the buffered-apply loop is small
        conf.perf.apply_channel_len = cap;
        let rt = tokio::runtime::Builder::new_multi_thread().worker_threads(4).enable_all().build().map_err(|e| e.to_string())?;
        let (tripwire, worker, trip_tx) = klukai_types::tripwire::Tripwire::new_simple();
        let res = rt.block_on(async {
            tokio::spawn(worker);
            let (agent, bookie, _transport, _handles) =
                klukai_agent::agent::start_with_config(conf, tripwire).await.map_err(|e| format!("agent start: {e:#}"))?;
            let mk = |v: usize, lo: u64, hi: u64| ChangeV1 {
                actor_id: origin,
                changeset: Changeset::Full {
                    version: CrsqlDbVersion(v as u64 + 1),
                    changes: versions[v].iter().filter(|c| c.seq.0 >= lo && c.seq.0 <= hi).cloned().collect(),
                    seqs: CrsqlSeq(lo)..=CrsqlSeq(hi),
                    last_seq: CrsqlSeq(3),
                    ts: Timestamp::from(1u64 << 32),
                },
            };
            let batch = |lo: u64, hi: u64| -> Vec<(ChangeV1, ChangeSource, std::time::Instant)> {
                (0..k as usize).map(|v| (mk(v, lo, hi), ChangeSource::Sync, std::time::Instant::now())).collect()
            };
            // 1. first parts: everything is buffered, nothing complete
            let first = tokio::spawn(klukai_agent::agent::process_multiple_changes(agent.clone(), bookie.clone(), batch(0, split - 1), Duration::from_secs(60)));
            match tokio::time::timeout(WEDGE, first).await {
                Err(_) => return Ok::<Option<String>, String>(Some("the batch of first chunks did not finish".into())),
                Ok(Err(e)) => return Err(format!("first batch panicked: {e}")),
                Ok(Ok(Err(e))) => return Err(format!("first batch failed: {e}")),
                Ok(Ok(Ok(()))) => {}
            }
            // 2. the rest of every version in ONE batch + concurrent client writes
            let t0 = std::time::Instant::now();
            let second = tokio::spawn(klukai_agent::agent::process_multiple_changes(agent.clone(), bookie.clone(), batch(split, 3), Duration::from_secs(60)));
            let mut locals = vec![];
            for i in 0..local {
                let agent = agent.clone();
                locals.push(tokio::spawn(async move {
                    let st = vec![klukai_types::api::Statement::Simple(format!("INSERT INTO t (id, a, b) VALUES ({}, 'local', {i})", 10 + i))];
                    let (status, _) = klukai_agent::api::public::api_v1_transactions(
                        axum::Extension(agent),
                        axum::extract::Query(klukai_agent::api::public::TimeoutParams { timeout: None }),
                        axum::extract::Json(st),
                    )
                    .await;
                    status.is_success()
                }));
            }
            match tokio::time::timeout(WEDGE, second).await {
                Err(_) => {
                    return Ok(Some(format!(
                        "stuck: one remote-apply batch that completes {k} buffered versions (apply queue capacity {cap}) still holds the write connection after {:?}",
                        t0.elapsed()
                    )));
                }
                Ok(Err(e)) => return Err(format!("second batch panicked: {e}")),
                Ok(Ok(Err(e))) => return Err(format!("second batch failed: {e}")),
                Ok(Ok(Ok(()))) => {}
            }
            for (i, l) in locals.into_iter().enumerate() {
                match tokio::time::timeout(WEDGE, l).await {
                    Err(_) => return Ok(Some(format!("stuck: local write {i} did not complete within {WEDGE:?} after the batch"))),
                    Ok(Ok(true)) => {}
                    Ok(other) => return Err(format!("local write {i} failed: {other:?}")),
                }
            }
            // 3. the write connection is obtainable and the background loop applies every version
            match tokio::time::timeout(WEDGE, agent.pool().write_priority()).await {
                Ok(Ok(c)) => drop(c),
                Ok(Err(e)) => return Err(format!("write connection after the batch: {e}")),
                Err(_) => return Ok(Some("stuck: the write connection cannot be obtained after the batch".into())),
            }
            let want = 2 * k as i64 + local as i64;
            let deadline = std::time::Instant::now() + WEDGE;
            loop {
                let n: i64 = {
                    let conn = agent.pool().read().await.map_err(|e| e.to_string())?;
                    conn.query_row("SELECT COUNT(*) FROM t", [], |r| r.get(0)).map_err(|e| e.to_string())?
                };
                if n == want {
                    break;
                }
                if std::time::Instant::now() > deadline {
                    return Ok(Some(format!("stuck: buffered versions were not applied: {n}/{want} rows after {WEDGE:?}")));
                }
                tokio::time::sleep(Duration::from_millis(20)).await;
            }
            Ok(None)
        });
        let _ = trip_tx.try_send(());
        rt.shutdown_timeout(Duration::from_secs(2));
        match res? {
            None => Ok(expect.clone()),
            Some(f) => {
                fails.push(f);
                Ok("stuck".into())
            }
        }
    })();
    let _ = std::fs::remove_dir_all(&dir);
    match out {
        Ok(o) => Some((o, fails, true)),
        Err(e) => Some((format!("err {}", e.chars().take(80).collect::<String>().replace(' ', "_")), vec![format!("agent family could not run: {e}")], false)),
    }
}

// ------------------------------------------------------------------ generators

fn prio_tok(rng: &mut Rng) -> &'static str {
    match rng.below(3) {
        0 => "p",
        1 => "n",
        _ => "l",
    }
}

/// random walk over the sched ops; the generator only tracks which ids exist / were dropped by `drop`
fn gen_sched(rng: &mut Rng, tier: Tier) -> Vec<String> {
    let max_reqs = match tier {
        Tier::Quick => rng.range(3, 9),
        Tier::Thorough => rng.range(3, 14),
    };
    let len = rng.range(10, 45) as usize;
    let mut ops: Vec<String> = vec![];
    let mut live: Vec<u64> = vec![];
    let mut next = 0u64;
    let mut ext = false;
    while ops.len() < len {
        match rng.below(100) {
            0..=27 if next < max_reqs => {
                ops.push(format!("req {next} {}", prio_tok(rng)));
                live.push(next);
                next += 1;
            }
            0..=27 => ops.push("run".into()),
            28..=45 => {
                ops.push("run".into());
                if rng.chance(3, 5) && !live.is_empty() {
                    let mut order = live.clone();
                    rng.shuffle(&mut order);
                    for id in order {
                        ops.push(format!("poll {id}"));
                    }
                }
            }
            46..=60 if !live.is_empty() => ops.push(format!("poll {}", rng.pick(&live))),
            61..=72 if !live.is_empty() => {
                let i = rng.below(live.len() as u64) as usize;
                let id = live.remove(i);
                ops.push(format!("drop {id}"));
            }
            73..=84 => {
                ops.push("dropheld".into());
                if rng.chance(2, 3) {
                    ops.push("run".into());
                }
            }
            85..=90 => {
                ops.push(if ext { "ext release".into() } else { "ext take".into() });
                ext = !ext;
            }
            91..=93 => ops.push(if rng.chance(1, 2) { "ext take".into() } else { "ext release".into() }),
            94..=97 => ops.push("state".into()),
            _ if next > 0 => ops.push(format!("poll {}", rng.below(next))),
            _ => ops.push("run".into()),
        }
    }
    ops.push("state".into());
    ops
}

fn gen_agent(rng: &mut Rng) -> Vec<String> {
    let cap = rng.range(1, 3);
    let k = cap + rng.range(2, 5);
    vec![format!("agent {cap} {k} {} {}", rng.range(1, 3), rng.range(0, 2))]
}

fn gen_stress(rng: &mut Rng, tier: Tier) -> Vec<String> {
    let threads = rng.range(1, 6);
    let n = match tier {
        Tier::Quick => rng.range(4, 24),
        Tier::Thorough => rng.range(4, 48),
    };
    let specs: Vec<String> = (0..n)
        .map(|_| {
            let hold = match rng.below(4) {
                0 => 0,
                1 => rng.range(1, 200),
                2 => rng.range(200, 1500),
                _ => rng.range(1, 4000),
            };
            let cancel = if rng.chance(1, 3) { format!("{}", rng.range(0, 6000)) } else { "-".into() };
            format!("{}:{hold}:{cancel}", prio_tok(rng))
        })
        .collect();
    vec![format!("stress {threads} {}", specs.join(";"))]
}

impl Prop for C20 {
    fn id(&self) -> &'static str {
        "C20"
    }
    fn rule(&self) -> &'static str {
        "one case = one schedule. sched: op lines (req/run/poll/drop/dropheld/ext/state) steering the real SplitPool on a \
         current-thread runtime; non-trivial iff at least two requests were granted, at least one future or connection was \
         dropped by the schedule and some request was polled while another held the connection. stress: one line with \
         N real concurrent requesters on a multi-thread runtime; non-trivial iff at least two were granted. agent: one line \
         `agent <apply_channel_len> <k versions> <first chunk size> <local writes>` run on a real agent; non-trivial iff it ran. \
         distinct by hash of the op lines"
    }
    fn default_cases(&self, tier: Tier) -> usize {
        match tier {
            Tier::Quick => 230,
            Tier::Thorough => 5300,
        }
    }
    fn enumerated_case(&self, _tier: Tier, index: usize) -> Option<Vec<String>> {
        // exhaustive small scope: a holder, three queued requests of every class combination (27),
        // none or one of them cancelled while queued (4); then the holder releases and the queue drains
        if index == 27 * 4 {
            // the smallest wedge shape: apply queue of one entry, one batch completing four versions
            return Some(vec!["agent 1 4 2 1".into()]);
        }
        if index == 27 * 4 + 1 {
            return Some(vec!["agent 2 6 1 2".into()]);
        }
        if index > 27 * 4 + 1 {
            return None;
        }
        let classes = ["p", "n", "l"];
        let (mut c, cancel) = (index / 4, index % 4);
        let mut ops = vec!["req 0 l".to_string(), "run".into(), "poll 0".into()];
        for id in 1..=3 {
            ops.push(format!("req {id} {}", classes[c % 3]));
            c /= 3;
        }
        ops.push("run".into());
        if cancel > 0 {
            ops.push(format!("drop {cancel}"));
        }
        ops.push("state".into());
        for _ in 0..3 {
            ops.push("dropheld".into());
            ops.push("run".into());
            for id in 1..=3 {
                ops.push(format!("poll {id}"));
            }
        }
        ops.push("state".into());
        Some(ops)
    }
    fn gen_case(&self, rng: &mut Rng, tier: Tier, index: usize) -> Vec<String> {
        // about one case in eight is a real-threads stress case
        if index % 8 == 7 {
            gen_stress(rng, tier)
        } else if index % 48 == 3 {
            gen_agent(rng)
        } else {
            gen_sched(rng, tier)
        }
    }
    fn exec_case(&self, ops: &[String]) -> CaseResult {
        // `stress` and `agent` lines are cases of their own (own runtime); everything else is one schedule
        let standalone = |o: &str| o.starts_with("stress") || o.starts_with("agent");
        let run_alone = |o: &str| -> (String, Vec<String>, bool, &'static str) {
            let toks: Vec<&str> = o.split_whitespace().collect();
            let (res, tag) = if toks[0] == "stress" {
                (if toks.len() == 3 { run_stress(&toks) } else { None }, "stress")
            } else if toks[0] == "agent" {
                (if toks.len() == 5 { run_agent(&toks) } else { None }, "agent")
            } else {
                (None, "")
            };
            match res {
                Some((out, fails, nt)) => (out, fails, nt, tag),
                None => ("bad-op".into(), vec![], false, tag),
            }
        };
        if !ops.iter().any(|o| standalone(o)) {
            return run_sched(ops);
        }
        let sched_ops: Vec<String> = ops.iter().filter(|o| !standalone(o)).cloned().collect();
        let mut sched = if sched_ops.is_empty() { CaseResult::default() } else { run_sched(&sched_ops) };
        let mut it = std::mem::take(&mut sched.outputs).into_iter();
        let mut r = CaseResult { oracle_failures: sched.oracle_failures, nontrivial: sched.nontrivial, tags: sched.tags, ..Default::default() };
        for o in ops {
            if standalone(o) {
                let (out, fails, nt, tag) = run_alone(o);
                r.outputs.push(out);
                r.oracle_failures.extend(fails);
                r.nontrivial |= nt;
                if !tag.is_empty() {
                    r.tags.push(tag.into());
                }
            } else {
                r.outputs.push(it.next().unwrap_or_else(|| "impl-missing-output".into()));
            }
        }
        r
    }
    fn begin(&self) {
        let _ = std::fs::create_dir_all(format!("{TMP_ROOT}/c20-{}", std::process::id()));
    }
    fn end(&self) {
        let _ = std::fs::remove_dir_all(format!("{TMP_ROOT}/c20-{}", std::process::id()));
    }
}
