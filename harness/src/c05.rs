//! C05 — a sync server only sends what it holds and never declares unknown versions empty.
//! Server states are GROWN by the real ingest path (cluster kit), then every kind of need is sent
//! through the REAL `process_sync` (filter + `handle_need` jobs) with `nserve`.
use crate::cluster::{Cluster, GenMix, gen_cluster_case};
use crate::rng::Rng;
use crate::runner::{CaseResult, Prop, Tier};

pub struct C05;

fn gen_ops(rng: &mut Rng, tier: Tier) -> Vec<String> {
    let mix = GenMix {
        nodes: (2, 3),
        ops: if tier == Tier::Thorough { (8, 30) } else { (6, 18) },
        crash: false,
        partial_chunks: true,
        lossy_sync: true,
    };
    let mut ops = gen_cluster_case(rng, &mix);
    // drop the closing "everybody syncs with everybody" block: we want servers in mixed states
    while ops.last().map(|o| o.starts_with("ndump") || o.starts_with("nsync")).unwrap_or(false) {
        ops.pop();
    }
    // scripted addition: make sure some server holds PARTIALLY BUFFERED versions (head only / head and tail / middle
    // only) of a multi-row transaction of a dedicated origin (node 3), and ask for ranges inside, overlapping and
    // reaching past what is buffered
    {
        ops.push(format!(
            "nw 3 ins:t:i4:a=t{:02x},b=i1;ins:t:i5:a=t62,b=i2;ins:u:i4+t61:x=t78;ins:u:i4+t62:x=t79",
            rng.range(0x61, 0x79)
        )); // version 1 of node 3: seqs 0..=5
        let shape = rng.below(3);
        let holder = rng.below(2); // server 0 or 1
        match shape {
            0 => ops.push(format!("nb {holder} o:3:1:0-{}", rng.range(0, 3))),
            1 => {
                ops.push(format!("nb {holder} o:3:1:0-{}", rng.range(0, 1)));
                ops.push(format!("nb {holder} o:3:1:{}-5", rng.range(4, 5)));
            }
            _ => ops.push(format!("nb {holder} o:3:1:{}-{}", rng.range(1, 2), rng.range(3, 4))),
        }
        ops.push(format!("ndump {holder}"));
        for spec in ["0-5", "0-0", "1-2", "2-5", "3-9", "0-1,4-5", "2-2,3-3", "5-8", "1-4"] {
            if rng.chance(3, 4) {
                ops.push(format!("nserve {holder} 3 P1:{spec}"));
            }
        }
        ops.push(format!("nserve {holder} 3 F1-1"));
    }
    let n = ops.iter().filter_map(|o| o.split_whitespace().nth(1).and_then(|x| x.parse::<usize>().ok()).filter(|x| *x < 3)).max().unwrap_or(1) + 1;
    for server in 0..n.min(3) {
        ops.push(format!("ndump {server}"));
        for site in 0..n.min(3) {
            // full needs: every sub-range of 1..=4 plus a few random ones reaching beyond typical heads
            let top = 4u64;
            for lo in 1..=top {
                for hi in lo..=top {
                    if rng.chance(2, 3) {
                        ops.push(format!("nserve {server} {site} F{lo}-{hi}"));
                    }
                }
            }
            for v in 1..=top {
                let k = rng.below(4);
                let spec = match k {
                    0 => "0-0".to_string(),
                    1 => format!("{}-{}", rng.range(0, 2), rng.range(2, 6)),
                    2 => format!("0-{},{}-{}", rng.range(0, 1), rng.range(3, 4), rng.range(4, 7)),
                    _ => format!("{}-{}", rng.range(1, 3), rng.range(3, 5)),
                };
                ops.push(format!("nserve {server} {site} P{v}:{spec}"));
            }
        }
    }
    ops
}

impl Prop for C05 {
    fn id(&self) -> &'static str {
        "C05"
    }
    fn rule(&self) -> &'static str {
        "one case = a server state grown by real local writes, chunked deliveries and lossy sync sessions on 2-3 real agents, \
         then Full needs over sub-ranges of 1..=4 and Partial needs with assorted seq ranges for every (server, actor) through the \
         real process_sync; non-trivial iff at least one answer carried changes and at least one was silent or Empty; distinct by hash"
    }
    fn default_cases(&self, tier: Tier) -> usize {
        match tier {
            Tier::Quick => 40,
            Tier::Thorough => 800,
        }
    }
    fn gen_case(&self, rng: &mut Rng, tier: Tier, _index: usize) -> Vec<String> {
        gen_ops(rng, tier)
    }
    fn exec_case(&self, ops: &[String]) -> CaseResult {
        let mut r = CaseResult::default();
        let mut cl = Cluster::new("c05");
        let mut last_dump: std::collections::BTreeMap<String, String> = Default::default();
        let (mut with_changes, mut silent) = (0, 0);
        for op in ops {
            let toks: Vec<&str> = op.split_whitespace().collect();
            let out = cl.exec(&toks).unwrap_or_else(|| "bad-op".into());
            if out.starts_with("inconclusive") {
                r.inconclusive = Some(out.clone());
            }
            match toks.as_slice() {
                ["ndump", n] => {
                    last_dump.insert(n.to_string(), out.clone());
                }
                ["nserve", n, site, need] if out.starts_with("ok msgs=") => {
                    if let Some(d) = last_dump.get(*n) {
                        for f in check_answer(d, site, need, &out[8..]) {
                            r.oracle_failures.push(format!("{f} (op `{op}`)"));
                        }
                    }
                    if out.contains('@') {
                        with_changes += 1;
                    }
                    if out == "ok msgs=-" || out.contains(";E") || out.starts_with("ok msgs=E") {
                        silent += 1;
                    }
                }
                _ => {}
            }
            r.outputs.push(out);
        }
        r.nontrivial = with_changes > 0 && silent > 0;
        r
    }
}

/// bookkeeping of actor `site` in a dump: (max, needed ranges, seq rows (ver, lo, hi, last), buffered (ver, seq))
fn book_of(dump: &str, site: &str) -> (u64, Vec<(u64, u64)>, Vec<(u64, u64, u64, u64)>, Vec<(u64, u64)>) {
    let sect = |name: &str| -> String {
        dump.split(&format!("{name}[")).nth(1).and_then(|x| x.split(']').next()).unwrap_or("").to_string()
    };
    let mut max = 0;
    for ent in sect("mem").split(" a").map(|e| e.trim_start_matches('a')) {
        if let Some(rest) = ent.strip_prefix(&format!("{site} ")) {
            if let Some(m) = rest.split("max=").nth(1).and_then(|x| x.split(' ').next()) {
                max = m.parse().unwrap_or(0);
            }
        }
    }
    let nums = |s: &str| -> Vec<u64> { s.split(':').filter_map(|x| x.parse().ok()).collect() };
    let gaps: Vec<(u64, u64)> = sect("gaps").split(',').filter(|e| e.starts_with(&format!("{site}:"))).map(|e| { let v = nums(e); (v[1], v[2]) }).collect();
    let seqs: Vec<(u64, u64, u64, u64)> = sect("seqs").split(',').filter(|e| e.starts_with(&format!("{site}:"))).map(|e| { let v = nums(e); (v[1], v[2], v[3], v[4]) }).collect();
    let buf: Vec<(u64, u64)> = sect("buf").split(',').filter(|e| e.starts_with(&format!("{site}:"))).map(|e| { let v = nums(e); (v[1], v[2]) }).collect();
    (max, gaps, seqs, buf)
}

/// live (ver, seq) entries attributed to `site` in the store part of a dump
fn live_of(dump: &str, site: &str) -> Vec<(u64, u64)> {
    dump.split(" | ")
        .next()
        .unwrap_or("")
        .split(';')
        .filter_map(|e| {
            let clock = e.rsplit_once('@')?.1;
            let p: Vec<&str> = clock.split('.').collect();
            if p.len() == 5 && p[2] == site { Some((p[3].parse().ok()?, p[4].parse().ok()?)) } else { None }
        })
        .collect()
}

/// the property, on what the real server sent
fn check_answer(dump: &str, site: &str, need: &str, msgs: &str) -> Vec<String> {
    let mut fails = vec![];
    let (max, gaps, seqrows, buf) = book_of(dump, site);
    let live = live_of(dump, site);
    let in_gaps = |v: u64| gaps.iter().any(|(a, b)| *a <= v && v <= *b);
    let requested: Vec<u64> = if let Some(r) = need.strip_prefix('F') {
        let (a, b) = crate::util::parse_range(r).unwrap_or((1, 0));
        (a..=b).collect()
    } else {
        need[1..].split(':').next().and_then(|v| v.parse().ok()).into_iter().collect()
    };
    if msgs == "-" {
        // silent: fine when nothing requested is held; a fully held requested version within the head must be answered
        if need.starts_with('F') {
            for v in &requested {
                if *v <= max && !in_gaps(*v) && live.iter().any(|(lv, _)| lv == v) {
                    fails.push(format!("server stayed silent about version {v} it holds with live changes"));
                }
            }
        }
        return fails;
    }
    for m in msgs.split(';') {
        if let Some(rest) = m.strip_prefix('E') {
            let (s, range) = rest.split_once(':').unwrap_or(("", ""));
            let (a, b) = crate::util::parse_range(range).unwrap_or((1, 0));
            if s != site {
                fails.push(format!("answer about another actor: {m}"));
            }
            for v in a..=b {
                if !requested.contains(&v) {
                    fails.push(format!("version {v} declared empty but not requested"));
                }
                if v <= max {
                    // within the advertised head: must be held with no live change
                    if in_gaps(v) {
                        fails.push(format!("version {v} declared empty although the server lists it as needed"));
                    }
                    if seqrows.iter().any(|r| r.0 == v) || buf.iter().any(|r| r.0 == v) {
                        fails.push(format!("version {v} declared empty although the server holds it only partially"));
                    }
                    if live.iter().any(|(lv, _)| *lv == v) {
                        fails.push(format!("version {v} declared empty although it has live changes"));
                    }
                }
            }
        } else if let Some(rest) = m.strip_prefix('F') {
            // F<site>:<ver>:<lo>-<hi>/<last>:<changes>
            let p: Vec<&str> = rest.splitn(4, ':').collect();
            if p.len() < 4 {
                fails.push(format!("unparsable message {m}"));
                continue;
            }
            let ver: u64 = p[1].parse().unwrap_or(0);
            let (range, last) = p[2].split_once('/').unwrap_or(("", ""));
            let (lo, hi) = crate::util::parse_range(range).unwrap_or((1, 0));
            let last: u64 = last.parse().unwrap_or(0);
            if p[0] != site || !requested.contains(&ver) {
                fails.push(format!("changeset for something not requested: {m}"));
            }
            if lo > hi {
                fails.push(format!("inverted sequence range in {m}"));
            }
            if in_gaps(ver) {
                fails.push(format!("changes sent for version {ver} the server lists as needed"));
            }
            let applied = live.iter().any(|(lv, _)| *lv == ver);
            if need.starts_with('F') && applied && (lo != 0 || hi != last) {
                fails.push(format!("fully held version {ver} not sent as one range tiling 0..=last_seq: {lo}-{hi}/{last}"));
            }
            let mut sent_seqs = vec![];
            if p[3] != "-" {
                for c in p[3].split(',') {
                    let clock = c.rsplit_once('@').map(|x| x.1).unwrap_or("");
                    let q: Vec<&str> = clock.split('.').collect();
                    if q.len() != 5 {
                        continue;
                    }
                    let (cs, cv, cseq): (&str, u64, u64) = (q[2], q[3].parse().unwrap_or(0), q[4].parse().unwrap_or(0));
                    if cs != site || cv != ver {
                        fails.push(format!("change of another version/actor inside {m}"));
                    }
                    if cseq < lo || cseq > hi {
                        fails.push(format!("change seq {cseq} outside its changeset's range {lo}-{hi}"));
                    }
                    sent_seqs.push(cseq);
                }
            }
            if applied {
                let want: Vec<u64> = { let mut w: Vec<u64> = live.iter().filter(|(lv, s)| *lv == ver && *s >= lo && *s <= hi).map(|x| x.1).collect(); w.sort(); w };
                if sent_seqs != want {
                    fails.push(format!("live changes of version {ver} in {lo}-{hi} are {want:?} but {sent_seqs:?} were sent"));
                }
            } else {
                // buffered: only buffered rows inside the server's own sequence rows
                for s in &sent_seqs {
                    if !buf.iter().any(|(bv, bs)| *bv == ver && bs == s) {
                        fails.push(format!("seq {s} of partially held version {ver} sent but not buffered"));
                    }
                }
                if !seqrows.iter().any(|r| r.0 == ver && r.1 <= lo && hi <= r.2) {
                    fails.push(format!("range {lo}-{hi} of partially held version {ver} is not inside a received range"));
                }
            }
        }
    }
    fails
}
