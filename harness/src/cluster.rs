//! Cluster kit: 2–4 REAL in-process agents (`start_with_config`), no gossip between them — the harness is
//! the network.  Local writes go through the real `api_v1_transactions`; deliveries through the real
//! `process_multiple_changes`; sync sessions use the real `generate_sync`, `compute_available_needs`
//! and `handle_need`; fully buffered versions are applied by the agent's own background loop
//! (`apply_fully_buffered_changes_loop`), the kit waits for quiescence on an observable condition.
//!
//! Ops (prefix `n`), all deterministic functions of the op lines:
//!   nw <n> <stmts>                     local transaction (write mini-language of crkit)
//!   nb <n> <item>|<item>|...           one delivered batch; item = o:<site>:<ver>:<lo>-<hi> (chunk of the
//!                                      ORIGINAL change list of (site,ver), with the original last_seq),
//!                                      e:<site>:<lo>-<hi> (Empty changeset), x:<site>:<ver>:<lo>-<hi>:<last>
//!                                      (chunk with NO changes)
//!   nsync <dst> <src> <all|rev|skip:i,j>   one sync session dst <- src
//!   nstate <n>                         generate_sync output
//!   ndump <n>                          store + bookkeeping dump
//!   nkill <n>                          stop the node's background loops (tripwire), keep its files
//!   nrestart <n>                       start a fresh agent on the same files
use std::collections::BTreeMap;
use std::path::PathBuf;
use std::time::{Duration, Instant};

use axum::Extension;
use klukai_agent::agent::{process_multiple_changes, start_with_config};
use klukai_agent::api::peer::verif_hooks::{handle_need, process_sync};
use klukai_agent::api::public::{TimeoutParams, api_v1_transactions};
use klukai_types::actor::ActorId;
use klukai_types::agent::{Agent, Bookie};
use klukai_types::api::Statement;
use klukai_types::base::{CrsqlDbVersion, CrsqlSeq};
use klukai_types::broadcast::{ChangeSource, ChangeV1, Changeset, Timestamp};
use klukai_types::change::Change;
use klukai_types::config::Config;
use klukai_types::sqlite::CrConn;
use klukai_types::sync::{SyncMessage, SyncMessageV1, SyncNeedV1, SyncStateV1, generate_sync};
use klukai_types::tripwire::Tripwire;

use crate::crkit::*;
use crate::util::{show_list, show_ranges};

pub const MAX_NODES: usize = 6;

pub struct Node {
    pub idx: usize,
    pub agent: Agent,
    pub bookie: Bookie,
    pub trip_tx: tokio::sync::mpsc::Sender<()>,
    pub alive: bool, // background loops running
}

pub struct Cluster {
    pub rt: tokio::runtime::Runtime,
    pub dir: TmpDir,
    pub nodes: BTreeMap<usize, Node>,
    /// original change list of (site, version) with its last_seq
    pub log: BTreeMap<(usize, i64), (Vec<Chg>, i64)>,
    pub failures: Vec<String>,
}

fn actor_of(i: usize) -> ActorId {
    ActorId(uuid::Uuid::from_bytes(site_id(i)))
}

fn sql_lit(v: &rusqlite::types::Value) -> String {
    match v {
        rusqlite::types::Value::Null => "NULL".into(),
        rusqlite::types::Value::Integer(i) => i.to_string(),
        rusqlite::types::Value::Real(r) => format!("{r:?}"),
        rusqlite::types::Value::Text(t) => format!("'{}'", t.replace('\'', "''")),
        rusqlite::types::Value::Blob(b) => format!("x'{}'", hex::encode(b)),
    }
}

/// renders a crkit statement to a literal SQL string
pub fn stmt_literal(stmt: &str) -> Option<String> {
    let (sql, params) = stmt_sql(stmt)?;
    let mut out = String::new();
    let mut it = params.iter();
    for ch in sql.chars() {
        if ch == '?' {
            out.push_str(&sql_lit(it.next()?));
        } else {
            out.push(ch);
        }
    }
    Some(out)
}

impl Cluster {
    pub fn new(tag: &str) -> Self {
        let rt = tokio::runtime::Builder::new_multi_thread().worker_threads(4).enable_all().build().expect("runtime");
        Cluster { rt, dir: TmpDir::new(tag), nodes: BTreeMap::new(), log: BTreeMap::new(), failures: vec![] }
    }

    fn node_dir(&self, i: usize) -> PathBuf {
        self.dir.path().join(format!("node{i}"))
    }

    pub fn db_path(&self, i: usize) -> PathBuf {
        self.node_dir(i).join("corrosion.db")
    }

    fn start_node(&mut self, i: usize) -> Result<(), String> {
        let nd = self.node_dir(i);
        let fresh = !nd.exists();
        if fresh {
            std::fs::create_dir_all(nd.join("schema")).map_err(|e| e.to_string())?;
            std::fs::write(nd.join("schema").join("v.sql"), VSCHEMA).map_err(|e| e.to_string())?;
            precreate_db(&self.db_path(i), site_id(i)).map_err(|e| e.to_string())?;
        }
        let conf: Config = Config::builder()
            .api_addr("127.0.0.1:0".parse().unwrap())
            .gossip_addr("127.0.0.1:0".parse().unwrap())
            .admin_path(nd.join("admin.sock").display().to_string())
            .db_path(self.db_path(i).display().to_string())
            .add_schema_path(nd.join("schema").display().to_string())
            .build()
            .map_err(|e| e.to_string())?;
        let (tripwire, worker, trip_tx) = Tripwire::new_simple();
        let (agent, bookie) = self.rt.block_on(async move {
            tokio::spawn(worker);
            let (agent, bookie, _transport, _handles) = start_with_config(conf, tripwire).await.map_err(|e| format!("{e:#}"))?;
            Ok::<_, String>((agent, bookie))
        })?;
        if agent.actor_id() != actor_of(i) {
            return Err(format!("node {i} came up with actor id {} instead of the fixed one", agent.actor_id()));
        }
        self.nodes.insert(i, Node { idx: i, agent, bookie, trip_tx, alive: true });
        Ok(())
    }

    pub fn ensure(&mut self, i: usize) -> Result<(), String> {
        if i >= MAX_NODES {
            return Err("bad node".into());
        }
        if !self.nodes.contains_key(&i) {
            self.start_node(i)?;
        }
        Ok(())
    }

    pub fn read_conn(&self, i: usize) -> rusqlite::Result<CrConn> {
        CrConn::init(rusqlite::Connection::open(self.db_path(i))?)
    }

    // ------------------------------------------------------------------ ops

    pub fn local_write(&mut self, n: usize, stmts: &str) -> String {
        let mut sts = vec![];
        for s in stmts.split(';') {
            match stmt_literal(s) {
                Some(sql) => sts.push(Statement::Simple(sql)),
                None => return "bad-op".into(),
            }
        }
        let agent = self.nodes[&n].agent.clone();
        let (status, resp) = self.rt.block_on(async move {
            api_v1_transactions(Extension(agent), axum::extract::Query(TimeoutParams { timeout: None }), axum::extract::Json(sts)).await
        });
        let resp = resp.0;
        if !status.is_success() {
            let msg = format!("{resp:?}");
            return if msg.contains("constraint") || msg.contains("UNIQUE") { "err constraint".into() } else { format!("err status-{}", status.as_u16()) };
        }
        match resp.version {
            None => "noop".into(),
            Some(v) => {
                let conn = self.read_conn(n).unwrap();
                let site = site_id(n).to_vec();
                let ver = v as i64;
                let mut chs = read_changes(&conn, "WHERE site_id = ? AND db_version = ? ORDER BY seq", &[&site, &ver]).unwrap();
                chs.sort_by_key(|c| c.seq);
                // the acknowledged transaction's real last_seq, as the node recorded it for its own broadcast:
                // highest seq of the version right after the commit
                let last = chs.iter().map(|c| c.seq).max().unwrap_or(0);
                let out = format!("ok v={v} {}", if chs.is_empty() { "-".to_string() } else { chs.iter().map(|c| c.show()).collect::<Vec<_>>().join(";") });
                self.log.insert((n, ver), (chs, last));
                out
            }
        }
    }

    fn to_change(c: &Chg) -> Change {
        Change {
            table: klukai_types::api::TableName(c.table.as_str().into()),
            pk: c.pk_raw.clone(),
            cid: klukai_types::api::ColumnName(c.cid.as_str().into()),
            val: c.val_raw.clone(),
            col_version: c.colv,
            db_version: CrsqlDbVersion(c.dbv as u64),
            seq: CrsqlSeq(c.seq as u64),
            site_id: c.site_raw.clone().try_into().unwrap_or([0u8; 16]),
            cl: c.cl,
        }
    }

    fn parse_item(&self, item: &str) -> Option<ChangeV1> {
        let p: Vec<&str> = item.split(':').collect();
        match p.as_slice() {
            ["o", site, ver, seqs] => {
                let site: usize = site.parse().ok()?;
                let ver: i64 = ver.parse().ok()?;
                let (chs, last) = self.log.get(&(site, ver))?;
                let (lo, hi) = chunk_spec(seqs, *last as u64)?;
                let changes: Vec<Change> = chs.iter().filter(|c| c.seq as u64 >= lo && c.seq as u64 <= hi).map(Self::to_change).collect();
                Some(ChangeV1 {
                    actor_id: actor_of(site),
                    changeset: Changeset::Full {
                        version: CrsqlDbVersion(ver as u64),
                        changes,
                        seqs: CrsqlSeq(lo)..=CrsqlSeq(hi),
                        last_seq: CrsqlSeq(*last as u64),
                        ts: Timestamp::from(1u64 << 32),
                    },
                })
            }
            ["x", site, ver, seqs, last] => {
                let site: usize = site.parse().ok()?;
                let (lo, hi) = crate::util::parse_range(seqs)?;
                Some(ChangeV1 {
                    actor_id: actor_of(site),
                    changeset: Changeset::Full {
                        version: CrsqlDbVersion(ver.parse().ok()?),
                        changes: vec![],
                        seqs: CrsqlSeq(lo)..=CrsqlSeq(hi),
                        last_seq: CrsqlSeq(last.parse().ok()?),
                        ts: Timestamp::from(1u64 << 32),
                    },
                })
            }
            ["e", site, vers] => {
                let site: usize = site.parse().ok()?;
                let (lo, hi) = crate::util::parse_range(vers)?;
                if lo == 0 || lo > hi {
                    return None;
                }
                Some(ChangeV1 { actor_id: actor_of(site), changeset: Changeset::Empty { versions: CrsqlDbVersion(lo)..=CrsqlDbVersion(hi), ts: None } })
            }
            _ => None,
        }
    }

    fn deliver(&mut self, n: usize, batch: Vec<ChangeV1>, src: ChangeSource) -> String {
        let node = &self.nodes[&n];
        let agent = node.agent.clone();
        let bookie = node.bookie.clone();
        let items: Vec<_> = batch.into_iter().map(|c| (c, src, Instant::now())).collect();
        let res = self.rt.block_on(async move { process_multiple_changes(agent, bookie, items, Duration::from_secs(60)).await });
        match res {
            Ok(()) => {
                if let Err(e) = self.wait_quiescent(n) {
                    return format!("inconclusive {e}");
                }
                "ok".into()
            }
            Err(e) => format!("err {}", err_short(&format!("{e}"))),
        }
    }

    pub fn deliver_items(&mut self, n: usize, items: &str) -> String {
        let mut batch = vec![];
        for it in items.split('|') {
            match self.parse_item(it) {
                Some(c) => batch.push(c),
                None => {
                    let p: Vec<&str> = it.split(':').collect();
                    if p.len() == 4 && p[0] == "o" {
                        let known = p[1].parse::<usize>().ok().zip(p[2].parse::<i64>().ok()).map(|k| self.log.contains_key(&k)).unwrap_or(false);
                        return if known { "err bad-chunk".into() } else { "err no-such-version".into() };
                    }
                    return "bad-op".into();
                }
            }
        }
        self.deliver(n, batch, ChangeSource::Broadcast)
    }

    /// wait until every fully buffered version of node `n` has been applied by the background loop and
    /// its buffered rows have been cleared (observable in the database), deadline 30 s
    pub fn wait_quiescent(&self, n: usize) -> Result<(), String> {
        let t0 = Instant::now();
        let conn = self.read_conn(n).map_err(|e| e.to_string())?;
        loop {
            // rows of __corro_seq_bookkeeping grouped per version whose ranges cover 0..=last_seq
            let mut st = conn
                .prepare("SELECT site_id, db_version, start_seq, end_seq, last_seq FROM __corro_seq_bookkeeping ORDER BY site_id, db_version, start_seq")
                .map_err(|e| e.to_string())?;
            let rows: Vec<(Vec<u8>, i64, i64, i64, i64)> = st
                .query_map([], |r| Ok((r.get(0)?, r.get(1)?, r.get(2)?, r.get(3)?, r.get(4)?)))
                .and_then(|it| it.collect())
                .map_err(|e| e.to_string())?;
            let mut per: BTreeMap<(Vec<u8>, i64), (Vec<(i64, i64)>, i64)> = BTreeMap::new();
            for (s, v, a, b, l) in rows {
                let e = per.entry((s, v)).or_insert((vec![], l));
                e.0.push((a, b));
                e.1 = e.1.max(l);
            }
            // (a) a version whose in-memory partial is complete is waiting for the background apply (only while the
            //     node's loops are alive); (b) rows of a version that has no incomplete in-memory partial are
            //     waiting for the (always running) clear loop
            let mut keys: std::collections::BTreeSet<(Vec<u8>, i64)> = per.keys().cloned().collect();
            {
                let mut st = conn.prepare("SELECT DISTINCT site_id, db_version FROM __corro_buffered_changes").map_err(|e| e.to_string())?;
                let more: Vec<(Vec<u8>, i64)> =
                    st.query_map([], |r| Ok((r.get(0)?, r.get(1)?))).and_then(|it| it.collect()).map_err(|e| e.to_string())?;
                keys.extend(more);
            }
            let mut pending = false;
            let node = &self.nodes[&n];
            for (s, v) in &keys {
                let actor = ActorId(uuid::Uuid::from_slice(s).map_err(|e| e.to_string())?);
                // Some(true) = complete partial, Some(false) = incomplete partial, None = no partial in memory
                let st: Option<bool> = self.rt.block_on(async {
                    let b = node.bookie.read::<&str, _>("verif", None).await.get(&actor).cloned();
                    match b {
                        Some(b) => {
                            let r = b.read::<&str, _>("verif", None).await;
                            r.partials.get(&CrsqlDbVersion(*v as u64)).map(|p| p.seqs.gaps(&(CrsqlSeq(0)..=p.last_seq)).count() == 0)
                        }
                        None => None,
                    }
                });
                match st {
                    Some(true) => {
                        if node.alive {
                            pending = true;
                        }
                    }
                    Some(false) => {}
                    None => pending = true,
                }
            }
            if !pending {
                return Ok(());
            }
            if t0.elapsed() > Duration::from_secs(30) {
                return Err("apply-of-buffered-version-timeout".into());
            }
            std::thread::sleep(Duration::from_millis(5));
        }
    }

    pub fn sync_state(&self, n: usize) -> SyncStateV1 {
        let node = &self.nodes[&n];
        self.rt.block_on(generate_sync(&node.bookie, node.agent.actor_id()))
    }

    pub fn show_state(st: &SyncStateV1) -> String {
        let mut heads: Vec<String> = st.heads.iter().map(|(a, h)| format!("{}:{}", site_index(a.0.as_bytes()), h.0)).collect();
        heads.sort();
        let mut need: Vec<String> = st
            .need
            .iter()
            .map(|(a, rs)| {
                let mut r: Vec<(u64, u64)> = rs.iter().map(|r| (r.start().0, r.end().0)).collect();
                r.sort();
                format!("{}:{}", site_index(a.0.as_bytes()), show_ranges(&r))
            })
            .collect();
        need.sort();
        let mut part: Vec<String> = vec![];
        for (a, m) in st.partial_need.iter() {
            for (v, rs) in m.iter() {
                let mut r: Vec<(u64, u64)> = rs.iter().map(|r| (r.start().0, r.end().0)).collect();
                r.sort();
                part.push(format!("{}:{}:{}", site_index(a.0.as_bytes()), v.0, show_ranges(&r)));
            }
        }
        part.sort();
        format!("heads={} need={} partial={}", show_list(&heads, ";"), show_list(&need, ";"), show_list(&part, ";"))
    }

    fn show_need(a: &ActorId, need: &SyncNeedV1) -> String {
        match need {
            SyncNeedV1::Full { versions } => format!("{}:F{}-{}", site_index(a.0.as_bytes()), versions.start().0, versions.end().0),
            SyncNeedV1::Partial { version, seqs } => {
                let r: Vec<(u64, u64)> = seqs.iter().map(|r| (r.start().0, r.end().0)).collect();
                format!("{}:P{}:{}", site_index(a.0.as_bytes()), version.0, show_ranges(&r))
            }
            SyncNeedV1::Empty { .. } => format!("{}:E", site_index(a.0.as_bytes())),
        }
    }

    pub fn show_msg(c: &ChangeV1) -> String {
        let s = site_index(c.actor_id.0.as_bytes());
        match &c.changeset {
            Changeset::Empty { versions, .. } => format!("E{s}:{}-{}", versions.start().0, versions.end().0),
            Changeset::EmptySet { versions, .. } => {
                let r: Vec<(u64, u64)> = versions.iter().map(|r| (r.start().0, r.end().0)).collect();
                format!("S{s}:{}", show_ranges(&r))
            }
            Changeset::Full { version, changes, seqs, last_seq, .. } => {
                let seqlist: Vec<String> = changes.iter().map(|c| c.seq.0.to_string()).collect();
                format!("F{s}:{}:{}-{}/{}:{}", version.0, seqs.start().0, seqs.end().0, last_seq.0, show_list(&seqlist, ","))
            }
        }
    }

    /// one sync session dst <- src with the real request computation and the real server lookup
    pub fn sync(&mut self, dst: usize, src: usize, filter: &str) -> String {
        let ours = self.sync_state(dst);
        let theirs = self.sync_state(src);
        let needs = ours.compute_available_needs(&theirs);
        let mut flat: Vec<(ActorId, SyncNeedV1)> = vec![];
        let mut actors: Vec<&ActorId> = needs.keys().collect();
        actors.sort();
        for a in actors {
            for n in &needs[a] {
                flat.push((*a, n.clone()));
            }
        }
        // partial needs come out of a HashMap: canonical order = per actor, Full needs by start version,
        // then Partial needs by version (the model sorts the same way)
        flat.sort_by_key(|(a, n)| {
            (*a, match n {
                SyncNeedV1::Full { versions } => (0u8, versions.start().0),
                SyncNeedV1::Partial { version, .. } => (1u8, version.0),
                SyncNeedV1::Empty { .. } => (2u8, 0),
            })
        });
        let need_txt: Vec<String> = flat.iter().map(|(a, n)| Self::show_need(a, n)).collect();
        // the server: process_sync's filter is part of C05's own op family; here every computed need is looked up
        let mut conn = match self.read_conn(src) {
            Ok(c) => c,
            Err(e) => return format!("err {e}"),
        };
        let mut msgs: Vec<ChangeV1> = vec![];
        for (a, n) in flat {
            let (tx, mut rx) = tokio::sync::mpsc::channel::<SyncMessage>(100_000);
            if let Err(e) = handle_need(&mut conn, a, n, &tx) {
                return format!("err handle_need: {}", err_short(&format!("{e}")));
            }
            drop(tx);
            while let Ok(m) = rx.try_recv() {
                if let SyncMessage::V1(SyncMessageV1::Changeset(c)) = m {
                    msgs.push(c);
                }
            }
        }
        let msg_txt: Vec<String> = msgs.iter().map(Self::show_msg).collect();
        let kept: Vec<ChangeV1> = match filter {
            "all" => msgs,
            "rev" => msgs.into_iter().rev().collect(),
            f if f.starts_with("skip:") => {
                let skip: Vec<usize> = f[5..].split(',').filter_map(|x| x.parse().ok()).collect();
                msgs.into_iter().enumerate().filter(|(i, _)| !skip.contains(i)).map(|(_, m)| m).collect()
            }
            _ => return "bad-op".into(),
        };
        let r = if kept.is_empty() { "ok".to_string() } else { self.deliver(dst, kept, ChangeSource::Sync) };
        format!("{r} needs={} msgs={}", show_list(&need_txt, ";"), show_list(&msg_txt, ";"))
    }

    /// `nserve <src> <site> <need>`: one request through the REAL `process_sync` (its own filter, its jobs
    /// calling `handle_need` on a pooled read connection); need = F<lo>-<hi> | P<ver>:<ranges>
    pub fn serve(&mut self, src: usize, site: usize, need: &str) -> String {
        let need = if let Some(r) = need.strip_prefix('F') {
            match crate::util::parse_range(r) {
                Some((lo, hi)) if lo >= 1 && lo <= hi => SyncNeedV1::Full { versions: CrsqlDbVersion(lo)..=CrsqlDbVersion(hi) },
                _ => return "bad-op".into(),
            }
        } else if let Some(r) = need.strip_prefix('P') {
            let Some((v, rs)) = r.split_once(':') else { return "bad-op".into() };
            let (Ok(v), Some(rs)) = (v.parse::<u64>(), crate::util::parse_ranges(rs)) else { return "bad-op".into() };
            if rs.is_empty() || rs.iter().any(|(a, b)| a > b) {
                return "bad-op".into();
            }
            SyncNeedV1::Partial { version: CrsqlDbVersion(v), seqs: rs.into_iter().map(|(a, b)| CrsqlSeq(a)..=CrsqlSeq(b)).collect() }
        } else {
            return "bad-op".into();
        };
        let node = &self.nodes[&src];
        let pool = node.agent.pool().clone();
        let bookie = node.bookie.clone();
        let actor = actor_of(site);
        let res: Result<Vec<ChangeV1>, String> = self.rt.block_on(async move {
            let (tx_msg, mut rx_msg) = tokio::sync::mpsc::channel::<SyncMessage>(100_000);
            let (tx_req, rx_req) = tokio::sync::mpsc::channel(8);
            let h = tokio::spawn(process_sync(pool, bookie, tx_msg, rx_req));
            tx_req.send(vec![(actor, vec![need])]).await.map_err(|e| e.to_string())?;
            drop(tx_req);
            match tokio::time::timeout(Duration::from_secs(30), h).await {
                Ok(Ok(Ok(()))) => {}
                Ok(Ok(Err(e))) => return Err(format!("{e}")),
                Ok(Err(e)) => return Err(format!("{e}")),
                Err(_) => return Err("timeout".into()),
            }
            let mut out = vec![];
            while let Ok(m) = rx_msg.try_recv() {
                if let SyncMessage::V1(SyncMessageV1::Changeset(c)) = m {
                    out.push(c);
                }
            }
            Ok(out)
        });
        match res {
            Ok(msgs) => {
                let txt: Vec<String> = msgs.iter().map(Self::show_msg_full).collect();
                format!("ok msgs={}", show_list(&txt, ";"))
            }
            Err(e) => format!("err {}", err_short(&e)),
        }
    }

    /// like `show_msg` but with the changes spelled out (C05 compares what is sent, not only seqs)
    pub fn show_msg_full(c: &ChangeV1) -> String {
        let s = site_index(c.actor_id.0.as_bytes());
        match &c.changeset {
            Changeset::Full { version, changes, seqs, last_seq, .. } => {
                let items: Vec<String> = changes
                    .iter()
                    .map(|ch| {
                        format!(
                            "{}/{}/{}={}@{}.{}.{}.{}.{}",
                            ch.table.0,
                            show_pk(&ch.pk),
                            ch.cid.0,
                            show_val(&ch.val),
                            ch.col_version,
                            ch.cl,
                            site_index(&ch.site_id),
                            ch.db_version.0,
                            ch.seq.0
                        )
                    })
                    .collect();
                format!("F{s}:{}:{}-{}/{}:{}", version.0, seqs.start().0, seqs.end().0, last_seq.0, show_list(&items, ","))
            }
            _ => Self::show_msg(c),
        }
    }

    pub fn dump(&self, n: usize) -> String {
        let conn = match self.read_conn(n) {
            Ok(c) => c,
            Err(e) => return format!("err {e}"),
        };
        let store = dump_db(&conn).unwrap_or_else(|e| format!("err {e}"));
        format!("{store} | {}", self.book_dump(n, &conn))
    }

    /// in-memory bookkeeping (through the real Bookie) and the durable rows
    pub fn book_dump(&self, n: usize, conn: &rusqlite::Connection) -> String {
        let node = &self.nodes[&n];
        let mem: Vec<String> = self.rt.block_on(async {
            let actors: Vec<(ActorId, klukai_types::agent::Booked)> =
                node.bookie.read::<&str, _>("verif", None).await.iter().map(|(k, v)| (*k, v.clone())).collect();
            let mut out = vec![];
            for (a, b) in actors {
                let r = b.read::<&str, _>("verif", None).await;
                let need: Vec<(u64, u64)> = r.needed().iter().map(|r| (r.start().0, r.end().0)).collect();
                let mut parts = vec![];
                for (v, p) in r.partials.iter() {
                    let s: Vec<(u64, u64)> = p.seqs.iter().map(|r| (r.start().0, r.end().0)).collect();
                    parts.push(format!("{}:{}/{}", v.0, show_ranges(&s), p.last_seq.0));
                }
                if r.last().is_none() && need.is_empty() && parts.is_empty() {
                    continue; // an actor that was only `ensure`d
                }
                out.push(format!(
                    "a{} max={} need={} part={}",
                    site_index(a.0.as_bytes()),
                    r.last().map(|v| v.0).unwrap_or(0),
                    show_ranges(&need),
                    show_list(&parts, ",")
                ));
            }
            out.sort();
            out
        });
        let q = |sql: &str| -> Vec<String> {
            let mut st = conn.prepare(sql).unwrap();
            let cols = st.column_count();
            let mut out = vec![];
            let mut rows = st.query([]).unwrap();
            while let Some(r) = rows.next().unwrap() {
                let mut f = vec![];
                for i in 0..cols {
                    f.push(match r.get_ref(i).unwrap() {
                        rusqlite::types::ValueRef::Blob(b) => site_index(b),
                        rusqlite::types::ValueRef::Integer(i) => i.to_string(),
                        other => format!("{other:?}"),
                    });
                }
                out.push(f.join(":"));
            }
            out.sort();
            out
        };
        let gaps = q("SELECT actor_id, start, end FROM __corro_bookkeeping_gaps");
        let seqs = q("SELECT site_id, db_version, start_seq, end_seq, last_seq FROM __corro_seq_bookkeeping");
        let buf = q("SELECT site_id, db_version, seq FROM __corro_buffered_changes");
        let dbv = q("SELECT site_id, db_version FROM crsql_db_versions");
        format!("mem[{}] gaps[{}] seqs[{}] buf[{}] dbv[{}]", mem.join(" "), gaps.join(","), seqs.join(","), buf.join(","), dbv.join(","))
    }

    pub fn kill(&mut self, n: usize) -> String {
        if let Some(node) = self.nodes.get_mut(&n) {
            let tx = node.trip_tx.clone();
            self.rt.block_on(async move {
                let _ = tx.send(()).await;
            });
            node.alive = false;
            // wait until the apply loop has really gone: its receiver is dropped, which a probe send observes
            // (a probe that is still accepted names an actor/version nobody knows and is ignored by the loop)
            let agent = node.agent.clone();
            let t0 = Instant::now();
            let mut closed = false;
            while t0.elapsed() < Duration::from_secs(10) {
                match agent.tx_apply().try_send((ActorId(uuid::Uuid::nil()), CrsqlDbVersion(0))) {
                    Err(tokio::sync::mpsc::error::TrySendError::Closed(_)) => {
                        closed = true;
                        break;
                    }
                    _ => std::thread::sleep(Duration::from_millis(5)),
                }
            }
            if closed { "ok".into() } else { "inconclusive loops-did-not-stop".into() }
        } else {
            "bad-op".into()
        }
    }

    pub fn restart(&mut self, n: usize) -> String {
        if let Some(old) = self.nodes.remove(&n) {
            if old.alive {
                let tx = old.trip_tx.clone();
                self.rt.block_on(async move {
                    let _ = tx.send(()).await;
                });
            }
            drop(old);
        }
        match self.start_node(n) {
            Ok(()) => match self.wait_quiescent(n) {
                Ok(()) => "ok".into(),
                Err(e) => format!("inconclusive {e}"),
            },
            Err(e) => format!("err restart: {}", err_short(&e)),
        }
    }

    pub fn shutdown(&mut self) {
        let txs: Vec<_> = self.nodes.values().map(|n| n.trip_tx.clone()).collect();
        self.rt.block_on(async move {
            for tx in txs {
                let _ = tx.send(()).await;
            }
        });
        self.nodes.clear();
    }

    /// executes one cluster op; `None` = not a cluster op
    pub fn exec(&mut self, toks: &[&str]) -> Option<String> {
        let pn = |s: &str| s.parse::<usize>().ok().filter(|x| *x < MAX_NODES);
        let out = match toks {
            ["nw", n, stmts] => {
                let n = pn(n)?;
                if let Err(e) = self.ensure(n) {
                    return Some(format!("err {e}"));
                }
                self.local_write(n, stmts)
            }
            ["nb", n, items] => {
                let n = pn(n)?;
                if let Err(e) = self.ensure(n) {
                    return Some(format!("err {e}"));
                }
                self.deliver_items(n, items)
            }
            ["nsync", d, s, f] => {
                let (d, s) = (pn(d)?, pn(s)?);
                if d == s {
                    return Some("bad-op".into());
                }
                for i in [d, s] {
                    if let Err(e) = self.ensure(i) {
                        return Some(format!("err {e}"));
                    }
                }
                self.sync(d, s, f)
            }
            ["nserve", n, site, need] => {
                let (n, site) = (pn(n)?, pn(site)?);
                if let Err(e) = self.ensure(n) {
                    return Some(format!("err {e}"));
                }
                self.serve(n, site, need)
            }
            ["tag", _] => "ok".into(),
            ["nstate", n] => {
                let n = pn(n)?;
                if let Err(e) = self.ensure(n) {
                    return Some(format!("err {e}"));
                }
                Self::show_state(&self.sync_state(n))
            }
            ["ndump", n] => {
                let n = pn(n)?;
                if let Err(e) = self.ensure(n) {
                    return Some(format!("err {e}"));
                }
                self.dump(n)
            }
            ["nkill", n] => {
                let n = pn(n)?;
                if let Err(e) = self.ensure(n) {
                    return Some(format!("err {e}"));
                }
                self.kill(n)
            }
            ["nrestart", n] => {
                let n = pn(n)?;
                if let Err(e) = self.ensure(n) {
                    return Some(format!("err {e}"));
                }
                self.restart(n)
            }
            _ => return None,
        };
        Some(out)
    }
}

impl Drop for Cluster {
    fn drop(&mut self) {
        self.shutdown();
    }
}

/// chunk spec of an `o:` item: `lo-hi`, `all` (= 0..=last) or `p<k>of<n>` (the k-th of n contiguous pieces of
/// 0..=last; `None` when that piece is empty)
pub fn chunk_spec(spec: &str, last: u64) -> Option<(u64, u64)> {
    if spec == "all" {
        return Some((0, last));
    }
    if let Some(rest) = spec.strip_prefix('p') {
        let (k, n) = rest.split_once("of")?;
        let (k, n): (u64, u64) = (k.parse().ok()?, n.parse().ok()?);
        if n == 0 || k >= n {
            return None;
        }
        let lo = k * (last + 1) / n;
        let hi1 = (k + 1) * (last + 1) / n;
        if hi1 <= lo {
            return None;
        }
        return Some((lo, hi1 - 1));
    }
    crate::util::parse_range(spec)
}

fn err_short(e: &str) -> String {
    let e = e.to_lowercase();
    if e.contains("unique") || e.contains("constraint") {
        "constraint".into()
    } else if e.contains("timed out") || e.contains("timeout") {
        "timeout".into()
    } else {
        let s: String = e.chars().filter(|c| c.is_ascii_alphanumeric() || *c == ' ').take(60).collect();
        s.replace(' ', "-")
    }
}

// ------------------------------------------------------------------ generator + convergence oracle

pub struct GenMix {
    pub nodes: (u64, u64),
    pub ops: (u64, u64),
    pub crash: bool,
    pub partial_chunks: bool,
    pub lossy_sync: bool,
}

fn gen_val(rng: &mut crate::rng::Rng, col: &str) -> String {
    match col {
        "b" => match rng.below(6) {
            0 => "n".into(),
            _ => format!("i{}", rng.range(0, 3)),
        },
        _ => match rng.below(8) {
            0 => "n".into(),
            1 => "t".into(),
            2 => format!("b{:02x}", rng.range(0x61, 0x63)),
            3 => format!("t{:02x}{:02x}", rng.range(0x61, 0x62), rng.range(0x61, 0x62)),
            _ => format!("t{:02x}", rng.range(0x61, 0x63)),
        },
    }
}

/// One statement for node `node`.  Sentinel-only changes (deletes, re-inserts, key-only-table rows) are kept
/// SINGLE-WRITER per row: row `i<k>` (tables t, k) and `k1 = k` (table u) with k in 1..=3 are inserted and
/// deleted only by node k-1, anybody may update them; rows i4/i5 (t) and k1 = 4 (u) are inserted and updated
/// by anybody and never deleted.  This keeps generated histories out of the two known C01 findings
/// (`equal-cl-sentinel-tie-empty-answer`, `relayed-sentinel-shares-seq`), whose pinned replays live in corpus/C01.
pub fn gen_stmt_for(rng: &mut crate::rng::Rng, node: usize) -> String {
    let own = node + 1; // owned key index (only for node < 3)
    let has_own = node < 3;
    let tbl = *rng.pick(&["t", "t", "t", "u", "k"]);
    let (_, cols) = table_cols(tbl).unwrap();
    let assigns = |rng: &mut crate::rng::Rng, force: bool| -> String {
        let mut a = vec![];
        for c in cols {
            if rng.chance(2, 3) {
                a.push(format!("{c}={}", gen_val(rng, c)));
            }
        }
        if force && a.is_empty() && !cols.is_empty() {
            a.push(format!("{}={}", cols[0], gen_val(rng, cols[0])));
        }
        if a.is_empty() { "-".into() } else { a.join(",") }
    };
    match tbl {
        "k" => {
            if !has_own {
                // nothing this node may do on the key-only table: update something else instead
                return format!("upd:t:i{}:{}", rng.range(1, 5), { let c = "a"; format!("{c}={}", gen_val(rng, c)) });
            }
            let kind = *rng.pick(&["ins", "ins", "del"]);
            if kind == "del" { format!("del:k:i{own}") } else { format!("ins:k:i{own}:-") }
        }
        "u" => {
            let k2 = format!("t{:02x}", rng.range(0x61, 0x62));
            match rng.below(6) {
                0 | 1 if has_own => format!("ins:u:i{own}+{k2}:{}", assigns(rng, false)),
                2 if has_own => format!("del:u:i{own}+{k2}"),
                3 => format!("ins:u:i4+{k2}:{}", assigns(rng, false)),
                _ => format!("upd:u:i{}+{k2}:{}", rng.range(1, 4), assigns(rng, true)),
            }
        }
        _ => match rng.below(8) {
            0 | 1 if has_own => format!("ins:t:i{own}:{}", assigns(rng, false)),
            2 if has_own => format!("del:t:i{own}"),
            3 => format!("ins:t:i{}:{}", rng.range(4, 5), assigns(rng, false)),
            _ => format!("upd:t:i{}:{}", rng.range(1, 5), assigns(rng, true)),
        },
    }
}

/// kept for callers that write on a fixed node 0
pub fn gen_stmt(rng: &mut crate::rng::Rng) -> String {
    gen_stmt_for(rng, 0)
}

/// a history of local writes, deliveries of original chunks, sync sessions (lossless, reversed or with
/// dropped messages), optional kill/restart; ends with "stop writes, restart the dead, three lossless
/// all-pairs sync rounds, dump everybody".
pub fn gen_cluster_case(rng: &mut crate::rng::Rng, mix: &GenMix) -> Vec<String> {
    let n = rng.range(mix.nodes.0, mix.nodes.1) as usize;
    let nops = rng.range(mix.ops.0, mix.ops.1);
    let mut ops = vec![];
    let mut vers = vec![0u64; n];
    let mut dead = vec![false; n];
    for _ in 0..nops {
        match rng.below(20) {
            0..=6 => {
                let node = rng.below(n as u64) as usize;
                if dead[node] {
                    continue;
                }
                let k = if rng.chance(1, 3) { rng.range(2, 4) } else { 1 };
                let st: Vec<String> = (0..k).map(|_| gen_stmt_for(rng, node)).collect();
                ops.push(format!("nw {node} {}", st.join(";")));
                vers[node] += 1;
            }
            7..=11 => {
                let site = rng.below(n as u64) as usize;
                if vers[site] == 0 {
                    continue;
                }
                let dst = rng.below(n as u64) as usize;
                if dst == site {
                    continue;
                }
                let cnt = rng.range(1, 3);
                let mut items = vec![];
                for _ in 0..cnt {
                    let ver = rng.range(1, vers[site]);
                    let spec = if mix.partial_chunks && rng.chance(1, 2) {
                        let parts = rng.range(2, 3);
                        format!("p{}of{parts}", rng.below(parts))
                    } else {
                        "all".to_string()
                    };
                    items.push(format!("o:{site}:{ver}:{spec}"));
                }
                // (Empty changesets are never invented here: claiming that a version is empty when it is not is
                //  outside the property — they only come out of the real `handle_need` during `nsync`)
                ops.push(format!("nb {dst} {}", items.join("|")));
            }
            12..=15 => {
                let d = rng.below(n as u64) as usize;
                let s = rng.below(n as u64) as usize;
                if d == s || dead[s] {
                    continue;
                }
                let f = if !mix.lossy_sync {
                    "all".to_string()
                } else {
                    match rng.below(6) {
                        0 => "rev".to_string(),
                        1 | 2 => format!("skip:{}", rng.below(3)),
                        _ => "all".to_string(),
                    }
                };
                ops.push(format!("nsync {d} {s} {f}"));
            }
            16 => ops.push(format!("ndump {}", rng.below(n as u64))),
            17 => ops.push(format!("nstate {}", rng.below(n as u64))),
            _ => {
                if !mix.crash {
                    continue;
                }
                let node = rng.below(n as u64) as usize;
                if dead[node] {
                    ops.push(format!("nrestart {node}"));
                    dead[node] = false;
                } else if rng.chance(1, 2) {
                    ops.push(format!("nkill {node}"));
                    dead[node] = true;
                } else {
                    ops.push(format!("nrestart {node}"));
                }
            }
        }
    }
    for (i, d) in dead.iter().enumerate() {
        if *d {
            ops.push(format!("nrestart {i}"));
        }
    }
    for _round in 0..3 {
        for d in 0..n {
            for s in 0..n {
                if d != s {
                    ops.push(format!("nsync {d} {s} all"));
                }
            }
        }
    }
    for i in 0..n {
        ops.push(format!("ndump {i}"));
    }
    ops
}

/// the property oracle on the implementation's own final dumps (the trailing block of `ndump` ops):
/// identical tables and identical (table, pk, cid, value, col_version, cl) sets on all nodes, no version
/// needed or partial anywhere, equal heads.
pub fn convergence_oracle(ops: &[String], outputs: &[String]) -> Vec<String> {
    let mut dumps: Vec<(String, String)> = vec![];
    for (op, out) in ops.iter().zip(outputs.iter()).rev() {
        let t: Vec<&str> = op.split_whitespace().collect();
        if t.first() == Some(&"ndump") {
            dumps.push((t[1].to_string(), out.clone()));
        } else {
            break;
        }
    }
    let mut fails = vec![];
    if dumps.len() < 2 {
        return fails;
    }
    let strip = |d: &str| -> (String, String, String) {
        let parts: Vec<&str> = d.split(" | ").collect();
        let ch = parts.first().copied().unwrap_or("");
        let rows = parts.get(1).copied().unwrap_or("").to_string();
        let book = parts.get(2).copied().unwrap_or("").to_string();
        let ents: Vec<String> = ch
            .split(';')
            .map(|e| {
                let (kv, clock) = e.rsplit_once('@').unwrap_or((e, ""));
                let mut p = clock.split('.');
                format!("{kv}@{}.{}", p.next().unwrap_or(""), p.next().unwrap_or(""))
            })
            .collect();
        (ents.join(";"), rows, book)
    };
    let (e0, r0, _) = strip(&dumps[0].1);
    for (n, d) in &dumps {
        let (e, r, book) = strip(d);
        if r != r0 {
            fails.push(format!("replicated tables differ at quiescence: node {n} vs node {}", dumps[0].0));
        } else if e != e0 {
            fails.push(format!("per-cell (col_version, cl) differ at quiescence: node {n} vs node {}", dumps[0].0));
        }
        if let Some(mem) = book.split("mem[").nth(1).and_then(|x| x.split(']').next()) {
            for ent in mem.split(" a").filter(|x| !x.is_empty()) {
                if !ent.contains("need=- ") {
                    fails.push(format!("node {n} still needs versions at quiescence: a{}", ent.trim_start_matches('a')));
                }
            }
        }
        if !book.contains("seqs[]") || !book.contains("buf[]") {
            fails.push(format!("node {n} still holds buffered / partial versions at quiescence"));
        }
    }
    fails.dedup();
    fails
}
