//! C13 — subscriptions survive a clean restart and are discarded after an unclean one.
//!
//! One REAL agent (`start_with_config`: HTTP API, broadcast loop, sync loop, change handlers) on a node
//! directory the kit controls.  Subscriptions are created and re-attached through the real HTTP API
//! (`POST /v1/subscriptions`, `GET /v1/subscriptions/{id}`), local writes go through the real
//! `api_v1_transactions` (in-process, so that a write can also complete while the API is already
//! shutting down, like an in-flight request).  The graceful stop replicates `command/agent.rs`:
//! trip the tripwire, await the API/changes handles, `subs_manager().drop_handles()`,
//! `wait_for_all_pending_handles()`.  An abrupt stop is an image of the node directory (database, WAL,
//! the whole subscriptions directory) copied at a quiescent point of a lifecycle phase — a fresh agent is
//! started on the copy; the thorough tier also SIGKILLs a child process running the same ops.
//!
//! Ops (every output is a deterministic function of the op lines):
//!   tag <name>               no effect (marks pinned cases of known findings)
//!   fill <n>                 n filler rows in `t` and `big` (makes the `slow` query's initial run last)
//!   sub <all|slow> [nowait]  subscribe; `nowait` returns at the first row (initial query still running)
//!   w <pk>=<v|x>,...         one local transaction on `t` (x = delete); waits for its match step and, when the
//!                            matcher can be brought to quiescence, for that
//!   wp <pk>=<v|x>,...        the same, leaving the candidates waiting in the matcher
//!   hold / release           occupy / free the node's read pool (a write's match step needs a read
//!                            connection, so it is deferred while the pool is held)
//!   sync                     wait until the matcher is quiescent (materialised rows = query result)
//!   trip                     tripwire + await the API/changes handles (first half of the binary's stop)
//!   wind                     `drop_handles()`; waits until the matcher has finished
//!   exit                     `wait_for_all_pending_handles()`; the process part of the node is gone
//!   graceful [fast]          trip + wind + exit; `fast`: without waiting for the matcher to notice the tripwire
//!   unsub [hold]             what `process_sub_channel` does when all listeners are gone for
//!                            MAX_UNSUB_TIME: `subs.remove(id)` + `handle.cleanup()`; `hold` keeps one more
//!                            handle clone alive (as a slow `catch_up_sub` would), so the matcher stays in
//!                            its drain with state `cancelled`
//!   drophold                 drop that clone
//!   plant                    a directory as `Matcher::new` leaves it before the schema commit
//!   snapshot <tag>           abrupt-stop image of the node directory
//!   restart <tag|live>       fresh agent on an image / on the live directory (after `exit`)
//!   subinfo                  found|404, state, rows vs query, last change id  (+ the property oracle)
//!   check                    oracle only (prints `ok`)
//!   kill idle|busy <ms>      thorough tier: the ops so far are run in a CHILD process (this executable again, env
//!                            HX_C13_CHILD_NODE) which is SIGKILLed <ms> later (`busy`: while it keeps writing keys
//!                            outside the ops' key space); the case continues on its directory (`restart live`)
//!   kill wind <us>           the child starts the stop sequence and is SIGKILLed <us> after drop_handles() began:
//!                            restored or removed, only `restart live` + `check` (oracle) follow
use std::collections::BTreeMap;
use std::path::{Path, PathBuf};
use std::sync::{Arc, Mutex};
use std::time::{Duration, Instant};

use axum::Extension;
use futures::StreamExt;
use klukai_agent::agent::start_with_config;
use klukai_agent::api::public::{TimeoutParams, api_v1_transactions};
use klukai_client::CorrosionApiClient;
use klukai_types::agent::Agent;
use klukai_types::api::sqlite::ChangeType;
use klukai_types::api::{ChangeId, QueryEvent, Statement};
use klukai_types::config::Config;
use klukai_types::pubsub::MatcherHandle;
use klukai_types::spawn::{PENDING_HANDLES, wait_for_all_pending_handles};
use klukai_types::tripwire::Tripwire;
use uuid::Uuid;

use crate::crkit::{TmpDir, precreate_db, show_val, show_valref, site_id};
use crate::rng::Rng;
use crate::runner::{CaseResult, Prop, Tier};

pub struct C13;

const SCHEMA: &str = "CREATE TABLE t (id INTEGER NOT NULL PRIMARY KEY, b INTEGER);\nCREATE TABLE big (id INTEGER NOT NULL PRIMARY KEY, v INTEGER);\n";
/// keys the ops may write (the model's key space)
const PK_DOMAIN: u64 = 32;
const FILL_BASE: u64 = 1000;
const LONG: Duration = Duration::from_secs(30);
const PLANT_ID: u128 = 0x0c13_0c13_0c13_4c13_8c13_0c13_0c13_0c13;

fn query_sql(qid: &str) -> Option<(&'static str, usize)> {
    match qid {
        "all" => Some(("SELECT id, b FROM t WHERE id < 1000", 2)),
        // no index can serve `big.v + 0 = t.id + 0`: a nested loop over |t| x |big| rows
        "slow" => Some(("SELECT t.id, t.b, big.id FROM t JOIN big ON big.v + 0 = t.id + 0", 3)),
        _ => None,
    }
}

// ------------------------------------------------------------------------------------------------
// what the matcher says about itself: "draining changes channel" = it has left its select loop
// ------------------------------------------------------------------------------------------------

fn draining() -> &'static Mutex<std::collections::HashSet<String>> {
    static D: std::sync::OnceLock<Mutex<std::collections::HashSet<String>>> = std::sync::OnceLock::new();
    D.get_or_init(|| Mutex::new(Default::default()))
}

struct DrainWatch;

#[derive(Default)]
struct MsgVisitor {
    msg: String,
    sub_id: String,
}

impl tracing::field::Visit for MsgVisitor {
    fn record_debug(&mut self, field: &tracing::field::Field, value: &dyn std::fmt::Debug) {
        match field.name() {
            "message" => self.msg = format!("{value:?}"),
            "sub_id" => self.sub_id = format!("{value:?}"),
            _ => {}
        }
    }
}

impl<S: tracing::Subscriber> tracing_subscriber::Layer<S> for DrainWatch {
    fn on_event(&self, event: &tracing::Event<'_>, _ctx: tracing_subscriber::layer::Context<'_, S>) {
        let m = event.metadata();
        if *m.level() != tracing::Level::INFO || !m.target().ends_with("pubsub") {
            return;
        }
        let mut v = MsgVisitor::default();
        event.record(&mut v);
        if v.msg == "draining changes channel" {
            draining().lock().unwrap().insert(v.sub_id);
        }
    }
}

fn install_watch() {
    use tracing_subscriber::prelude::*;
    static ONCE: std::sync::OnceLock<()> = std::sync::OnceLock::new();
    ONCE.get_or_init(|| {
        let _ = tracing_subscriber::registry().with(DrainWatch.with_filter(tracing_subscriber::filter::LevelFilter::INFO)).try_init();
    });
}

fn left_loop(id: Uuid) -> bool {
    draining().lock().unwrap().contains(&id.to_string())
}

// ------------------------------------------------------------------------------------------------
// client side of one subscription stream
// ------------------------------------------------------------------------------------------------

#[derive(Default, Clone)]
struct ClientState {
    /// rowid -> cells, folded from rows and change events
    view: BTreeMap<u64, Vec<String>>,
    rows_seen: usize,
    eoq: bool,
    last_id: u64,
    changes_seen: usize,
    err: Option<String>,
    ended: bool,
}

struct ClientStream {
    state: Arc<Mutex<ClientState>>,
    task: tokio::task::JoinHandle<()>,
}

impl Drop for ClientStream {
    fn drop(&mut self) {
        self.task.abort();
    }
}

fn cells_of(vals: &[klukai_types::api::SqliteValue]) -> Vec<String> {
    vals.iter().map(show_val).collect()
}

fn spawn_reader(mut stream: klukai_client::sub::SubscriptionStream<Vec<klukai_types::api::SqliteValue>>, init: ClientState) -> ClientStream {
    let state = Arc::new(Mutex::new(init));
    let st = state.clone();
    let task = tokio::spawn(async move {
        loop {
            match stream.next().await {
                Some(Ok(ev)) => {
                    let mut s = st.lock().unwrap();
                    match ev {
                        QueryEvent::Columns(_) => {
                            s.view.clear();
                            s.rows_seen = 0;
                        }
                        QueryEvent::Row(rowid, cells) => {
                            s.view.insert(rowid.0, cells_of(&cells));
                            s.rows_seen += 1;
                        }
                        QueryEvent::EndOfQuery { change_id, .. } => {
                            s.eoq = true;
                            if let Some(c) = change_id {
                                s.last_id = c.0;
                            }
                        }
                        QueryEvent::Change(kind, rowid, cells, id) => {
                            if id.0 != s.last_id + 1 {
                                let msg = format!("change id {} after {}", id.0, s.last_id);
                                s.err.get_or_insert(msg);
                            }
                            s.last_id = id.0;
                            s.changes_seen += 1;
                            match kind {
                                ChangeType::Insert | ChangeType::Update => {
                                    s.view.insert(rowid.0, cells_of(&cells));
                                }
                                ChangeType::Delete => {
                                    s.view.remove(&rowid.0);
                                }
                            }
                        }
                        QueryEvent::Error(e) => {
                            s.err.get_or_insert(format!("error event: {e}"));
                        }
                    }
                }
                Some(Err(e)) => {
                    let mut s = st.lock().unwrap();
                    s.err.get_or_insert(format!("stream error: {e}"));
                    s.ended = true;
                    return;
                }
                None => {
                    st.lock().unwrap().ended = true;
                    return;
                }
            }
        }
    });
    ClientStream { state, task }
}

// ------------------------------------------------------------------------------------------------
// one agent incarnation (own tokio runtime: nothing of a stopped agent survives in the process)
// ------------------------------------------------------------------------------------------------

struct Inc {
    rt: Option<tokio::runtime::Runtime>,
    dir: PathBuf,
    agent: Option<Agent>,
    handles: Vec<tokio::task::JoinHandle<()>>,
    trip_tx: tokio::sync::mpsc::Sender<()>,
    tripped: bool,
    wound: bool,
    exited: bool,
    held: Vec<klukai_types::sqlite_pool::Connection<klukai_types::sqlite::CrConn>>,
    clone_hold: Option<MatcherHandle>,
    stream: Option<ClientStream>,
}

fn db_path(dir: &Path) -> PathBuf {
    dir.join("corrosion.db")
}
fn subs_path(dir: &Path) -> PathBuf {
    dir.join("subscriptions")
}
fn sub_dir(dir: &Path, id: Uuid) -> PathBuf {
    subs_path(dir).join(id.as_simple().to_string())
}

fn start_inc(dir: &Path) -> Result<Inc, String> {
    let fresh = !dir.exists();
    if fresh {
        std::fs::create_dir_all(dir.join("schema")).map_err(|e| e.to_string())?;
        std::fs::write(dir.join("schema").join("v.sql"), SCHEMA).map_err(|e| e.to_string())?;
        precreate_db(&db_path(dir), site_id(0)).map_err(|e| e.to_string())?;
    }
    let conf: Config = Config::builder()
        .api_addr("127.0.0.1:0".parse().unwrap())
        .gossip_addr("127.0.0.1:0".parse().unwrap())
        .admin_path(dir.join("admin.sock").display().to_string())
        .db_path(db_path(dir).display().to_string())
        .add_schema_path(dir.join("schema").display().to_string())
        .build()
        .map_err(|e| e.to_string())?;
    let rt = tokio::runtime::Builder::new_multi_thread().worker_threads(4).enable_all().build().map_err(|e| e.to_string())?;
    let (tripwire, worker, trip_tx) = Tripwire::new_simple();
    let (agent, handles) = rt.block_on(async move {
        tokio::spawn(worker);
        let (agent, _bookie, _transport, handles) = start_with_config(conf, tripwire).await.map_err(|e| format!("start_with_config: {e:#}"))?;
        if fresh {
            // the join partners of the `slow` query: big(id, v) = (k, k) for every key the ops may write
            let sql = format!("INSERT INTO big (id, v) WITH RECURSIVE c(x) AS (SELECT 0 UNION ALL SELECT x + 1 FROM c WHERE x < {}) SELECT x, x FROM c", PK_DOMAIN - 1);
            let (status, _) = api_v1_transactions(Extension(agent.clone()), axum::extract::Query(TimeoutParams { timeout: None }), axum::extract::Json(vec![Statement::Simple(sql)])).await;
            if !status.is_success() {
                return Err(format!("could not create the join partners: {status}"));
            }
        }
        Ok::<_, String>((agent, handles))
    })?;
    if fresh {
        // its spawned broadcast task (a counted task) is done when the count has stopped moving
        let load = || PENDING_HANDLES.load(std::sync::atomic::Ordering::SeqCst);
        let (mut last, mut since, t0) = (load(), Instant::now(), Instant::now());
        while since.elapsed() < Duration::from_millis(40) && t0.elapsed() < Duration::from_secs(3) {
            std::thread::sleep(Duration::from_millis(4));
            let c = load();
            if c != last {
                last = c;
                since = Instant::now();
            }
        }
    }
    Ok(Inc {
        rt: Some(rt),
        dir: dir.to_path_buf(),
        agent: Some(agent),
        handles,
        trip_tx,
        tripped: false,
        wound: false,
        exited: false,
        held: vec![],
        clone_hold: None,
        stream: None,
    })
}

impl Inc {
    fn rt(&self) -> &tokio::runtime::Runtime {
        self.rt.as_ref().expect("runtime")
    }
    fn agent(&self) -> &Agent {
        self.agent.as_ref().expect("agent")
    }

    /// first half of the binary's stop: trip, await the API / changes handles
    fn trip(&mut self) -> Result<(), String> {
        if self.tripped {
            return Ok(());
        }
        self.tripped = true;
        // a client connection that stays open would keep the API's graceful shutdown waiting
        let tx = self.trip_tx.clone();
        let handles = std::mem::take(&mut self.handles);
        self.rt().block_on(async move {
            let _ = tx.send(()).await;
            for h in handles {
                match tokio::time::timeout(LONG, h).await {
                    Ok(_) => {}
                    Err(_) => return Err("a root handle (API / changes loop) did not finish within 30 s after the tripwire".to_string()),
                }
            }
            Ok(())
        })
    }

    /// `agent.subs_manager().drop_handles().await`
    fn wind(&mut self) {
        self.wound = true;
        self.clone_hold = None;
        let agent = self.agent().clone();
        self.rt().block_on(async move { agent.subs_manager().drop_handles().await });
    }

    /// `wait_for_all_pending_handles().await`, then the process is gone (runtime dropped)
    fn exit(&mut self) -> Result<(), String> {
        self.held.clear();
        self.stream = None;
        let t0 = Instant::now();
        self.rt().block_on(async {
            // (the function itself gives up after 60 s, like the binary)
            wait_for_all_pending_handles().await;
        });
        if std::env::var("HX_TIMING").is_ok() {
            eprintln!("       wait_for_all_pending_handles: {} ms", t0.elapsed().as_millis());
        }
        let left = PENDING_HANDLES.load(std::sync::atomic::Ordering::SeqCst);
        self.kill();
        if left != 0 {
            return Err(format!("{left} counted tasks still pending when wait_for_all_pending_handles gave up"));
        }
        Ok(())
    }

    /// drop everything of this incarnation without any shutdown protocol
    fn kill(&mut self) {
        self.exited = true;
        self.held.clear();
        self.stream = None;
        self.clone_hold = None;
        self.agent = None;
        self.handles.clear();
        if let Some(rt) = self.rt.take() {
            rt.shutdown_timeout(Duration::from_millis(300));
        }
        // counted futures of the dropped runtime give their counts back when they are dropped
        let t0 = Instant::now();
        while PENDING_HANDLES.load(std::sync::atomic::Ordering::SeqCst) != 0 && t0.elapsed() < Duration::from_secs(10) {
            std::thread::sleep(Duration::from_millis(5));
        }
    }
}

impl Drop for Inc {
    fn drop(&mut self) {
        if !self.exited {
            // orderly enough not to leave tasks behind: trip, then drop the runtime
            let tx = self.trip_tx.clone();
            if let Some(rt) = self.rt.as_ref() {
                rt.block_on(async move {
                    let _ = tx.send(()).await;
                });
            }
            self.kill();
        }
    }
}

// ------------------------------------------------------------------------------------------------
// reading the files
// ------------------------------------------------------------------------------------------------

fn open_ro(path: &Path) -> Result<rusqlite::Connection, String> {
    let c = rusqlite::Connection::open_with_flags(path, rusqlite::OpenFlags::SQLITE_OPEN_READ_ONLY | rusqlite::OpenFlags::SQLITE_OPEN_NO_MUTEX)
        .map_err(|e| format!("open {}: {e}", path.display()))?;
    let _ = c.busy_timeout(Duration::from_secs(5));
    Ok(c)
}

fn rows_of(conn: &rusqlite::Connection, sql: &str) -> Result<Vec<String>, String> {
    let mut st = conn.prepare(sql).map_err(|e| format!("{e} in {sql}"))?;
    let n = st.column_count();
    let mut q = st.query([]).map_err(|e| e.to_string())?;
    let mut out = vec![];
    while let Some(r) = q.next().map_err(|e| e.to_string())? {
        out.push((0..n).map(|i| show_valref(r.get_ref(i).unwrap())).collect::<Vec<_>>().join(","));
    }
    out.sort();
    Ok(out)
}

/// meta.state of a subscription directory: `nodir`, `nometa`, or the value
fn meta_state(node: &Path, id: Uuid) -> String {
    let p = sub_dir(node, id);
    if !p.exists() {
        return "nodir".into();
    }
    let f = p.join("sub.sqlite");
    if !f.exists() {
        return "nometa".into();
    }
    match open_ro(&f) {
        Ok(c) => match c.query_row("SELECT value FROM meta WHERE key = 'state'", [], |r| r.get::<_, String>(0)) {
            Ok(s) => s,
            Err(_) => "nometa".into(),
        },
        Err(_) => "nometa".into(),
    }
}

struct SubFiles {
    rows: Vec<String>,
    /// rowid -> cells
    by_rowid: BTreeMap<u64, Vec<String>>,
    max_id: u64,
    ids_contiguous: bool,
}

fn read_sub(node: &Path, id: Uuid, ncols: usize) -> Result<SubFiles, String> {
    let c = open_ro(&sub_dir(node, id).join("sub.sqlite"))?;
    let cols: Vec<String> = (0..ncols).map(|i| format!("col_{i}")).collect();
    let rows = rows_of(&c, &format!("SELECT {} FROM query", cols.join(",")))?;
    let mut by_rowid = BTreeMap::new();
    {
        let mut st = c.prepare(&format!("SELECT __corro_rowid, {} FROM query", cols.join(","))).map_err(|e| e.to_string())?;
        let mut q = st.query([]).map_err(|e| e.to_string())?;
        while let Some(r) = q.next().map_err(|e| e.to_string())? {
            let rid: i64 = r.get(0).map_err(|e| e.to_string())?;
            by_rowid.insert(rid as u64, (1..=ncols).map(|i| show_valref(r.get_ref(i).unwrap())).collect());
        }
    }
    let (n, mn, mx): (i64, i64, i64) =
        c.query_row("SELECT COUNT(*), COALESCE(MIN(id),0), COALESCE(MAX(id),0) FROM changes", [], |r| Ok((r.get(0)?, r.get(1)?, r.get(2)?))).map_err(|e| e.to_string())?;
    Ok(SubFiles { rows, by_rowid, max_id: mx as u64, ids_contiguous: n == 0 || (mn == 1 && mx == n) })
}

/// the subscription's query evaluated on the node database.  (`slow` is written so that SQLite cannot use an
/// index; the harness evaluates the same join with the index-friendly spelling of the same condition.)
fn node_rows(node: &Path, sql: &str) -> Result<Vec<String>, String> {
    let sql = if Some(sql) == query_sql("slow").map(|q| q.0) { "SELECT t.id, t.b, big.id FROM t JOIN big ON big.v = t.id WHERE t.id < 1000" } else { sql };
    rows_of(&open_ro(&db_path(node))?, sql)
}

fn copy_tree(src: &Path, dst: &Path) -> std::io::Result<()> {
    std::fs::create_dir_all(dst)?;
    for e in std::fs::read_dir(src)? {
        let e = e?;
        let name = e.file_name();
        let n = name.to_string_lossy();
        // the shared-memory index is rebuilt from the WAL; sockets are not files
        if n.ends_with("-shm") || n.ends_with(".sock") {
            continue;
        }
        let ft = e.file_type()?;
        if ft.is_dir() {
            copy_tree(&e.path(), &dst.join(&name))?;
        } else if ft.is_file() {
            std::fs::copy(e.path(), dst.join(&name))?;
        }
    }
    Ok(())
}

// ------------------------------------------------------------------------------------------------
// the world of one case
// ------------------------------------------------------------------------------------------------

#[derive(Clone, Copy, PartialEq, Debug)]
enum Origin {
    Fresh,
    /// restarted on the live directory after trip + drop_handles + wait_for_all_pending_handles
    Graceful,
    /// restarted on an image; `active`: the tracked subscription's matcher was still alive in the image
    Abrupt { active: bool },
}

#[derive(Clone)]
struct Track {
    id: Uuid,
    sql: &'static str,
    ncols: usize,
    client: ClientState,
    /// the matcher of this subscription has finished in the current incarnation (wind / unsub done)
    finished: bool,
    /// MAX(id) of the change log when the matcher finished
    last_at_finish: Option<u64>,
    unsubscribed: bool,
    /// transactions committed on `t` after the matcher finished or whose match step ran after it
    late_writes: usize,
    held_writes: usize,
    planted: bool,
    writes_since_restart: usize,
    /// unsubscribed in the CURRENT incarnation (not served although the directory is there: expected)
    unsub_here: bool,
}

struct Image {
    dir: PathBuf,
    track: Option<Track>,
    active: bool,
}

struct World {
    tmp: TmpDir,
    inc: Option<Inc>,
    node: PathBuf,
    images: BTreeMap<String, Image>,
    track: Option<Track>,
    origin: Origin,
    fails: Vec<String>,
    tags: Vec<String>,
    lifecycles: usize,
    n_dirs: usize,
    /// the initial query of the tracked subscription is known to have finished
    eoq: bool,
    /// keys with an accepted candidate that may not have been applied yet -> written after the tripwire?
    inflight: BTreeMap<u64, bool>,
    held_keys: Vec<u64>,
    inconclusive: Option<String>,
    /// the node's process was SIGKILLed (thorough tier): its directory is there, nothing runs
    dead: bool,
    /// killed somewhere inside the stop sequence: 1 = dead, 2 = restarted; only `restart live` and `check` make sense
    racy: u8,
}

fn wait_until<F: FnMut() -> Result<bool, String>>(deadline: Duration, mut f: F) -> Result<bool, String> {
    let t0 = Instant::now();
    loop {
        if f()? {
            return Ok(true);
        }
        if t0.elapsed() > deadline {
            return Ok(false);
        }
        std::thread::sleep(Duration::from_millis(4));
    }
}

impl World {
    fn new() -> Result<World, String> {
        let tmp = TmpDir::new("c13");
        let node = tmp.path().join("n0");
        Self::new_at(tmp, node, true)
    }

    fn new_at(tmp: TmpDir, node: PathBuf, start: bool) -> Result<World, String> {
        let inc = if start { Some(start_inc(&node)?) } else { None };
        Ok(World {
            tmp,
            inc,
            node,
            images: BTreeMap::new(),
            track: None,
            origin: Origin::Fresh,
            fails: vec![],
            tags: vec![],
            lifecycles: 0,
            n_dirs: 1,
            eoq: false,
            inflight: BTreeMap::new(),
            held_keys: vec![],
            inconclusive: None,
            dead: !start,
            racy: 0,
        })
    }

    fn up(&self) -> bool {
        self.inc.as_ref().map(|i| !i.exited).unwrap_or(false)
    }

    fn inc(&mut self) -> &mut Inc {
        self.inc.as_mut().expect("incarnation")
    }

    /// prefix of oracle messages: which known region (if any) the case is in
    fn prefix(&self) -> &'static str {
        match &self.track {
            Some(t) if t.unsubscribed && t.late_writes > 0 => "unsubscribed-sub-restored-stale: ",
            Some(t) if t.late_writes > 0 => "match-after-wind-down: ",
            _ => "lifecycle: ",
        }
    }

    fn fail(&mut self, msg: String) {
        let m = format!("{}{}", self.prefix(), msg);
        if !self.fails.contains(&m) {
            self.fails.push(m);
        }
    }

    // ---------------------------------------------------------------- writes

    fn exec_sql(&mut self, sqls: Vec<String>) -> Result<Option<u64>, String> {
        let inc = self.inc.as_ref().unwrap();
        let agent = inc.agent().clone();
        let sts: Vec<Statement> = sqls.into_iter().map(Statement::Simple).collect();
        let (status, resp) = inc.rt().block_on(async move { api_v1_transactions(Extension(agent), axum::extract::Query(TimeoutParams { timeout: None }), axum::extract::Json(sts)).await });
        if !status.is_success() {
            return Err(format!("transaction failed: {status} {:?}", resp.0.results));
        }
        Ok(resp.0.version)
    }

    /// waits until the spawned `broadcast_changes` of the last write (a counted task) has gone
    fn wait_match_step(&mut self, baseline: usize) {
        let ok = wait_until(Duration::from_secs(3), || Ok(PENDING_HANDLES.load(std::sync::atomic::Ordering::SeqCst) <= baseline)).unwrap_or(false);
        if !ok {
            self.tags.push("pending-count-unstable".into());
        }
    }

    fn op_fill(&mut self, n: u64) -> Result<String, String> {
        if !self.up() || self.track.is_some() || n == 0 || n > 20_000 {
            return Err("bad-op".into());
        }
        let base = PENDING_HANDLES.load(std::sync::atomic::Ordering::SeqCst);
        let hi = FILL_BASE + n - 1;
        self.exec_sql(vec![
            format!("INSERT INTO t (id, b) WITH RECURSIVE c(x) AS (SELECT {FILL_BASE} UNION ALL SELECT x + 1 FROM c WHERE x < {hi}) SELECT x, 0 FROM c"),
            format!("INSERT INTO big (id, v) WITH RECURSIVE c(x) AS (SELECT {FILL_BASE} UNION ALL SELECT x + 1 FROM c WHERE x < {hi}) SELECT x, -1 FROM c"),
            format!("INSERT OR IGNORE INTO big (id, v) WITH RECURSIVE c(x) AS (SELECT 0 UNION ALL SELECT x + 1 FROM c WHERE x < {}) SELECT x, x FROM c", PK_DOMAIN - 1),
        ])?;
        let t0 = Instant::now();
        let _ = wait_until(LONG, || Ok(PENDING_HANDLES.load(std::sync::atomic::Ordering::SeqCst) <= base));
        if t0.elapsed() > Duration::from_secs(5) {
            self.tags.push("slow-fill".into());
        }
        Ok("ok".into())
    }

    /// the number of counted tasks once it has stopped moving (everything the tripwire ends has ended)
    fn stable_count(&self) -> usize {
        let load = || PENDING_HANDLES.load(std::sync::atomic::Ordering::SeqCst);
        let (mut last, mut since, t0) = (load(), Instant::now(), Instant::now());
        loop {
            std::thread::sleep(Duration::from_millis(4));
            let c = load();
            if c != last {
                last = c;
                since = Instant::now();
            }
            if since.elapsed() >= Duration::from_millis(60) || t0.elapsed() > Duration::from_secs(2) {
                return c;
            }
        }
    }

    /// the matcher is a counted task: it has ended when the count has gone down by one
    fn wait_matcher_gone(&self, c0: usize) -> bool {
        wait_until(LONG, || Ok(PENDING_HANDLES.load(std::sync::atomic::Ordering::SeqCst) + 1 <= c0)).unwrap_or(false)
    }

    fn registered(&self) -> bool {
        match (&self.track, &self.inc) {
            (Some(t), Some(inc)) if !t.planted && !inc.exited => inc.agent().subs_manager().get(&t.id).is_some(),
            _ => false,
        }
    }

    /// the matcher can be brought to quiescence now
    fn syncable(&self) -> bool {
        self.up() && self.registered() && !self.inc.as_ref().unwrap().tripped && self.inc.as_ref().unwrap().held.is_empty() && self.eoq
    }

    fn op_write(&mut self, spec: &str, and_sync: bool) -> Result<String, String> {
        if !self.up() || self.inc.as_ref().unwrap().exited {
            return Err("bad-op".into());
        }
        let mut kvs: Vec<(u64, Option<u64>)> = vec![];
        for kv in spec.split(',') {
            let (k, v) = kv.split_once('=').ok_or("bad-op")?;
            let k: u64 = k.parse().map_err(|_| "bad-op")?;
            if k >= PK_DOMAIN {
                return Err("bad-op".into());
            }
            let v = if v == "x" { None } else { Some(v.parse::<u64>().map_err(|_| "bad-op")?) };
            kvs.push((k, v));
        }
        // statement selection from the node's own rows (a function of the ops so far)
        let mut cur: BTreeMap<u64, u64> = BTreeMap::new();
        {
            let c = open_ro(&db_path(&self.node))?;
            let mut st = c.prepare("SELECT id, b FROM t WHERE id < 1000").map_err(|e| e.to_string())?;
            let mut q = st.query([]).map_err(|e| e.to_string())?;
            while let Some(r) = q.next().map_err(|e| e.to_string())? {
                cur.insert(r.get::<_, i64>(0).unwrap() as u64, r.get::<_, i64>(1).unwrap() as u64);
            }
        }
        let before = cur.clone();
        let mut sqls = vec![];
        let mut keys = vec![];
        for (k, v) in &kvs {
            match (cur.get(k).copied(), v) {
                (None, Some(v)) => {
                    sqls.push(format!("INSERT INTO t (id, b) VALUES ({k}, {v})"));
                    cur.insert(*k, *v);
                    keys.push(*k);
                }
                (Some(old), Some(v)) if old != *v => {
                    sqls.push(format!("UPDATE t SET b = {v} WHERE id = {k}"));
                    cur.insert(*k, *v);
                    keys.push(*k);
                }
                (Some(_), None) => {
                    sqls.push(format!("DELETE FROM t WHERE id = {k}"));
                    cur.remove(k);
                    keys.push(*k);
                }
                _ => {}
            }
        }
        if sqls.is_empty() {
            return Ok("noop".into());
        }
        let held = !self.inc.as_ref().unwrap().held.is_empty();
        let tripped = self.inc.as_ref().unwrap().tripped;
        let registered = self.registered();
        // a key that already has a candidate in flight: the number of events would depend on how the
        // matcher happens to batch them (except inside the drain, where everything is merged)
        if registered || held {
            for k in &keys {
                let clash = match self.inflight.get(k) {
                    Some(after_trip) => !(tripped && *after_trip && !held),
                    None => false,
                } || self.held_keys.contains(k);
                if clash {
                    self.inconclusive = Some("same-key-in-flight".into());
                    return Ok("inconclusive".into());
                }
            }
        }
        let base = PENDING_HANDLES.load(std::sync::atomic::Ordering::SeqCst);
        let v = self.exec_sql(sqls)?;
        if v.is_none() {
            return Err("an effective transaction produced no version".into());
        }
        if held {
            self.held_keys.extend(keys.iter().copied());
        } else {
            self.wait_match_step(base);
            if registered {
                for k in &keys {
                    self.inflight.insert(*k, tripped);
                }
            }
        }
        if let Some(t) = self.track.as_mut() {
            if !t.planted {
                t.writes_since_restart += 1;
                if held {
                    t.held_writes += 1;
                } else if !registered && cur != before && sub_dir(&self.node, t.id).exists() {
                    t.late_writes += 1;
                }
            }
        }
        if and_sync && self.syncable() {
            let r = self.op_sync()?;
            if r == "timeout" {
                return Ok(r);
            }
        }
        Ok("ok".into())
    }

    fn op_hold(&mut self) -> Result<String, String> {
        if !self.up() || !self.inc.as_ref().unwrap().held.is_empty() {
            return Err("bad-op".into());
        }
        let inc = self.inc.as_mut().unwrap();
        let agent = inc.agent().clone();
        let conns = inc.rt().block_on(async move {
            let mut v = vec![];
            for _ in 0..20 {
                match tokio::time::timeout(Duration::from_secs(10), agent.pool().read()).await {
                    Ok(Ok(c)) => v.push(c),
                    Ok(Err(e)) => return Err(format!("read pool: {e}")),
                    Err(_) => return Err("read pool did not hand out 20 connections".to_string()),
                }
            }
            Ok(v)
        })?;
        inc.held = conns;
        Ok("ok".into())
    }

    fn op_release(&mut self) -> Result<String, String> {
        if !self.up() || self.inc.as_ref().unwrap().held.is_empty() {
            return Err("bad-op".into());
        }
        let n = self.track.as_ref().map(|t| t.held_writes).unwrap_or(0).max(if self.held_keys.is_empty() { 0 } else { 1 });
        let registered = self.registered();
        let tripped = self.inc.as_ref().unwrap().tripped;
        let c0 = PENDING_HANDLES.load(std::sync::atomic::Ordering::SeqCst);
        self.inc.as_mut().unwrap().held.clear();
        // the deferred match steps (counted `broadcast_changes` tasks) run now
        if n > 0 {
            let _ = wait_until(Duration::from_secs(5), || Ok(PENDING_HANDLES.load(std::sync::atomic::Ordering::SeqCst) + n <= c0));
        }
        let keys: Vec<u64> = std::mem::take(&mut self.held_keys);
        if registered {
            for k in keys {
                if self.inflight.contains_key(&k) {
                    self.inconclusive = Some("same-key-in-flight".into());
                }
                self.inflight.insert(k, tripped);
            }
        }
        if let Some(t) = self.track.as_mut() {
            if !registered && t.held_writes > 0 && sub_dir(&self.node, t.id).exists() {
                t.late_writes += t.held_writes;
            }
            t.held_writes = 0;
        }
        Ok("ok".into())
    }

    // ---------------------------------------------------------------- subscriptions

    fn op_sub(&mut self, qid: &str, nowait: bool) -> Result<String, String> {
        let (sql, ncols) = query_sql(qid).ok_or("bad-op")?;
        if !self.up() || self.inc.as_ref().unwrap().tripped {
            return Err("bad-op".into());
        }
        if let Some(t) = &self.track {
            // one tracked directory at a time: a new subscription only after the old one is gone
            if sub_dir(&self.node, t.id).exists() {
                return Err("bad-op".into());
            }
        }
        let inc = self.inc.as_mut().unwrap();
        let addr = inc.agent().api_addr();
        let res = inc.rt().block_on(async move {
            let client = CorrosionApiClient::new(addr);
            match tokio::time::timeout(LONG, client.subscribe(&Statement::Simple(sql.to_string()), false, None)).await {
                Ok(Ok(stream)) => {
                    let id = stream.id();
                    Ok((id, spawn_reader(stream, ClientState::default())))
                }
                Ok(Err(e)) => Err(format!("subscribe: {e}")),
                Err(_) => Err("subscribe: no response within 30 s".to_string()),
            }
        });
        let (id, stream) = res?;
        let st = stream.state.clone();
        inc.stream = Some(stream);
        let ok = wait_until(LONG, || {
            let s = st.lock().unwrap();
            if let Some(e) = &s.err {
                return Err(format!("subscription stream: {e}"));
            }
            Ok(s.eoq || (nowait && s.rows_seen > 0))
        })?;
        if !ok {
            return Err("initial query did not produce its rows within 30 s".into());
        }
        let s = st.lock().unwrap().clone();
        if nowait {
            self.tags.push(if s.eoq { "sub-nowait:already-done".into() } else { "sub-nowait:initial-running".into() });
        }
        self.track = Some(Track {
            id,
            sql,
            ncols,
            client: ClientState::default(),
            finished: false,
            last_at_finish: None,
            unsubscribed: false,
            late_writes: 0,
            held_writes: 0,
            planted: false,
            writes_since_restart: 0,
            unsub_here: false,
        });
        self.eoq = !nowait;
        self.inflight.clear();
        self.origin = Origin::Fresh;
        self.lifecycles += 1;
        Ok("ok new".into())
    }

    /// copies what the client knows out of the live stream
    fn save_client(&mut self) {
        if let (Some(inc), Some(t)) = (self.inc.as_ref(), self.track.as_mut()) {
            if let Some(s) = &inc.stream {
                t.client = s.state.lock().unwrap().clone();
            }
        }
    }

    fn op_sync(&mut self) -> Result<String, String> {
        let Some(t) = self.track.clone() else { return Err("bad-op".into()) };
        if !self.up() || t.planted || t.finished {
            return Err("bad-op".into());
        }
        let inc = self.inc.as_ref().unwrap();
        if inc.tripped || !inc.held.is_empty() || inc.agent().subs_manager().get(&t.id).is_none() {
            return Err("bad-op".into());
        }
        let node = self.node.clone();
        let mut last_err = String::new();
        let ok = wait_until(LONG, || {
            if meta_state(&node, t.id) != "running" {
                return Ok(false);
            }
            let want = node_rows(&node, t.sql)?;
            match read_sub(&node, t.id, t.ncols) {
                Ok(f) => Ok(f.rows == want),
                Err(e) => {
                    last_err = e;
                    Ok(false)
                }
            }
        })?;
        if !ok {
            self.fail(format!("the matcher did not bring the materialised rows to the query result within 30 s {last_err}"));
            return Ok("timeout".into());
        }
        let f = read_sub(&node, t.id, t.ncols)?;
        // the client gets every change
        if let Some(s) = &self.inc.as_ref().unwrap().stream {
            let st = s.state.clone();
            let max = f.max_id;
            let got = wait_until(Duration::from_secs(10), || {
                let s = st.lock().unwrap();
                Ok(s.ended || s.err.is_some() || (s.eoq && s.last_id >= max))
            })?;
            let s = st.lock().unwrap().clone();
            if let Some(e) = &s.err {
                self.fail(format!("client stream: {e}"));
            } else if !got || s.ended {
                self.fail(format!("client did not receive the changes up to id {max} (has {})", s.last_id));
            } else if s.view != f.by_rowid {
                self.fail(format!("client view (rows + events replayed) differs from the materialised rows: {:?} vs {:?}", s.view, f.by_rowid));
            }
        }
        self.save_client();
        if !f.ids_contiguous {
            self.fail("change ids are not 1..=max".into());
        }
        self.inflight.clear();
        self.eoq = true;
        Ok(format!("ok last={}", f.max_id))
    }

    fn op_trip(&mut self, wait_for_matcher: bool) -> Result<String, String> {
        if !self.up() || self.inc.as_ref().unwrap().tripped {
            return Err("bad-op".into());
        }
        self.save_client();
        let inc = self.inc.as_mut().unwrap();
        // the client goes away with the API (its connection would only be closed by the server anyway)
        inc.stream = None;
        inc.trip()?;
        // the matcher notices the tripwire and leaves its loop (it says so); while it is still inside its initial
        // query it cannot (then `drop_handles()` may reach it first: since fix c37e976 that makes no difference)
        if let Some(t) = self.track.clone() {
            if self.registered() && wait_for_matcher {
                if self.eoq {
                    let ok = wait_until(LONG, || Ok(left_loop(t.id)))?;
                    if !ok {
                        self.fail("the matcher did not leave its loop within 30 s after the tripwire".into());
                    }
                }
            }
        }
        Ok("ok".into())
    }

    fn op_wind(&mut self) -> Result<String, String> {
        if !self.up() || !self.inc.as_ref().unwrap().tripped || self.inc.as_ref().unwrap().wound {
            return Err("bad-op".into());
        }
        let alive = self.registered() || self.inc.as_ref().unwrap().clone_hold.is_some();
        let c0 = if alive { self.stable_count() } else { 0 };
        self.inc.as_mut().unwrap().wind();
        let node = self.node.clone();
        let mut out = "ok".to_string();
        if let Some(t) = self.track.clone() {
            if !t.planted && alive {
                if !self.wait_matcher_gone(c0) {
                    let st = meta_state(&node, t.id);
                    self.fail(format!("after drop_handles the matcher did not finish within 30 s (state {st})"));
                }
                let st = meta_state(&node, t.id);
                out = format!("ok state={st}");
                let last = read_sub(&node, t.id, t.ncols).ok().map(|f| f.max_id);
                let tr = self.track.as_mut().unwrap();
                tr.finished = true;
                tr.last_at_finish = last;
                self.inflight.clear();
            } else if !t.planted {
                out = format!("ok state={}", meta_state(&node, t.id));
            }
        }
        Ok(out)
    }

    fn op_exit(&mut self) -> Result<String, String> {
        if !self.up() || !self.inc.as_ref().unwrap().wound {
            return Err("bad-op".into());
        }
        // deferred match steps run when the readers go away, at the latest now
        if !self.inc.as_ref().unwrap().held.is_empty() {
            self.op_release()?;
        }
        if let Err(e) = self.inc.as_mut().unwrap().exit() {
            self.fail(e);
        }
        Ok("ok".into())
    }

    fn op_unsub(&mut self, hold: bool) -> Result<String, String> {
        let Some(t) = self.track.clone() else { return Err("bad-op".into()) };
        if !self.up() || t.planted || t.finished || self.inc.as_ref().unwrap().tripped || !self.registered() {
            return Err("bad-op".into());
        }
        self.save_client();
        let c0 = self.stable_count();
        let inc = self.inc.as_mut().unwrap();
        inc.stream = None;
        let agent = inc.agent().clone();
        let id = t.id;
        let h = inc.rt().block_on(async move {
            // the tail of `process_sub_channel`
            let h = agent.subs_manager().remove(&id);
            if let Some(h) = &h {
                klukai_types::updates::Handle::cleanup(h).await;
            }
            h
        });
        let Some(h) = h else { return Err("bad-op".into()) };
        let node = self.node.clone();
        if hold {
            inc.clone_hold = Some(h);
            // the matcher acknowledges the cancellation and waits in its drain
            let ok = wait_until(LONG, || Ok(meta_state(&node, id) == "cancelled"))?;
            if !ok {
                let st = meta_state(&node, id);
                self.fail(format!("after unsubscribe the matcher did not reach state cancelled within 30 s (state {st})"));
            }
        } else {
            drop(h);
            if !self.wait_matcher_gone(c0) {
                let st = meta_state(&node, id);
                self.fail(format!("after unsubscribe the matcher did not finish within 30 s (state {st})"));
            }
        }
        let st = meta_state(&node, id);
        let last = read_sub(&node, id, t.ncols).ok().map(|f| f.max_id);
        let tr = self.track.as_mut().unwrap();
        tr.unsubscribed = true;
        tr.unsub_here = true;
        if !hold {
            tr.finished = true;
            tr.last_at_finish = last;
            self.inflight.clear();
        }
        Ok(format!("ok state={st}"))
    }

    fn op_drophold(&mut self) -> Result<String, String> {
        let Some(t) = self.track.clone() else { return Err("bad-op".into()) };
        if !self.up() || self.inc.as_ref().unwrap().clone_hold.is_none() {
            return Err("bad-op".into());
        }
        let c0 = self.stable_count();
        self.inc.as_mut().unwrap().clone_hold = None;
        let node = self.node.clone();
        if !self.wait_matcher_gone(c0) {
            let st = meta_state(&node, t.id);
            self.fail(format!("after the last handle clone went away the matcher did not finish within 30 s (state {st})"));
        }
        let st = meta_state(&node, t.id);
        let last = read_sub(&node, t.id, t.ncols).ok().map(|f| f.max_id);
        let tr = self.track.as_mut().unwrap();
        tr.finished = true;
        tr.last_at_finish = last;
        self.inflight.clear();
        Ok(format!("ok state={st}"))
    }

    fn op_plant(&mut self) -> Result<String, String> {
        if !self.up() || self.track.is_some() {
            return Err("bad-op".into());
        }
        let id = Uuid::from_u128(PLANT_ID);
        let p = sub_dir(&self.node, id);
        std::fs::create_dir_all(&p).map_err(|e| e.to_string())?;
        {
            // what `Matcher::new` does before `Matcher::create` commits the schema
            let c = rusqlite::Connection::open(p.join("sub.sqlite")).map_err(|e| e.to_string())?;
            c.execute_batch("PRAGMA journal_mode = WAL; PRAGMA synchronous = NORMAL;").map_err(|e| e.to_string())?;
        }
        self.track = Some(Track {
            id,
            sql: "",
            ncols: 0,
            client: ClientState::default(),
            finished: false,
            last_at_finish: None,
            unsubscribed: false,
            late_writes: 0,
            held_writes: 0,
            planted: true,
            writes_since_restart: 0,
            unsub_here: false,
        });
        self.lifecycles += 1;
        Ok("ok".into())
    }

    // ---------------------------------------------------------------- stop images / restart

    fn op_snapshot(&mut self, tag: &str) -> Result<String, String> {
        if tag == "live" || self.images.contains_key(tag) || !tag.chars().all(|c| c.is_ascii_alphanumeric()) {
            return Err("bad-op".into());
        }
        if (self.inc.is_none() && !self.dead) || self.racy != 0 {
            return Err("bad-op".into());
        }
        self.save_client();
        let dst = self.tmp.path().join(format!("img-{tag}-{}", self.n_dirs));
        self.n_dirs += 1;
        // subscriptions first: nothing commits on the node database while the image is taken
        let sp = subs_path(&self.node);
        if sp.exists() {
            copy_tree(&sp, &subs_path(&dst)).map_err(|e| format!("copy: {e}"))?;
        }
        std::fs::create_dir_all(&dst).map_err(|e| e.to_string())?;
        for e in std::fs::read_dir(&self.node).map_err(|e| e.to_string())? {
            let e = e.map_err(|e| e.to_string())?;
            let n = e.file_name().to_string_lossy().to_string();
            if n == "subscriptions" || n.ends_with("-shm") || n.ends_with(".sock") {
                continue;
            }
            if e.file_type().map_err(|e| e.to_string())?.is_dir() {
                copy_tree(&e.path(), &dst.join(&n)).map_err(|e| format!("copy: {e}"))?;
            } else {
                std::fs::copy(e.path(), dst.join(&n)).map_err(|e| format!("copy: {e}"))?;
            }
        }
        let mut active = false;
        if let Some(t) = &self.track {
            let st = meta_state(&dst, t.id);
            active = !t.finished;
            let phase = if t.planted {
                "planted".to_string()
            } else if self.dead {
                format!("killed:{st}")
            } else if self.inc.as_ref().map(|i| i.exited).unwrap_or(true) {
                format!("after-exit:{st}")
            } else if self.inc.as_ref().unwrap().wound {
                format!("after-wind:{st}")
            } else if self.inc.as_ref().unwrap().tripped {
                format!("draining:{st}")
            } else {
                let pending = match (read_sub(&dst, t.id, t.ncols), node_rows(&dst, t.sql)) {
                    (Ok(f), Ok(w)) if st == "running" && f.rows != w => "+pending",
                    _ => "",
                };
                format!("up:{st}{pending}")
            };
            self.tags.push(format!("image:{phase}"));
            // an image of an active subscription never says `completed`
            if active && st == "completed" {
                self.fail("the image of a subscription whose matcher is still alive says `completed`".into());
            }
        }
        self.images.insert(tag.to_string(), Image { dir: dst, track: self.track.clone(), active });
        Ok("ok".into())
    }

    fn op_restart(&mut self, tag: &str) -> Result<String, String> {
        if self.racy == 2 || (self.racy == 1 && tag != "live") {
            return Err("bad-op".into());
        }
        if tag == "live" {
            match &self.inc {
                Some(i) if i.exited => {
                    self.origin = Origin::Graceful;
                }
                None if self.dead => {} // origin was set by the kill
                _ => return Err("bad-op".into()),
            }
            self.inc = None;
            self.dead = false;
        } else {
            let Some(img) = self.images.remove(tag) else { return Err("bad-op".into()) };
            // the original is abandoned
            if let Some(mut i) = self.inc.take() {
                if !i.exited {
                    let _ = i.trip();
                    i.kill();
                }
            }
            self.node = img.dir;
            self.track = img.track;
            self.origin = Origin::Abrupt { active: img.active };
            self.dead = false;
        }
        if let Some(t) = self.track.as_mut() {
            t.writes_since_restart = 0;
            // (what an earlier incarnation's matcher said does not count for the new one)
            draining().lock().unwrap().remove(&t.id.to_string());
        }
        let inc = start_inc(&self.node)?;
        self.inc = Some(inc);
        // what came of the tracked subscription
        let out = match &self.track {
            Some(t) => {
                let found = self.inc.as_ref().unwrap().agent().subs_manager().get(&t.id).is_some();
                if found { "ok restored" } else { "ok removed" }
            }
            None => "ok",
        };
        let out = if self.racy == 1 {
            self.racy = 2;
            "ok".to_string()
        } else {
            out.to_string()
        };
        let restored_now = self.track.as_ref().map(|t| self.inc.as_ref().unwrap().agent().subs_manager().get(&t.id).is_some()).unwrap_or(false);
        self.inflight.clear();
        self.held_keys.clear();
        self.eoq = true;
        if let Some(t) = self.track.as_mut() {
            t.unsub_here = false;
            t.held_writes = 0;
            let found = restored_now;
            if found {
                t.finished = false;
                // `run_restore` is a spawned task: it has written `running` when the subscription is back in business
                let (node, id) = (self.node.clone(), t.id);
                let ok = wait_until(LONG, || Ok(meta_state(&node, id) == "running"))?;
                if !ok {
                    let st = meta_state(&node, id);
                    self.fail(format!("a restored subscription did not get back to state `running` within 30 s (state {st})"));
                }
            }
        }
        Ok(out)
    }

    // ---------------------------------------------------------------- observation + oracle

    fn http_status(&mut self, id: Uuid, from: Option<u64>) -> Result<(u16, Option<ClientStream>), String> {
        let inc = self.inc.as_mut().unwrap();
        let addr = inc.agent().api_addr();
        let init = self.track.as_ref().map(|t| t.client.clone()).unwrap_or_default();
        inc.rt().block_on(async move {
            let client = CorrosionApiClient::new(addr);
            match tokio::time::timeout(LONG, client.subscription(id, false, from.map(ChangeId))).await {
                Ok(Ok(stream)) => {
                    let mut init = init;
                    init.err = None;
                    init.ended = false;
                    if from.is_none() {
                        init = ClientState::default();
                    }
                    Ok((200, Some(spawn_reader(stream, init))))
                }
                Ok(Err(klukai_client::Error::UnexpectedStatusCode(c))) => Ok((c.as_u16(), None)),
                Ok(Err(e)) => Err(format!("GET /v1/subscriptions/{{id}}: {e}")),
                Err(_) => Err("GET /v1/subscriptions/{id}: no response within 30 s".to_string()),
            }
        })
    }

    /// `subinfo` / `check`: what a client that knew the subscription finds now, and the property oracle
    fn observe(&mut self) -> Result<String, String> {
        let Some(t) = self.track.clone() else { return Err("bad-op".into()) };
        if !self.up() || self.inc.as_ref().unwrap().tripped {
            return Err("bad-op".into());
        }
        let node = self.node.clone();
        let in_mgr = self.inc.as_ref().unwrap().agent().subs_manager().get(&t.id).is_some();
        if in_mgr && !self.eoq {
            return Err("bad-op".into());
        }
        if in_mgr && !self.inflight.is_empty() {
            if self.syncable() {
                let r = self.op_sync()?;
                if r == "timeout" {
                    return Ok(r);
                }
            } else {
                self.inconclusive = Some("look-up-with-candidates-in-flight".into());
                return Ok("inconclusive".into());
            }
        }
        let t = self.track.clone().unwrap();
        let have_stream = self.inc.as_ref().unwrap().stream.is_some();
        let dir = sub_dir(&node, t.id).exists();
        // the client re-attaches with the last change id it has seen (or asks for everything)
        let mut status = 200u16;
        if !have_stream {
            let from = if t.client.eoq { Some(t.client.last_id) } else { None };
            let (code, stream) = self.http_status(t.id, from)?;
            status = code;
            if let Some(s) = stream {
                self.inc.as_mut().unwrap().stream = Some(s);
            }
        }
        let found = status == 200;
        if found != in_mgr {
            self.fail(format!("GET /v1/subscriptions/{{id}} says {status} but the manager {} the subscription", if in_mgr { "has" } else { "does not have" }));
        }
        if !found && status != 404 {
            self.fail(format!("GET /v1/subscriptions/{{id}} answered {status}, expected 404"));
        }
        match self.origin {
            Origin::Graceful if !found && !t.planted && !t.unsubscribed => self.fail("after a graceful stop and restart the subscription is gone (404)".into()),
            Origin::Abrupt { active: true } if found => self.fail("after an abrupt stop in the middle of its life the subscription is served again".into()),
            _ => {}
        }
        if !found {
            if dir && !t.unsub_here {
                self.fail("the subscription is not served but its directory was kept".into());
            }
            return Ok(format!("404 dir={}", if dir { "present" } else { "gone" }));
        }
        // served: it must be fresh
        let state = meta_state(&node, t.id);
        // (a restored subscription has nothing to catch up with; a live one was brought to quiescence by `sync`)
        let f = read_sub(&node, t.id, t.ncols)?;
        let want = node_rows(&node, t.sql)?;
        let rows_ok = f.rows == want;
        if !rows_ok {
            self.fail(format!("a served subscription's materialised rows differ from its query on the database: {:?} vs {:?}", f.rows, want));
        }
        if !f.ids_contiguous {
            self.fail("change ids are not 1..=max".into());
        }
        if t.writes_since_restart == 0 {
            if let Some(l) = t.last_at_finish {
                if l != f.max_id {
                    self.fail(format!("the change log ends with id {} but the last change before the stop was {l}", f.max_id));
                }
            }
        }
        // the client catches up from what it had
        if let Some(s) = &self.inc.as_ref().unwrap().stream {
            let st = s.state.clone();
            let max = f.max_id;
            let got = wait_until(Duration::from_secs(10), || {
                let s = st.lock().unwrap();
                Ok(s.ended || s.err.is_some() || (s.eoq && s.last_id >= max))
            })?;
            let s = st.lock().unwrap().clone();
            if let Some(e) = &s.err {
                self.fail(format!("client stream after re-attaching: {e}"));
            } else if !got || s.ended {
                self.fail(format!("the re-attached client did not receive the changes up to id {max} (has {})", s.last_id));
            } else if rows_ok && s.view != f.by_rowid {
                self.fail(format!("the re-attached client's view (its old rows + the events it was sent) differs from the materialised rows: {:?} vs {:?}", s.view, f.by_rowid));
            }
        }
        self.save_client();
        Ok(format!("found state={state} rows={} last={}", if rows_ok { "ok" } else { "STALE" }, f.max_id))
    }
}

// ------------------------------------------------------------------------------------------------
// one case
// ------------------------------------------------------------------------------------------------

struct Outcome {
    outputs: Vec<String>,
    fails: Vec<String>,
    tags: Vec<String>,
    lifecycles: usize,
    inconclusive: Option<String>,
}

fn run_from(w: &mut World, ops: &[String], outputs: &mut Vec<String>) -> Result<(), String> {
    let timing = std::env::var("HX_TIMING").is_ok();
    for op in ops {
        let t0 = Instant::now();
        let toks: Vec<&str> = op.split_whitespace().collect();
        let racy_ok = matches!(toks.as_slice(), ["restart", "live"] | ["check"]);
        let r: Result<String, String> = if w.racy != 0 && !racy_ok {
            Err("bad-op".into())
        } else {
            match toks.as_slice() {
                ["tag", name] if name.chars().all(|c| c.is_ascii_alphanumeric() || c == '-') => Ok("ok".into()),
                ["fill", n] => match n.parse::<u64>() {
                    Ok(n) => w.op_fill(n),
                    Err(_) => Err("bad-op".into()),
                },
                ["sub", q] => w.op_sub(q, false),
                ["sub", q, "nowait"] => w.op_sub(q, true),
                ["w", spec] => w.op_write(spec, true),
                ["wp", spec] => w.op_write(spec, false),
                ["hold"] => w.op_hold(),
                ["release"] => w.op_release(),
                ["sync"] => w.op_sync(),
                ["trip"] => w.op_trip(true),
                ["wind"] => w.op_wind(),
                ["exit"] => w.op_exit(),
                ["graceful"] | ["graceful", "fast"] => {
                    // `fast`: drop_handles() right after the API/changes handles, whether or not the matcher has
                    // looked at the tripwire yet
                    if !w.up() || w.inc.as_ref().unwrap().tripped {
                        Err("bad-op".into())
                    } else {
                        w.op_trip(toks.len() == 1).and_then(|_| w.op_wind()).and_then(|o| w.op_exit().map(|_| o))
                    }
                }
                ["unsub"] => w.op_unsub(false),
                ["unsub", "hold"] => w.op_unsub(true),
                ["drophold"] => w.op_drophold(),
                ["plant"] => w.op_plant(),
                ["snapshot", tag] => w.op_snapshot(tag),
                ["restart", tag] => w.op_restart(tag),
                ["subinfo"] => w.observe(),
                ["check"] => w.observe().map(|_| "ok".to_string()),
                // (a `kill` op is handled before the case starts: only the first one counts)
                _ => Err("bad-op".into()),
            }
        };
        if timing {
            eprintln!("{:>6} ms  {}  -> {:?}", t0.elapsed().as_millis(), op, r);
        }
        match r {
            Ok(o) => outputs.push(o),
            Err(e) if e == "bad-op" => outputs.push("bad-op".into()),
            Err(e) => return Err(format!("at op `{op}`: {e}")),
        }
        if w.inconclusive.is_some() {
            break;
        }
    }
    Ok(())
}

fn finish(mut w: World, outputs: Vec<String>) -> Outcome {
    let inconclusive = w.inconclusive.take();
    let fails = std::mem::take(&mut w.fails);
    let tags = std::mem::take(&mut w.tags);
    let lifecycles = w.lifecycles;
    drop(w);
    Outcome { outputs, fails, tags, lifecycles, inconclusive }
}

fn run_ops(ops: &[String]) -> Result<Outcome, String> {
    let mut w = World::new()?;
    let mut outputs = vec![];
    run_from(&mut w, ops, &mut outputs)?;
    Ok(finish(w, outputs))
}

// ------------------------------------------------------------------------------------------------
// thorough tier: the node under test is a child process that gets SIGKILLed
// ------------------------------------------------------------------------------------------------

#[derive(serde::Serialize, serde::Deserialize, Default)]
struct ChildReport {
    outputs: Vec<String>,
    err: Option<String>,
    fails: Vec<String>,
    tags: Vec<String>,
    lifecycles: usize,
    inconclusive: Option<String>,
    tracked: bool,
    id: String,
    qid_sql: String,
    ncols: usize,
    planted: bool,
    finished: bool,
    unsubscribed: bool,
    last_at_finish: Option<u64>,
    late_writes: usize,
    client_view: BTreeMap<u64, Vec<String>>,
    client_last: u64,
    client_eoq: bool,
    up: bool,
    wound: bool,
    /// the directory the node was running on when it was killed
    node: String,
}

fn sql_static(sql: &str) -> &'static str {
    for q in ["all", "slow"] {
        let (s, _) = query_sql(q).unwrap();
        if s == sql {
            return s;
        }
    }
    ""
}

/// `exec_case` of the CHILD: run the ops on the given node directory, report, then behave as the mode
/// says until the parent kills the process.  Never returns.
fn child_main(ops: &[String], node: &str, mode: &str) -> ! {
    let node = PathBuf::from(node);
    let base = node.parent().unwrap().to_path_buf();
    let mut rep = ChildReport::default();
    let mut world = None;
    // scratch space inside the parent's directory: images and the current node directory outlive the kill
    let scratch = base.join("childtmp");
    let _ = std::fs::create_dir_all(&scratch);
    match World::new_at(TmpDir(scratch), node.clone(), true) {
        Ok(mut w) => {
            let mut outputs = vec![];
            if let Err(e) = run_from(&mut w, ops, &mut outputs) {
                rep.err = Some(e);
            }
            w.save_client();
            rep.outputs = outputs;
            rep.fails = w.fails.clone();
            rep.tags = w.tags.clone();
            rep.lifecycles = w.lifecycles;
            rep.inconclusive = w.inconclusive.clone();
            rep.node = w.node.display().to_string();
            rep.up = w.up();
            rep.wound = w.inc.as_ref().map(|i| i.wound).unwrap_or(false);
            if let Some(t) = &w.track {
                rep.tracked = true;
                rep.id = t.id.to_string();
                rep.qid_sql = t.sql.to_string();
                rep.ncols = t.ncols;
                rep.planted = t.planted;
                rep.finished = t.finished;
                rep.unsubscribed = t.unsubscribed;
                rep.last_at_finish = t.last_at_finish;
                rep.late_writes = t.late_writes;
                rep.client_view = t.client.view.clone();
                rep.client_last = t.client.last_id;
                rep.client_eoq = t.client.eoq;
            }
            world = Some(w);
        }
        Err(e) => rep.err = Some(e),
    }
    let tmpf = base.join("child.json.tmp");
    let _ = std::fs::write(&tmpf, serde_json::to_vec(&rep).unwrap());
    let _ = std::fs::rename(&tmpf, base.join("child.json"));
    if let Some(mut w) = world {
        match mode {
            "busy" if w.up() => {
                // keeps the matcher busy with keys the ops never touch
                let mut present = std::collections::BTreeSet::new();
                let mut k = PK_DOMAIN;
                loop {
                    let sql = if present.contains(&k) {
                        present.remove(&k);
                        format!("DELETE FROM t WHERE id = {k}")
                    } else {
                        present.insert(k);
                        format!("INSERT INTO t (id, b) VALUES ({k}, 1)")
                    };
                    let _ = w.exec_sql(vec![sql]);
                    k = if k + 1 >= 2 * PK_DOMAIN { PK_DOMAIN } else { k + 1 };
                }
            }
            "wind" if w.up() && !w.inc.as_ref().unwrap().wound => {
                let _ = w.op_trip(false);
                let _ = std::fs::write(base.join("child.wind"), b"");
                let _ = w.op_wind();
                let _ = w.op_exit();
            }
            _ => {}
        }
        loop {
            std::thread::sleep(Duration::from_secs(3600));
            let _ = &w;
        }
    }
    loop {
        std::thread::sleep(Duration::from_secs(3600));
    }
}

fn run_with_kill(ops: &[String], at: usize) -> Result<Outcome, String> {
    let toks: Vec<&str> = ops[at].split_whitespace().collect();
    let (mode, n) = match toks.as_slice() {
        ["kill", m @ ("idle" | "busy" | "wind"), n] => match n.parse::<u64>() {
            Ok(n) if n <= 100_000 => (*m, n),
            _ => return run_ops_all_bad(ops, at),
        },
        _ => return run_ops_all_bad(ops, at),
    };
    let tmp = TmpDir::new("c13k");
    let node = tmp.path().join("n0");
    let prefix = tmp.path().join("prefix.ops");
    std::fs::write(&prefix, format!("# case 0 child\n{}\n", ops[..at].join("\n"))).map_err(|e| e.to_string())?;
    let exe = std::env::current_exe().map_err(|e| e.to_string())?;
    let mut child = std::process::Command::new(exe)
        .args(["C13", "--replay", prefix.to_str().unwrap(), "--out", tmp.path().join("childout").to_str().unwrap()])
        .env("HX_C13_CHILD_NODE", &node)
        .env("HX_C13_CHILD_MODE", mode)
        .stdin(std::process::Stdio::null())
        .stdout(std::process::Stdio::null())
        .stderr(std::process::Stdio::null())
        .spawn()
        .map_err(|e| format!("spawn child: {e}"))?;
    let pid = child.id();
    let cleanup = |child: &mut std::process::Child| {
        unsafe_kill(pid);
        let _ = child.wait();
        // the child's own scratch directories
        if let Ok(rd) = std::fs::read_dir(crate::crkit::tmp_root()) {
            for e in rd.flatten() {
                if e.file_name().to_string_lossy().starts_with(&format!("c13child-{pid}-")) {
                    let _ = std::fs::remove_dir_all(e.path());
                }
            }
        }
    };
    let report = tmp.path().join("child.json");
    let mut exited_early = false;
    let ready = wait_until(Duration::from_secs(180), || {
        if let Ok(Some(_)) = child.try_wait() {
            exited_early = true;
            return Ok(true);
        }
        Ok(report.exists())
    })?;
    if !ready || exited_early {
        cleanup(&mut child);
        return Err("the child process did not get through its ops".into());
    }
    if mode == "wind" {
        let mark = tmp.path().join("child.wind");
        let t0 = Instant::now();
        while !mark.exists() && t0.elapsed() < LONG {
            std::thread::sleep(Duration::from_micros(200));
        }
        std::thread::sleep(Duration::from_micros(n));
    } else {
        std::thread::sleep(Duration::from_millis(n.min(3000)));
    }
    cleanup(&mut child);
    let rep: ChildReport = serde_json::from_slice(&std::fs::read(&report).map_err(|e| e.to_string())?).map_err(|e| e.to_string())?;
    if let Some(e) = rep.err {
        return Err(format!("child: {e}"));
    }
    let node = if rep.node.is_empty() { node } else { PathBuf::from(&rep.node) };
    let mut w = World::new_at(tmp, node, false)?;
    w.fails = rep.fails;
    w.tags = rep.tags;
    w.lifecycles = rep.lifecycles;
    w.inconclusive = rep.inconclusive;
    w.eoq = true;
    let mut outputs = rep.outputs;
    if w.inconclusive.is_some() || outputs.len() < at {
        return Ok(finish(w, outputs));
    }
    let kill_ok = rep.up && !(mode == "wind" && rep.wound);
    if rep.tracked {
        let client = ClientState { view: rep.client_view, last_id: rep.client_last, eoq: rep.client_eoq, ..Default::default() };
        w.track = Some(Track {
            id: rep.id.parse().map_err(|_| "child reported a bad id")?,
            sql: sql_static(&rep.qid_sql),
            ncols: rep.ncols,
            client,
            finished: rep.finished,
            last_at_finish: rep.last_at_finish,
            unsubscribed: rep.unsubscribed,
            late_writes: rep.late_writes,
            held_writes: 0,
            planted: rep.planted,
            writes_since_restart: 0,
            unsub_here: false,
        });
    }
    if !kill_ok {
        // the model says the op does not apply (node already down / already wound down): nothing was killed in a
        // state the case can go on from
        outputs.push("bad-op".into());
        w.racy = 2;
    } else {
        outputs.push("ok".into());
        let active = w.track.as_ref().map(|t| !t.finished).unwrap_or(false);
        if mode == "wind" {
            w.racy = 1;
            w.origin = Origin::Abrupt { active: false };
            if let Some(t) = w.track.as_mut() {
                // whatever the kill left: the log may have grown in the drain
                t.last_at_finish = None;
            }
            w.tags.push(format!("kill:wind:{}", w.track.as_ref().map(|t| meta_state(&w.node, t.id)).unwrap_or_default()));
        } else {
            w.origin = Origin::Abrupt { active };
            w.tags.push(format!("kill:{mode}:{}", w.track.as_ref().map(|t| meta_state(&w.node, t.id)).unwrap_or_default()));
        }
    }
    run_from(&mut w, &ops[at + 1..], &mut outputs)?;
    Ok(finish(w, outputs))
}

/// a malformed `kill` op: everything before it runs normally, the op itself is `bad-op`
fn run_ops_all_bad(ops: &[String], _at: usize) -> Result<Outcome, String> {
    run_ops(ops)
}

fn unsafe_kill(pid: u32) {
    // SIGKILL, the abrupt stop
    let _ = std::process::Command::new("kill").args(["-9", &pid.to_string()]).status();
}

impl Prop for C13 {
    fn id(&self) -> &'static str {
        "C13"
    }
    fn rule(&self) -> &'static str {
        "one case = one node with 1-3 subscription lifecycles (create, writes, graceful or abrupt stop at a lifecycle phase, \
         restart, look-up); tag `lifecycle` counts lifecycles; non-trivial iff at least one restart was followed by a look-up \
         of the subscription; distinct by hash of the op list"
    }
    fn default_cases(&self, tier: Tier) -> usize {
        match tier {
            Tier::Quick => 9,
            Tier::Thorough => 300,
        }
    }
    fn gen_case(&self, rng: &mut Rng, tier: Tier, index: usize) -> Vec<String> {
        gen_case(rng, tier, index)
    }
    fn begin(&self) {
        install_watch();
    }
    fn exec_case(&self, ops: &[String]) -> CaseResult {
        install_watch();
        if let (Ok(node), Ok(mode)) = (std::env::var("HX_C13_CHILD_NODE"), std::env::var("HX_C13_CHILD_MODE")) {
            child_main(ops, &node, &mode);
        }
        let mut res = CaseResult::default();
        let run = match ops.iter().position(|o| o.starts_with("kill ")) {
            Some(at) => run_with_kill(ops, at),
            None => run_ops(ops),
        };
        match run {
            Ok(o) if o.inconclusive.is_some() => {
                res.inconclusive = o.inconclusive;
            }
            Ok(o) => {
                let looked = ops.iter().zip(o.outputs.iter()).any(|(op, out)| (op == "subinfo" || op == "check") && out != "bad-op");
                let restarted = ops.iter().any(|op| op.starts_with("restart "));
                res.nontrivial = looked && restarted;
                res.outputs = o.outputs;
                res.oracle_failures = o.fails;
                res.tags = o.tags;
                for _ in 0..o.lifecycles {
                    res.tags.push("lifecycle".into());
                }
            }
            Err(e) => {
                res.oracle_failures.push(format!("harness could not drive the real node: {e}"));
                while res.outputs.len() < ops.len() {
                    res.outputs.push("impl-error".into());
                }
            }
        }
        res
    }
}

// ------------------------------------------------------------------------------------------------
// generator
// ------------------------------------------------------------------------------------------------

struct Gen {
    ops: Vec<String>,
    db: BTreeMap<u64, u64>,
    /// keys with a candidate that may still be waiting
    inflight: std::collections::BTreeSet<u64>,
    /// the subscription is registered and served
    have_sub: bool,
    eoq: bool,
    filled: bool,
    ntag: usize,
    /// images to come back to at the end: (tag, table at that time, the subscription comes back)
    later: Vec<(String, BTreeMap<u64, u64>, bool)>,
    /// a `kill` op has been used (one per case)
    killed: bool,
}

impl Gen {
    fn tag(&mut self, p: &str) -> String {
        self.ntag += 1;
        format!("{p}{}", self.ntag)
    }

    /// one effective transaction on keys that have nothing in flight
    fn write(&mut self, rng: &mut Rng, pending: bool) {
        let n = if rng.chance(1, 4) { rng.range(2, 3) } else { 1 };
        let mut parts = vec![];
        let mut used = vec![];
        for _ in 0..n {
            let mut k = rng.below(PK_DOMAIN);
            let mut tries = 0;
            while (self.inflight.contains(&k) || used.contains(&k)) && tries < 64 {
                k = (k + 1) % PK_DOMAIN;
                tries += 1;
            }
            if self.inflight.contains(&k) || used.contains(&k) {
                continue;
            }
            used.push(k);
            match self.db.get(&k).copied() {
                Some(_) if rng.chance(1, 4) => {
                    self.db.remove(&k);
                    parts.push(format!("{k}=x"));
                }
                Some(old) => {
                    let v = (old + 1 + rng.below(8)) % 10;
                    let v = if v == old { (old + 1) % 10 } else { v };
                    self.db.insert(k, v);
                    parts.push(format!("{k}={v}"));
                }
                None => {
                    let v = rng.below(10);
                    self.db.insert(k, v);
                    parts.push(format!("{k}={v}"));
                }
            }
        }
        if parts.is_empty() {
            return;
        }
        let synced = !pending && self.have_sub && self.eoq;
        self.ops.push(format!("{} {}", if pending { "wp" } else { "w" }, parts.join(",")));
        if self.have_sub && !synced {
            self.inflight.extend(used);
        }
    }

    fn writes(&mut self, rng: &mut Rng, lo: u64, hi: u64, pending: bool) {
        for _ in 0..rng.range(lo, hi) {
            self.write(rng, pending);
        }
    }

    fn restarted(&mut self, restored: bool) {
        self.have_sub = restored;
        self.eoq = true;
        self.inflight.clear();
    }
}

fn gen_case(rng: &mut Rng, tier: Tier, index: usize) -> Vec<String> {
    let mut g = Gen { ops: vec![], db: BTreeMap::new(), inflight: Default::default(), have_sub: false, eoq: false, filled: false, ntag: 0, later: vec![], killed: false };
    let lives = match tier {
        Tier::Quick => rng.range(1, 3),
        Tier::Thorough => rng.range(1, 4),
    };
    // every third case makes the `slow` query's initial run last
    if index % 3 == 0 || rng.chance(1, 6) {
        g.ops.push("fill 6000".into());
        g.filled = true;
    }
    if rng.chance(2, 3) {
        g.writes(rng, 1, 3, false);
    }
    let mut planted = false;
    for life in 0..lives {
        if !g.have_sub {
            if life == 0 && !planted && g.ops.iter().all(|o| !o.starts_with("sub")) && rng.chance(1, 12) {
                // a stop inside `Matcher::create`
                planted = true;
                g.ops.push("plant".into());
                let t = g.tag("p");
                g.ops.push(format!("snapshot {t}"));
                g.ops.push(format!("restart {t}"));
                g.ops.push("subinfo".into());
                continue;
            }
            if planted {
                break; // the case follows the planted directory only
            }
            if g.filled && rng.chance(3, 5) && !g.db.is_empty() {
                g.ops.push("sub slow nowait".into());
                g.eoq = false;
            } else {
                g.ops.push(format!("sub {}", if g.filled || rng.chance(1, 3) { "slow" } else { "all" }));
                g.eoq = true;
            }
            g.have_sub = true;
            g.inflight.clear();
        }
        // life of the subscription
        if g.eoq {
            g.writes(rng, 0, 3, false);
        } else {
            g.writes(rng, 0, 2, true);
            if rng.chance(1, 3) {
                g.ops.push("sync".into());
                g.eoq = true;
                g.inflight.clear();
                g.writes(rng, 0, 2, false);
            }
        }
        let graceful_share = if tier == Tier::Quick { 35 } else { 45 };
        let kind = rng.below(100);
        if kind < graceful_share {
            // ---- graceful stop, whole or in steps
            if rng.chance(1, 2) {
                g.writes(rng, 0, 2, true);
            }
            if tier == Tier::Thorough && !g.killed && rng.chance(1, 6) {
                // SIGKILL somewhere inside the stop sequence: restored or removed, never stale
                g.killed = true;
                g.later.clear();
                let us = match rng.below(4) {
                    0 => rng.range(0, 300),
                    1 => rng.range(300, 3000),
                    2 => rng.range(3000, 20000),
                    _ => rng.range(20000, 100000),
                };
                g.ops.push(format!("kill wind {us}"));
                g.ops.push("restart live".into());
                g.ops.push("check".into());
                break;
            }
            if rng.chance(1, 2) {
                g.ops.push(if rng.chance(1, 2) { "graceful".into() } else { "graceful fast".into() });
            } else {
                g.ops.push("trip".into());
                g.writes(rng, 0, 2, true);
                if rng.chance(1, 2) {
                    let t = g.tag("d");
                    g.ops.push(format!("snapshot {t}"));
                    g.later.push((t, g.db.clone(), false));
                }
                g.ops.push("wind".into());
                if rng.chance(1, 3) {
                    let t = g.tag("c");
                    g.ops.push(format!("snapshot {t}"));
                    g.later.push((t, g.db.clone(), true));
                }
                g.ops.push("exit".into());
            }
            g.ops.push("restart live".into());
            g.restarted(true);
            g.ops.push("subinfo".into());
            if rng.chance(2, 3) {
                g.writes(rng, 1, 2, false);
                g.ops.push("subinfo".into());
            }
        } else if kind < graceful_share + 8 {
            // ---- unsubscribed (all listeners gone for MAX_UNSUB_TIME), NOTHING written afterwards (a write there is the
            //      known finding unsubscribed-sub-restored-stale), then any stop: comes back as it was
            if !g.eoq {
                g.ops.push("sync".into());
                g.eoq = true;
                g.inflight.clear();
            }
            g.ops.push("unsub".into());
            g.have_sub = false;
            g.inflight.clear();
            if rng.chance(1, 2) {
                g.ops.push("graceful".into());
                g.ops.push("restart live".into());
            } else {
                let t = g.tag("u");
                g.ops.push(format!("snapshot {t}"));
                g.ops.push(format!("restart {t}"));
            }
            g.restarted(true);
            g.ops.push("subinfo".into());
            g.writes(rng, 1, 1, false);
            g.ops.push("subinfo".into());
        } else {
            // ---- abrupt stop at some phase
            let phase = rng.below(10);
            match phase {
                0..=3 => {
                    // running (or still in the initial query), maybe with candidates waiting
                    if rng.chance(2, 3) {
                        g.writes(rng, 1, 2, true);
                    }
                }
                4 | 5 => {
                    // draining
                    if rng.chance(1, 2) {
                        g.writes(rng, 1, 1, true);
                    }
                    g.ops.push("trip".into());
                    if rng.chance(1, 2) {
                        g.writes(rng, 1, 2, true);
                    }
                }
                6 | 7 => {
                    // cancelled, the drain kept open by another clone of the handle
                    g.ops.push("unsub hold".into());
                    g.have_sub = false;
                }
                _ => {
                    // quiescent
                    if !g.eoq {
                        g.ops.push("sync".into());
                        g.eoq = true;
                        g.inflight.clear();
                    }
                }
            }
            if tier == Tier::Thorough && !g.killed && rng.chance(1, 3) {
                // the same stop as a real SIGKILL of a child process
                g.killed = true;
                g.later.clear();
                if phase <= 3 && g.eoq && rng.chance(1, 2) {
                    g.ops.push(format!("kill busy {}", rng.range(20, 900)));
                } else {
                    g.ops.push(format!("kill idle {}", rng.range(0, 400)));
                }
                g.ops.push("restart live".into());
            } else {
                let t = g.tag("a");
                g.ops.push(format!("snapshot {t}"));
                g.ops.push(format!("restart {t}"));
            }
            g.restarted(false);
            g.ops.push("subinfo".into());
        }
        if g.killed && g.ops.last().map(|o| o == "check").unwrap_or(false) {
            break;
        }
    }
    // the images set aside on the way
    let later = std::mem::take(&mut g.later);
    for (t, db, back) in later {
        g.db = db;
        g.ops.push(format!("restart {t}"));
        g.restarted(back);
        g.ops.push("subinfo".into());
        if back {
            g.writes(rng, 1, 1, false);
            g.ops.push("subinfo".into());
        } else if rng.chance(1, 2) {
            g.ops.push("sub all".into());
            g.have_sub = true;
            g.eoq = true;
            g.writes(rng, 1, 1, false);
            g.ops.push("subinfo".into());
        }
    }
    g.ops
}
