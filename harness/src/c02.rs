//! C02 — real `process_multiple_changes` / `BookedVersions` / `VersionsSnapshot::insert_db` /
//! `from_conn` / `generate_sync` on a real agent's cr-sqlite database vs the Lean model `Corro.Book`.
//!
//! ops:  `insert <ranges>` · `partial <v> <lo-hi> <last_seq>` · `reload` · `sync`
//! One case = one origin actor (fresh id) as seen by one node, starting with nothing known about it.
//! The node is a real `Agent` built by `klukai_agent::agent::setup` once per process; its background
//! loops are NOT started: the harness holds the receiving ends of the `apply` and `clear_buf`
//! channels, ignores apply requests (a completed partial stays "apply pending") and runs the
//! clear-buffered-meta job for every request synchronously after the batch.
//!   insert  = one `process_multiple_changes` batch of `Changeset::Empty { versions }`, one per range
//!   partial = one `process_multiple_changes` batch with `Changeset::Full { version, changes: [], seqs, last_seq }`
//!   reload  = `BookedVersions::from_conn` on the node's database + `Bookie::replace_actor` (what a restart does)
//!   sync    = `generate_sync` on the node's `Bookie`
use std::collections::{BTreeMap, BTreeSet};
use std::path::PathBuf;
use std::sync::atomic::{AtomicU64, Ordering};
use std::sync::{Mutex, OnceLock};
use std::time::{Duration, Instant};

use klukai_agent::agent::{AgentOptions, process_multiple_changes, setup};
use klukai_types::actor::ActorId;
use klukai_types::agent::{Agent, BookedVersions, Bookie};
use klukai_types::base::{CrsqlDbVersion, CrsqlSeq};
use klukai_types::broadcast::{ChangeSource, ChangeV1, Changeset, Timestamp};
use klukai_types::config::Config;
use klukai_types::sync::generate_sync;
use klukai_types::tripwire::Tripwire;

use crate::rng::Rng;
use crate::runner::{CaseResult, Prop, Tier};
use crate::util::*;

pub struct C02;

const TMP_ROOT: &str = "/verif/harness/target/tmp";
static COUNTER: AtomicU64 = AtomicU64::new(0);

/// a fresh origin per case (the node keeps nothing about the previous ones)
fn fresh_actor() -> ActorId {
    let n = COUNTER.fetch_add(1, Ordering::SeqCst) as u128;
    ActorId(uuid::Uuid::from_u128(0xC02C_02C0_2C02_4C02_8C02_0000_0000_0000 + n + 1))
}

// ------------------------------------------------------------------ independent oracle

/// What the history says, kept as plain point sets (no interval arithmetic shared with the code
/// under test or with the Lean model).
#[derive(Default)]
struct Hist {
    /// versions that went through `insert_db` (complete, cleared or partial)
    touched: BTreeSet<u64>,
    /// partial versions: received seqs and last_seq
    partial: BTreeMap<u64, (BTreeSet<u64>, u64)>,
}

impl Hist {
    fn head(&self) -> Option<u64> {
        self.touched.iter().next_back().copied()
    }
    fn needed(&self) -> BTreeSet<u64> {
        match self.head() {
            None => BTreeSet::new(),
            Some(h) => (1..=h).filter(|v| !self.touched.contains(v)).collect(),
        }
    }
    fn missing_seqs(&self, v: u64) -> BTreeSet<u64> {
        match self.partial.get(&v) {
            None => BTreeSet::new(),
            Some((seqs, last)) => (0..=*last).filter(|s| !seqs.contains(s)).collect(),
        }
    }
    /// `contains_all(v..=v, Some(seqs))` as the property reads it: the version is known and, if it is
    /// only partially received, the offered seqs bring nothing new
    fn knows(&self, v: u64, lo: u64, hi: u64) -> bool {
        if !self.touched.contains(&v) {
            return false;
        }
        match self.partial.get(&v) {
            None => true,
            Some((seqs, _)) => (lo..=hi).all(|s| seqs.contains(&s)),
        }
    }
    /// the version is known as a whole: received, and not just in part
    fn knows_whole(&self, v: u64) -> bool {
        self.touched.contains(&v) && self.missing_seqs(v).is_empty()
    }
    /// a whole version (cleared / complete) arrived: whatever was buffered of it is superseded
    fn whole(&mut self, v: u64) {
        self.touched.insert(v);
        self.partial.remove(&v);
    }
}

fn points(rs: &[(u64, u64)]) -> BTreeSet<u64> {
    rs.iter().flat_map(|r| r.0..=r.1).collect()
}

fn to_ranges(s: &BTreeSet<u64>) -> Vec<(u64, u64)> {
    let mut out: Vec<(u64, u64)> = vec![];
    for &x in s {
        match out.last_mut() {
            Some(l) if l.1 + 1 == x => l.1 = x,
            _ => out.push((x, x)),
        }
    }
    out
}

// ------------------------------------------------------------------ the real thing

/// the node: a real agent without its background loops
struct NodeCtx {
    rt: tokio::runtime::Runtime,
    dir: PathBuf,
    agent: Agent,
    bookie: Bookie,
    /// keeps every channel of the agent open; `rx_apply` / `rx_clear_buf` are drained after each batch
    opts: Mutex<AgentOptions>,
    _trip_tx: tokio::sync::mpsc::Sender<()>,
}

fn node() -> Result<&'static NodeCtx, String> {
    static N: OnceLock<Result<NodeCtx, String>> = OnceLock::new();
    N.get_or_init(|| {
        let dir = PathBuf::from(format!("{TMP_ROOT}/c02-{}", std::process::id()));
        let _ = std::fs::remove_dir_all(&dir);
        std::fs::create_dir_all(dir.join("schema")).map_err(|e| format!("tmp dir: {e}"))?;
        let conf: Config = Config::builder()
            .api_addr("127.0.0.1:0".parse().unwrap())
            .gossip_addr("127.0.0.1:0".parse().unwrap())
            .admin_path(dir.join("admin.sock").display().to_string())
            .db_path(dir.join("corrosion.db").display().to_string())
            .add_schema_path(dir.join("schema").display().to_string())
            .build()
            .map_err(|e| e.to_string())?;
        let rt = tokio::runtime::Builder::new_multi_thread().worker_threads(2).enable_all().build().map_err(|e| e.to_string())?;
        let (tripwire, worker, trip_tx) = Tripwire::new_simple();
        let (agent, opts) = rt.block_on(async move {
            tokio::spawn(worker);
            setup(conf, tripwire).await.map_err(|e| format!("{e:#}"))
        })?;
        let bookie = Bookie::new(Default::default());
        Ok(NodeCtx { rt, dir, agent, bookie, opts: Mutex::new(opts), _trip_tx: trip_tx })
    })
    .as_ref()
    .map_err(|e| e.clone())
}

fn err_kind(e: &str) -> String {
    if e.contains("__corro_bookkeeping_gaps") && e.contains("UNIQUE") {
        "err insert-conflict".into()
    } else if e.contains("__corro_seq_bookkeeping") && e.contains("UNIQUE") {
        "err seq-conflict".into()
    } else if e.contains("Query changed") {
        "err seq-non-contiguous".into()
    } else {
        format!("err other:{}", e.replace(' ', "_"))
    }
}

struct Real {
    n: &'static NodeCtx,
    actor: ActorId,
}

impl Real {
    fn new() -> Result<Self, String> {
        Ok(Real { n: node()?, actor: fresh_actor() })
    }

    /// a copy of the live in-memory view of the origin
    fn bv(&self) -> BookedVersions {
        let actor = self.actor;
        self.n.rt.block_on(async {
            let booked = self.n.bookie.write::<&str, _>("c02", None).await.ensure(actor);
            let g = booked.read::<&str, _>("c02", None).await;
            (*g).clone()
        })
    }

    /// one real batch, then the clear-buffered-meta job for every request the batch scheduled
    fn deliver(&self, batch: Vec<ChangeV1>) -> Result<(), String> {
        let agent = self.n.agent.clone();
        let bookie = self.n.bookie.clone();
        let items: Vec<_> = batch.into_iter().map(|c| (c, ChangeSource::Sync, Instant::now())).collect();
        let res = self.n.rt.block_on(async move { process_multiple_changes(agent, bookie, items, Duration::from_secs(60)).await });
        let mut opts = self.n.opts.lock().unwrap();
        // apply requests: the background applier is not running (the partial stays "apply pending")
        self.n.rt.block_on(async { tokio::time::sleep(Duration::from_millis(0)).await });
        while opts.rx_apply.try_recv().is_ok() {}
        let mut clears = vec![];
        while let Ok(req) = opts.rx_clear_buf.try_recv() {
            clears.push(req);
        }
        drop(opts);
        for (actor, versions) in clears {
            self.clear_buffered_meta(actor, versions.start().0, versions.end().0)?;
        }
        res.map_err(|e| format!("{e}"))
    }

    /// the body of `clear_buffered_meta_loop` for one request, run to completion
    fn clear_buffered_meta(&self, actor: ActorId, lo: u64, hi: u64) -> Result<(), String> {
        let pool = self.n.agent.pool().clone();
        self.n
            .rt
            .block_on(async move {
                let mut conn = pool.write_low().await.map_err(|e| e.to_string())?;
                loop {
                    let tx = conn.immediate_transaction().map_err(|e| e.to_string())?;
                    let a = tx
                        .prepare_cached("DELETE FROM __corro_seq_bookkeeping WHERE (site_id, db_version, start_seq) IN (SELECT site_id, db_version, start_seq FROM __corro_seq_bookkeeping WHERE site_id = ? AND db_version >= ? AND db_version <= ? LIMIT ?)")
                        .and_then(|mut st| st.execute(rusqlite::params![actor, lo, hi, 1000]))
                        .map_err(|e| e.to_string())?;
                    let b = tx
                        .prepare_cached("DELETE FROM __corro_buffered_changes WHERE (site_id, db_version, seq) IN (SELECT site_id, db_version, seq FROM __corro_buffered_changes WHERE site_id = ? AND db_version >= ? AND db_version <= ? LIMIT ?)")
                        .and_then(|mut st| st.execute(rusqlite::params![actor, lo, hi, 1000]))
                        .map_err(|e| e.to_string())?;
                    tx.commit().map_err(|e| e.to_string())?;
                    if a < 1000 && b < 1000 {
                        return Ok::<(), String>(());
                    }
                }
            })
    }

    /// a batch of whole (cleared) versions, one `Changeset::Empty` per range
    fn insert(&self, rs: &[(u64, u64)]) -> Result<&'static str, String> {
        let bv = self.bv();
        let all_known = rs.iter().all(|r| bv.contains_all(CrsqlDbVersion(r.0)..=CrsqlDbVersion(r.1), None));
        let batch = rs
            .iter()
            .map(|r| ChangeV1 { actor_id: self.actor, changeset: Changeset::Empty { versions: CrsqlDbVersion(r.0)..=CrsqlDbVersion(r.1), ts: None } })
            .collect();
        self.deliver(batch)?;
        Ok(if all_known { "skip" } else { "ok" })
    }

    /// one chunk of a version, carrying no changes
    fn partial(&self, v: u64, seqs: (u64, u64), last: u64) -> Result<&'static str, String> {
        let ver = CrsqlDbVersion(v);
        let sr = CrsqlSeq(seqs.0)..=CrsqlSeq(seqs.1);
        let known = self.bv().contains_all(ver..=ver, Some(&sr));
        let batch = vec![ChangeV1 {
            actor_id: self.actor,
            changeset: Changeset::Full { version: ver, changes: vec![], seqs: sr, last_seq: CrsqlSeq(last), ts: Timestamp::zero() },
        }];
        self.deliver(batch)?;
        Ok(if known {
            "skip"
        } else if seqs.0 == 0 && seqs.1 == last {
            "ok" // complete and empty: a cleared version
        } else if seqs.1 < seqs.0 {
            "invalid"
        } else {
            "ok"
        })
    }

    /// what a restart does for this origin
    fn reload(&self) -> Result<(), String> {
        let actor = self.actor;
        let pool = self.n.agent.pool().clone();
        let bookie = self.n.bookie.clone();
        self.n.rt.block_on(async move {
            let conn = pool.read().await.map_err(|e| e.to_string())?;
            let bv = BookedVersions::from_conn(&conn, actor).map_err(|e| e.to_string())?;
            bookie.write::<&str, _>("c02", None).await.replace_actor(actor, bv);
            Ok::<(), String>(())
        })
    }

    fn with_conn<T>(&self, f: impl FnOnce(&rusqlite::Connection) -> rusqlite::Result<T>) -> T {
        let pool = self.n.agent.pool().clone();
        self.n.rt.block_on(async move {
            let conn = pool.read().await.expect("read connection");
            f(&conn).expect("bookkeeping query")
        })
    }

    fn gaps_rows(&self) -> Vec<(u64, u64)> {
        let actor = self.actor;
        self.with_conn(|conn| {
            let mut st = conn.prepare_cached("SELECT start, end FROM __corro_bookkeeping_gaps WHERE actor_id = ? ORDER BY start")?;
            let rows = st.query_map([actor], |row| Ok((row.get::<_, CrsqlDbVersion>(0)?.0, row.get::<_, CrsqlDbVersion>(1)?.0)))?;
            rows.collect()
        })
    }

    fn seq_rows(&self) -> Vec<(u64, u64, u64, u64)> {
        let actor = self.actor;
        self.with_conn(|conn| {
            let mut st = conn.prepare_cached(
                "SELECT db_version, start_seq, end_seq, last_seq FROM __corro_seq_bookkeeping WHERE site_id = ? ORDER BY db_version, start_seq",
            )?;
            let rows = st.query_map([actor], |row| {
                Ok((
                    row.get::<_, CrsqlDbVersion>(0)?.0,
                    row.get::<_, CrsqlSeq>(1)?.0,
                    row.get::<_, CrsqlSeq>(2)?.0,
                    row.get::<_, CrsqlSeq>(3)?.0,
                ))
            })?;
            rows.collect()
        })
    }

    fn dbv(&self) -> Option<u64> {
        use rusqlite::OptionalExtension;
        let actor = self.actor;
        self.with_conn(|conn| {
            conn.query_row("SELECT db_version FROM crsql_db_versions WHERE site_id = ?", [actor], |r| r.get::<_, CrsqlDbVersion>(0))
                .optional()
                .map(|o| o.map(|v| v.0))
        })
    }

    fn show(&self, bv: &BookedVersions) -> String {
        let ps: Vec<String> = partials_of(bv).iter().map(|(v, l, s)| format!("{v}/{l}/{}", show_ranges(s))).collect();
        let sr: Vec<String> = self.seq_rows().iter().map(|(v, s, e, l)| format!("{v}/{s}-{e}/{l}")).collect();
        format!(
            "gaps={} needed={} max={} dbv={} partials={} seqrows={}",
            show_ranges(&self.gaps_rows()),
            show_ranges(&needed_of(bv)),
            show_opt(bv.last().map(|v| v.0)),
            show_opt(self.dbv()),
            show_list(&ps, ";"),
            show_list(&sr, ";")
        )
    }

    fn sync(&self) -> SyncView {
        let st = self.n.rt.block_on(generate_sync(&self.n.bookie, self.n.agent.actor_id()));
        let a = self.actor;
        let head = st.heads.get(&a).map(|v| v.0);
        let need = st.need.get(&a).map(|v| v.iter().map(|r| (r.start().0, r.end().0)).collect()).unwrap_or_default();
        let mut pneed: Vec<(u64, Vec<(u64, u64)>)> = st
            .partial_need
            .get(&a)
            .map(|m| m.iter().map(|(v, rs)| (v.0, rs.iter().map(|r| (r.start().0, r.end().0)).collect())).collect())
            .unwrap_or_default();
        pneed.sort();
        SyncView { head, need, pneed }
    }
}

impl Drop for Real {
    /// the node forgets the origin of the finished case
    fn drop(&mut self) {
        let actor = self.actor;
        let pool = self.n.agent.pool().clone();
        let bookie = self.n.bookie.clone();
        let _ = self.n.rt.block_on(async move {
            bookie.write::<&str, _>("c02", None).await.remove(&actor);
            let conn = pool.write_low().await.map_err(|e| e.to_string())?;
            for sql in [
                "DELETE FROM __corro_bookkeeping_gaps WHERE actor_id = ?",
                "DELETE FROM __corro_seq_bookkeeping WHERE site_id = ?",
                "DELETE FROM crsql_db_versions WHERE site_id = ?",
            ] {
                conn.execute(sql, [actor]).map_err(|e| e.to_string())?;
            }
            Ok::<(), String>(())
        });
    }
}

fn needed_of(bv: &BookedVersions) -> Vec<(u64, u64)> {
    bv.needed().iter().map(|r| (r.start().0, r.end().0)).collect()
}

fn partials_of(bv: &BookedVersions) -> Vec<(u64, u64, Vec<(u64, u64)>)> {
    bv.partials.iter().map(|(v, p)| (v.0, p.last_seq.0, p.seqs.iter().map(|r| (r.start().0, r.end().0)).collect())).collect()
}

fn show_opt(x: Option<u64>) -> String {
    x.map(|v| v.to_string()).unwrap_or_else(|| "none".into())
}

struct SyncView {
    head: Option<u64>,
    need: Vec<(u64, u64)>,
    pneed: Vec<(u64, Vec<(u64, u64)>)>,
}

// ------------------------------------------------------------------ oracle checks

/// state checks after every op: durable rows = in-memory view = what the history says
fn check_state(real: &Real, bv: &BookedVersions, h: &Hist, fails: &mut Vec<String>) {
    let rows = real.gaps_rows();
    let needed = needed_of(bv);
    let head = h.head();
    if rows != needed {
        fails.push(format!("gaps rows {} differ from in-memory needed {}", show_ranges(&rows), show_ranges(&needed)));
    }
    // pairwise disjoint, non-adjacent, forward, inside 1..=head
    let mut prev_end: Option<u64> = None;
    for r in &rows {
        if r.0 > r.1 || r.0 < 1 || Some(r.1) > head {
            fails.push(format!("gap row {}-{} is not a forward range inside 1..={}", r.0, r.1, show_opt(head)));
        }
        if let Some(pe) = prev_end {
            if r.0 <= pe + 1 {
                fails.push(format!("gap rows overlap or touch at {}-{}", r.0, r.1));
            }
        }
        prev_end = Some(r.1);
    }
    if bv.last().map(|v| v.0) != head {
        fails.push(format!("head is {} but the largest version seen is {}", show_opt(bv.last().map(|v| v.0)), show_opt(head)));
    }
    let want = h.needed();
    if points(&needed) != want {
        fails.push(format!("needed {} but the versions never received inside 1..=head are {}", show_ranges(&needed), show_ranges(&to_ranges(&want))));
    }
    // contains_version agrees with the history on 1..=head+2
    for v in 1..=head.unwrap_or(0) + 2 {
        let c = bv.contains_version(&CrsqlDbVersion(v));
        let w = h.touched.contains(&v);
        if c != w {
            fails.push(format!("contains_version({v}) = {c} but the history says {w}"));
            break;
        }
    }
    // partials: in memory and as rows
    let ps = partials_of(bv);
    let want_p: Vec<(u64, u64, Vec<(u64, u64)>)> = h.partial.iter().map(|(v, (s, l))| (*v, *l, to_ranges(s))).collect();
    if ps != want_p {
        fails.push(format!("in-memory partials {ps:?} differ from the chunks received {want_p:?}"));
    }
    let want_rows: Vec<(u64, u64, u64, u64)> =
        want_p.iter().flat_map(|(v, l, rs)| rs.iter().map(move |r| (*v, r.0, r.1, *l))).collect();
    let sr = real.seq_rows();
    if sr != want_rows {
        fails.push(format!("seq bookkeeping rows {sr:?} differ from the chunks received {want_rows:?}"));
    }
}

/// the advertised state partitions 1..=head into need / partial / held, exactly as the history says
fn check_sync(sv: &SyncView, h: &Hist, fails: &mut Vec<String>) {
    let head = h.head();
    if sv.head != head {
        fails.push(format!("advertised head {} but the largest version seen is {}", show_opt(sv.head), show_opt(head)));
    }
    let need = points(&sv.need);
    let pmap: BTreeMap<u64, Vec<(u64, u64)>> = sv.pneed.iter().cloned().collect();
    if pmap.len() != sv.pneed.len() {
        fails.push("a version is listed twice in partial_need".into());
    }
    for v in 1..=head.unwrap_or(0) {
        let in_need = need.contains(&v);
        let in_partial = pmap.contains_key(&v);
        let missing = h.missing_seqs(v);
        let class = if !h.touched.contains(&v) {
            "need"
        } else if h.partial.contains_key(&v) && !missing.is_empty() {
            "partial"
        } else {
            "held"
        };
        let ok = match class {
            "need" => in_need && !in_partial,
            "partial" => !in_need && in_partial,
            _ => !in_need && !in_partial,
        };
        if !ok {
            fails.push(format!("version {v} should be advertised as {class} (in need: {in_need}, in partial_need: {in_partial})"));
            continue;
        }
        if class == "partial" {
            let got = &pmap[&v];
            if points(got) != missing || got.is_empty() || *got != to_ranges(&missing) {
                fails.push(format!("partial_need[{v}] = {} but the missing seqs are {}", show_ranges(got), show_ranges(&to_ranges(&missing))));
            }
        }
    }
    for v in need.iter().chain(pmap.keys()) {
        if *v < 1 || Some(*v) > head {
            fails.push(format!("version {v} advertised outside 1..=head"));
        }
    }
    if sv.need != to_ranges(&need) {
        fails.push(format!("advertised need {} is not in canonical form", show_ranges(&sv.need)));
    }
}

// ------------------------------------------------------------------ generator

/// the generator's own picture of the state, used only to aim at interesting boundaries
#[derive(Default)]
struct GenState {
    touched: BTreeSet<u64>,
    partial: BTreeMap<u64, (BTreeSet<u64>, u64)>,
}

impl GenState {
    fn head(&self) -> u64 {
        self.touched.iter().next_back().copied().unwrap_or(0)
    }
    /// versions next to something: gap boundaries ±1, head, head+1, head+2
    fn boundaries(&self) -> Vec<u64> {
        let head = self.head();
        let mut out = vec![head.max(1), head + 1, head + 2];
        let gaps = to_ranges(&(1..=head).filter(|v| !self.touched.contains(v)).collect());
        for (a, b) in gaps {
            for x in [a.saturating_sub(1), a, a + 1, b.saturating_sub(1), b, b + 1] {
                if x >= 1 {
                    out.push(x);
                }
            }
        }
        out
    }
    fn incomplete(&self, v: u64) -> bool {
        match self.partial.get(&v) {
            Some((s, l)) => (0..=*l).any(|q| !s.contains(&q)),
            None => false,
        }
    }
}

const VMAX: u64 = 40;

fn gen_version(rng: &mut Rng, g: &GenState, bias: bool) -> u64 {
    if bias && rng.chance(3, 5) {
        let b = g.boundaries();
        (*rng.pick(&b)).clamp(1, VMAX)
    } else {
        rng.range(1, VMAX)
    }
}

fn gen_insert(rng: &mut Rng, g: &mut GenState, bias: bool, last_op: &Option<String>) -> String {
    if let Some(l) = last_op {
        if l.starts_with("insert") && rng.chance(1, 12) {
            return l.clone(); // exact repeat
        }
    }
    let n = match rng.below(10) {
        0..=5 => 1,
        6..=7 => 2,
        8 => 3,
        _ => 4,
    };
    let mut rs = vec![];
    let open: Vec<u64> = g.partial.keys().copied().filter(|v| g.incomplete(*v)).collect();
    for _ in 0..n {
        // now and then: the whole version arrives while a part of it is buffered
        let a = if !open.is_empty() && rng.chance(1, 6) { *rng.pick(&open) } else { gen_version(rng, g, bias) };
        let len = match rng.below(8) {
            0..=3 => 0,
            4..=5 => rng.range(1, 2),
            6 => rng.range(2, 6),
            _ => rng.range(4, 15),
        };
        let (lo, hi) = if rng.chance(1, 2) { (a, (a + len).min(VMAX)) } else { (a.saturating_sub(len).max(1), a) };
        if lo == 0 || lo > hi {
            continue;
        }
        rs.push((lo, hi));
    }
    if rs.is_empty() {
        // fall back to a fresh version above everything
        let v = (g.head() + 1 + rng.below(3)).min(VMAX + 5);
        rs.push((v, v));
    }
    for r in &rs {
        let known = (r.0..=r.1).all(|v| g.touched.contains(&v) && !g.incomplete(v));
        if !known {
            for v in r.0..=r.1 {
                g.touched.insert(v);
                g.partial.remove(&v);
            }
        }
    }
    format!("insert {}", show_ranges(&rs))
}

fn last_seq_of(case_salt: u64, v: u64) -> u64 {
    // one last_seq per version, as the origin produced it
    (fnv(&format!("{case_salt}:{v}")) >> 7) % 9
}

fn gen_partial(rng: &mut Rng, g: &mut GenState, salt: u64, bias: bool) -> String {
    // mostly: a version that is still incomplete, or one that is not known yet (a gap or beyond the
    // head); sometimes any version (a chunk of something already held must be skipped)
    let open: Vec<u64> = g.partial.keys().copied().filter(|v| g.incomplete(*v)).collect();
    let v = if !open.is_empty() && rng.chance(1, 2) {
        *rng.pick(&open)
    } else if rng.chance(1, 6) {
        gen_version(rng, g, bias)
    } else {
        let mut v = gen_version(rng, g, bias);
        for _ in 0..6 {
            if !g.touched.contains(&v) {
                break;
            }
            v = gen_version(rng, g, bias);
        }
        v
    };
    let last = last_seq_of(salt, v);
    let (lo, hi) = match rng.below(10) {
        // everything but seq 0
        0..=1 if last >= 1 => (1, last),
        // tail / head / middle chunks
        2..=3 => {
            let lo = rng.range(0, last);
            (lo, last)
        }
        4..=5 => (0, rng.range(0, last)),
        6 => {
            // adjacent to / overlapping an existing chunk
            match g.partial.get(&v) {
                Some((s, _)) if !s.is_empty() => {
                    let x = *rng.pick(&s.iter().copied().collect::<Vec<_>>());
                    let lo = x.saturating_sub(rng.below(2));
                    (lo, (x + 1 + rng.below(2)).min(last).max(lo))
                }
                _ => (0, 0),
            }
        }
        7 if rng.chance(1, 4) => (last.min(3), 0.max(last.min(3)).saturating_sub(1)), // possibly inverted
        _ => {
            let lo = rng.range(0, last);
            (lo, rng.range(lo, last))
        }
    };
    // mirror what will happen, for the generator's aim only
    let known = g.touched.contains(&v)
        && match g.partial.get(&v) {
            None => true,
            Some((s, _)) => (lo..=hi).all(|q| s.contains(&q)),
        };
    if !known && lo == 0 && hi == last {
        g.touched.insert(v);
        g.partial.remove(&v);
    } else if !known && lo <= hi {
        g.touched.insert(v);
        let e = g.partial.entry(v).or_insert_with(|| (BTreeSet::new(), last));
        for q in lo..=hi {
            e.0.insert(q);
        }
    }
    format!("partial {v} {lo}-{hi} {last}")
}

// ------------------------------------------------------------------ Prop

/// all single ranges lo..=hi over 1..=n
fn single_ranges(n: u64) -> Vec<(u64, u64)> {
    let mut v = vec![];
    for lo in 1..=n {
        for hi in lo..=n {
            v.push((lo, hi));
        }
    }
    v
}

impl Prop for C02 {
    fn id(&self) -> &'static str {
        "C02"
    }
    fn rule(&self) -> &'static str {
        "one case = one op sequence (insert / partial / reload / sync) on a fresh cr-sqlite database for one origin actor; \
         non-trivial iff at least one insertion changed the set of gap rows (created, split, merged, shrank or removed a gap); \
         distinct by hash of the op lines"
    }
    fn default_cases(&self, tier: Tier) -> usize {
        match tier {
            Tier::Quick => 150,
            Tier::Thorough => 3000,
        }
    }
    fn begin(&self) {
        let _ = std::fs::create_dir_all(TMP_ROOT);
    }
    fn end(&self) {
        if let Ok(n) = node() {
            let _ = std::fs::remove_dir_all(&n.dir);
        }
    }
    fn enumerated_case(&self, tier: Tier, index: usize) -> Option<Vec<String>> {
        // every sequence of <= 3 single-range insertions over versions 1..=6 (thorough) / <= 2 over 1..=4 (quick)
        let (n, maxlen) = if tier == Tier::Thorough { (6u64, 3usize) } else { (4u64, 2usize) };
        let rs = single_ranges(n);
        let k = rs.len();
        let mut idx = index;
        for len in 1..=maxlen {
            let total = k.pow(len as u32);
            if idx < total {
                let mut ops = vec![];
                let mut x = idx;
                for _ in 0..len {
                    let r = rs[x % k];
                    x /= k;
                    ops.push(format!("insert {}-{}", r.0, r.1));
                }
                ops.push("sync".into());
                ops.push("reload".into());
                return Some(ops);
            }
            idx -= total;
        }
        None
    }
    fn gen_case(&self, rng: &mut Rng, _tier: Tier, _index: usize) -> Vec<String> {
        let salt = rng.next_u64();
        let mut g = GenState::default();
        let mut ops: Vec<String> = vec![];
        // from empty, or from a random reachable state built by an unbiased prefix
        let prefix = if rng.chance(1, 3) { 0 } else { rng.range(2, 8) };
        let mut last_op: Option<String> = None;
        for _ in 0..prefix {
            let op = if rng.chance(1, 5) { gen_partial(rng, &mut g, salt, false) } else { gen_insert(rng, &mut g, false, &last_op) };
            last_op = Some(op.clone());
            ops.push(op);
        }
        let n = 20usize.saturating_sub(prefix as usize).max(8);
        for _ in 0..n {
            let op = match rng.below(20) {
                0..=10 => gen_insert(rng, &mut g, true, &last_op),
                11..=15 => gen_partial(rng, &mut g, salt, true),
                16..=17 => "sync".to_string(),
                _ => "reload".to_string(),
            };
            last_op = Some(op.clone());
            ops.push(op);
        }
        ops.push("sync".into());
        ops.push("reload".into());
        ops.push("sync".into());
        ops
    }
    fn exec_case(&self, ops: &[String]) -> CaseResult {
        let mut r = CaseResult::default();
        let real = match Real::new() {
            Ok(x) => x,
            Err(e) => {
                r.inconclusive = Some(format!("node-setup:{}", e.replace(' ', "_")));
                return r;
            }
        };
        let mut h = Hist::default();
        let mut fails: Vec<String> = vec![];
        for (i, op) in ops.iter().enumerate() {
            let toks: Vec<&str> = op.split_whitespace().collect();
            let before = fails.len();
            let out = match toks.as_slice() {
                ["insert", rs] => match parse_ranges(rs) {
                    Some(rs) if !rs.is_empty() && rs.iter().all(|x| 1 <= x.0 && x.0 <= x.1) => {
                        let rows0 = real.gaps_rows();
                        // what the history expects: ranges not yet known as a whole are processed
                        let processed: Vec<(u64, u64)> = rs.iter().copied().filter(|x| !(x.0..=x.1).all(|v| h.knows_whole(v))).collect();
                        let status = match real.insert(&rs) {
                            Ok(s) => {
                                if (s == "skip") != processed.is_empty() {
                                    fails.push(format!("whole versions {} were {s} but the history says {} of them bring something new", show_ranges(&rs), processed.len()));
                                }
                                for x in &processed {
                                    for v in x.0..=x.1 {
                                        if h.partial.contains_key(&v) {
                                            r.tags.push(if h.missing_seqs(v).is_empty() { "whole-over-complete-partial".into() } else { "whole-over-incomplete-partial".into() });
                                        }
                                        h.whole(v);
                                    }
                                }
                                r.tags.push(format!("insert-{s}"));
                                s.to_string()
                            }
                            Err(e) => {
                                fails.push(format!("process_multiple_changes failed: {e}"));
                                err_kind(&e)
                            }
                        };
                        if real.gaps_rows() != rows0 {
                            r.nontrivial = true;
                            r.tags.push("gaps-changed".into());
                        }
                        r.tags.push(format!("insert-ranges:{}", rs.len()));
                        let bv = real.bv();
                        check_state(&real, &bv, &h, &mut fails);
                        format!("{status} {}", real.show(&bv))
                    }
                    _ => "bad-op".into(),
                },
                ["partial", v, seqs, last] => match (v.parse::<u64>(), parse_range(seqs), last.parse::<u64>()) {
                    (Ok(v), Some(seqs), Ok(last)) if v >= 1 => {
                        let expect = if h.knows(v, seqs.0, seqs.1) {
                            "skip"
                        } else if seqs.0 == 0 && seqs.1 == last {
                            "whole"
                        } else if seqs.1 < seqs.0 {
                            "invalid"
                        } else {
                            "chunk"
                        };
                        let status = match real.partial(v, seqs, last) {
                            Ok(s) => {
                                let agree = match expect {
                                    "skip" => s == "skip",
                                    "invalid" => s == "invalid",
                                    _ => s == "ok",
                                };
                                if !agree {
                                    fails.push(format!("chunk {v} {}-{} was {s} but the history says {expect}", seqs.0, seqs.1));
                                }
                                match expect {
                                    "whole" => {
                                        h.whole(v);
                                        r.tags.push("partial-complete-empty-chunk".into());
                                    }
                                    "chunk" => {
                                        h.touched.insert(v);
                                        let e = h.partial.entry(v).or_insert_with(|| (BTreeSet::new(), last));
                                        for q in seqs.0..=seqs.1 {
                                            e.0.insert(q);
                                        }
                                        r.tags.push(if h.missing_seqs(v).is_empty() { "partial-completed".into() } else { "partial-incomplete".into() });
                                        if h.missing_seqs(v) == [0u64].into_iter().collect() {
                                            r.tags.push("partial-missing-only-seq0".into());
                                        }
                                    }
                                    other => r.tags.push(format!("partial-{other}")),
                                }
                                s.to_string()
                            }
                            Err(e) => {
                                fails.push(format!("process_multiple_changes failed: {e}"));
                                err_kind(&e)
                            }
                        };
                        let bv = real.bv();
                        check_state(&real, &bv, &h, &mut fails);
                        format!("{status} {}", real.show(&bv))
                    }
                    _ => "bad-op".into(),
                },
                ["reload"] => match real.reload() {
                    Ok(()) => {
                        let bv = real.bv();
                        check_state(&real, &bv, &h, &mut fails);
                        format!("ok {}", real.show(&bv))
                    }
                    Err(e) => {
                        fails.push(format!("from_conn failed: {e}"));
                        err_kind(&e)
                    }
                },
                ["sync"] => {
                    let sv = real.sync();
                    check_sync(&sv, &h, &mut fails);
                    if !sv.pneed.is_empty() {
                        r.tags.push("sync-with-partial-need".into());
                    }
                    let pn: Vec<String> = sv.pneed.iter().map(|(v, rs)| format!("{v}/{}", show_ranges(rs))).collect();
                    format!("sync head={} need={} pneed={}", show_opt(sv.head), show_ranges(&sv.need), show_list(&pn, ";"))
                }
                _ => "bad-op".into(),
            };
            for f in fails.iter_mut().skip(before) {
                *f = format!("after op {i} `{op}`: {f}");
            }
            r.outputs.push(out);
        }
        // report each kind of failure once per case
        fails.truncate(4);
        r.oracle_failures = fails;
        r
    }
}
