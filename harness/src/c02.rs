//! C02 — real `BookedVersions` / `VersionsSnapshot::insert_db` / `from_conn` / `generate_sync`
//! on a real cr-sqlite database vs the Lean model `Corro.Book`.
//!
//! ops:  `insert <ranges>` · `partial <v> <lo-hi> <last_seq>` · `reload` · `sync`
//! One case = one origin actor on one node, starting from an empty database.
use std::collections::{BTreeMap, BTreeSet, HashMap};
use std::path::PathBuf;
use std::sync::{Arc, OnceLock};
use std::sync::atomic::{AtomicU64, Ordering};

use klukai_agent::agent::util::{process_empty_version, process_incomplete_version};
use klukai_types::actor::ActorId;
use klukai_types::agent::{BookedVersions, Bookie, KnownDbVersion, migrate};
use klukai_types::base::{CrsqlDbVersion, CrsqlSeq};
use klukai_types::broadcast::{ChangesetParts, Timestamp};
use klukai_types::sqlite::{CrConn, setup_conn};
use klukai_types::sqlite_pool::InterruptibleTransaction;
use klukai_types::sync::generate_sync;
use rangemap::RangeInclusiveSet;
use rusqlite::Connection;

use crate::rng::Rng;
use crate::runner::{CaseResult, Prop, Tier};
use crate::util::*;

pub struct C02;

const TMP_ROOT: &str = "/verif/harness/target/tmp";
static COUNTER: AtomicU64 = AtomicU64::new(0);

fn actor() -> ActorId {
    ActorId(uuid::Uuid::from_u128(0xC02C_02C0_2C02_4C02_8C02_C02C_02C0_2C02))
}

// ------------------------------------------------------------------ independent oracle

/// What the history says, kept as plain point sets (no interval arithmetic shared with the code
/// under test or with the Lean model).
#[derive(Default)]
struct Hist {
    /// versions that went through `insert_db` (complete, cleared or partial)
    touched: BTreeSet<u64>,
    /// versions inserted as complete / cleared
    complete: BTreeSet<u64>,
    /// partial versions: received seqs and last_seq
    partial: BTreeMap<u64, (BTreeSet<u64>, u64)>,
}

impl Hist {
    fn head(&self) -> Option<u64> {
        self.touched.iter().next_back().copied()
    }
    fn needed(&self) -> BTreeSet<u64> {
        match self.head() {
            None => BTreeSet::new(),
            Some(h) => (1..=h).filter(|v| !self.touched.contains(v)).collect(),
        }
    }
    fn missing_seqs(&self, v: u64) -> BTreeSet<u64> {
        match self.partial.get(&v) {
            None => BTreeSet::new(),
            Some((seqs, last)) => (0..=*last).filter(|s| !seqs.contains(s)).collect(),
        }
    }
    /// `contains_all(v..=v, Some(seqs))` as the property reads it: the version is known and, if it is
    /// only partially received, the offered seqs bring nothing new
    fn knows(&self, v: u64, lo: u64, hi: u64) -> bool {
        if !self.touched.contains(&v) {
            return false;
        }
        match self.partial.get(&v) {
            None => true,
            Some((seqs, _)) => (lo..=hi).all(|s| seqs.contains(&s)),
        }
    }
}

fn points(rs: &[(u64, u64)]) -> BTreeSet<u64> {
    rs.iter().flat_map(|r| r.0..=r.1).collect()
}

fn to_ranges(s: &BTreeSet<u64>) -> Vec<(u64, u64)> {
    let mut out: Vec<(u64, u64)> = vec![];
    for &x in s {
        match out.last_mut() {
            Some(l) if l.1 + 1 == x => l.1 = x,
            _ => out.push((x, x)),
        }
    }
    out
}

// ------------------------------------------------------------------ the real thing

struct Real {
    dir: PathBuf,
    conn: CrConn,
    bv: BookedVersions,
}

/// A migrated, empty database is built once per process (real `CrConn::init` + `setup_conn` +
/// `migrate`); every case works on its own copy of that file in its own directory.
fn template() -> Result<&'static PathBuf, String> {
    static T: OnceLock<Result<PathBuf, String>> = OnceLock::new();
    T.get_or_init(|| {
        let dir = PathBuf::from(format!("{TMP_ROOT}/c02-{}-template", std::process::id()));
        let _ = std::fs::remove_dir_all(&dir);
        std::fs::create_dir_all(&dir).map_err(|e| format!("tmp dir: {e}"))?;
        let path = dir.join("db.sqlite");
        {
            let mut conn = CrConn::init(Connection::open(&path).map_err(|e| e.to_string())?).map_err(|e| e.to_string())?;
            setup_conn(&conn).map_err(|e| e.to_string())?;
            migrate(Arc::new(uhlc::HLC::default()), &mut conn).map_err(|e| e.to_string())?;
            conn.execute_batch("PRAGMA wal_checkpoint(TRUNCATE);").map_err(|e| e.to_string())?;
        }
        Ok(path)
    })
    .as_ref()
    .map_err(|e| e.clone())
}

fn open_db() -> Result<(PathBuf, CrConn), String> {
    let tpl = template()?;
    let n = COUNTER.fetch_add(1, Ordering::SeqCst);
    let dir = PathBuf::from(format!("{TMP_ROOT}/c02-{}-{n}", std::process::id()));
    let _ = std::fs::remove_dir_all(&dir);
    std::fs::create_dir_all(&dir).map_err(|e| format!("tmp dir: {e}"))?;
    let path = dir.join("db.sqlite");
    std::fs::copy(tpl, &path).map_err(|e| format!("copy template: {e}"))?;
    let conn = CrConn::init(Connection::open(&path).map_err(|e| e.to_string())?).map_err(|e| e.to_string())?;
    setup_conn(&conn).map_err(|e| e.to_string())?;
    // durability against power loss is not what is tested here: skip the fsyncs
    conn.execute_batch("PRAGMA synchronous = OFF;").map_err(|e| e.to_string())?;
    Ok((dir, conn))
}

impl Drop for Real {
    fn drop(&mut self) {
        let _ = std::fs::remove_dir_all(&self.dir);
    }
}

fn err_kind(e: &rusqlite::Error) -> String {
    let s = e.to_string();
    if s.contains("__corro_bookkeeping_gaps") && s.contains("UNIQUE") {
        "err insert-conflict".into()
    } else if s.contains("__corro_seq_bookkeeping") && s.contains("UNIQUE") {
        "err seq-conflict".into()
    } else if matches!(e, rusqlite::Error::StatementChangedRows(_)) {
        "err seq-non-contiguous".into()
    } else {
        format!("err sqlite:{}", s.replace(' ', "_"))
    }
}

fn v_set(rs: &[(u64, u64)]) -> RangeInclusiveSet<CrsqlDbVersion> {
    rs.iter().map(|r| CrsqlDbVersion(r.0)..=CrsqlDbVersion(r.1)).collect()
}

impl Real {
    fn new() -> Result<Self, String> {
        let (dir, conn) = open_db()?;
        Ok(Real { dir, conn, bv: BookedVersions::new(actor()) })
    }

    /// what `process_multiple_changes` does for complete / cleared changesets covering `rs`
    fn insert(&mut self, rs: &[(u64, u64)]) -> Result<(), rusqlite::Error> {
        let max0 = self.bv.last();
        let tx = InterruptibleTransaction::new(self.conn.immediate_transaction()?, None, "c02");
        for r in rs {
            let end = CrsqlDbVersion(r.1);
            if Some(end) > max0 {
                process_empty_version(&tx, actor(), &end)?;
            }
        }
        let mut snap = self.bv.snapshot();
        match snap.insert_db(&tx, v_set(rs)) {
            Ok(()) => {
                tx.commit()?;
                self.bv.commit_snapshot(snap);
                Ok(())
            }
            Err(e) => {
                // the real caller drops the snapshot (debug_assert in its Drop) and rolls back
                std::mem::forget(snap);
                drop(tx);
                Err(e)
            }
        }
    }

    /// what `process_multiple_changes` does for one incomplete changeset
    fn partial(&mut self, v: u64, seqs: (u64, u64), last: u64) -> Result<&'static str, rusqlite::Error> {
        let ver = CrsqlDbVersion(v);
        let sr = CrsqlSeq(seqs.0)..=CrsqlSeq(seqs.1);
        if self.bv.contains_all(ver..=ver, Some(&sr)) {
            return Ok("skip");
        }
        if seqs.1 < seqs.0 {
            return Ok("invalid");
        }
        let tx = InterruptibleTransaction::new(self.conn.immediate_transaction()?, None, "c02");
        let parts = ChangesetParts { version: ver, changes: vec![], seqs: sr, last_seq: CrsqlSeq(last), ts: Timestamp::zero() };
        let known = process_incomplete_version(&tx, actor(), &parts)?;
        let partial = match known {
            KnownDbVersion::Partial(p) => p,
            _ => unreachable!("process_incomplete_version returns Partial"),
        };
        let mut snap = self.bv.snapshot();
        match snap.insert_db(&tx, v_set(&[(v, v)])) {
            Ok(()) => {
                tx.commit()?;
                self.bv.commit_snapshot(snap);
                self.bv.insert_partial(ver, partial);
                Ok("ok")
            }
            Err(e) => {
                std::mem::forget(snap);
                drop(tx);
                Err(e)
            }
        }
    }

    fn reload(&mut self) -> Result<(), rusqlite::Error> {
        self.bv = BookedVersions::from_conn(&self.conn, actor())?;
        Ok(())
    }

    fn gaps_rows(&self) -> Vec<(u64, u64)> {
        let mut st = self
            .conn
            .prepare_cached("SELECT start, end FROM __corro_bookkeeping_gaps WHERE actor_id = ? ORDER BY start")
            .unwrap();
        st.query_map([actor()], |row| Ok((row.get::<_, CrsqlDbVersion>(0)?.0, row.get::<_, CrsqlDbVersion>(1)?.0)))
            .unwrap()
            .collect::<Result<Vec<_>, _>>()
            .unwrap()
    }

    fn foreign_gap_rows(&self) -> i64 {
        self.conn
            .query_row("SELECT count(*) FROM __corro_bookkeeping_gaps WHERE actor_id != ?", [actor()], |r| r.get(0))
            .unwrap()
    }

    fn seq_rows(&self) -> Vec<(u64, u64, u64, u64)> {
        let mut st = self
            .conn
            .prepare_cached(
                "SELECT db_version, start_seq, end_seq, last_seq FROM __corro_seq_bookkeeping WHERE site_id = ? ORDER BY db_version, start_seq",
            )
            .unwrap();
        st.query_map([actor()], |row| {
            Ok((
                row.get::<_, CrsqlDbVersion>(0)?.0,
                row.get::<_, CrsqlSeq>(1)?.0,
                row.get::<_, CrsqlSeq>(2)?.0,
                row.get::<_, CrsqlSeq>(3)?.0,
            ))
        })
        .unwrap()
        .collect::<Result<Vec<_>, _>>()
        .unwrap()
    }

    fn dbv(&self) -> Option<u64> {
        use rusqlite::OptionalExtension;
        self.conn
            .query_row("SELECT db_version FROM crsql_db_versions WHERE site_id = ?", [actor()], |r| r.get::<_, CrsqlDbVersion>(0))
            .optional()
            .unwrap()
            .map(|v| v.0)
    }

    fn needed(&self) -> Vec<(u64, u64)> {
        self.bv.needed().iter().map(|r| (r.start().0, r.end().0)).collect()
    }

    fn partials(&self) -> Vec<(u64, u64, Vec<(u64, u64)>)> {
        self.bv
            .partials
            .iter()
            .map(|(v, p)| (v.0, p.last_seq.0, p.seqs.iter().map(|r| (r.start().0, r.end().0)).collect()))
            .collect()
    }

    fn show(&self) -> String {
        let ps: Vec<String> = self.partials().iter().map(|(v, l, s)| format!("{v}/{l}/{}", show_ranges(s))).collect();
        let sr: Vec<String> = self.seq_rows().iter().map(|(v, s, e, l)| format!("{v}/{s}-{e}/{l}")).collect();
        format!(
            "gaps={} needed={} max={} dbv={} partials={} seqrows={}",
            show_ranges(&self.gaps_rows()),
            show_ranges(&self.needed()),
            show_opt(self.bv.last().map(|v| v.0)),
            show_opt(self.dbv()),
            show_list(&ps, ";"),
            show_list(&sr, ";")
        )
    }
}

fn show_opt(x: Option<u64>) -> String {
    x.map(|v| v.to_string()).unwrap_or_else(|| "none".into())
}

struct SyncView {
    head: Option<u64>,
    need: Vec<(u64, u64)>,
    pneed: Vec<(u64, Vec<(u64, u64)>)>,
}

fn real_sync(rt: &tokio::runtime::Runtime, bv: &BookedVersions) -> SyncView {
    let mut map = HashMap::new();
    map.insert(actor(), bv.clone());
    let bookie = Bookie::new(map);
    let me = ActorId(uuid::Uuid::from_u128(1));
    let st = rt.block_on(generate_sync(&bookie, me));
    let head = st.heads.get(&actor()).map(|v| v.0);
    let need = st.need.get(&actor()).map(|v| v.iter().map(|r| (r.start().0, r.end().0)).collect()).unwrap_or_default();
    let mut pneed: Vec<(u64, Vec<(u64, u64)>)> = st
        .partial_need
        .get(&actor())
        .map(|m| m.iter().map(|(v, rs)| (v.0, rs.iter().map(|r| (r.start().0, r.end().0)).collect())).collect())
        .unwrap_or_default();
    pneed.sort();
    SyncView { head, need, pneed }
}

// ------------------------------------------------------------------ oracle checks

/// state checks after every op: durable rows = in-memory view = what the history says
fn check_state(real: &Real, h: &Hist, fails: &mut Vec<String>) {
    let rows = real.gaps_rows();
    let needed = real.needed();
    let head = h.head();
    if rows != needed {
        fails.push(format!("gaps rows {} differ from in-memory needed {}", show_ranges(&rows), show_ranges(&needed)));
    }
    if real.foreign_gap_rows() != 0 {
        fails.push("gaps rows of another actor appeared".into());
    }
    // pairwise disjoint, non-adjacent, forward, inside 1..=head
    let mut prev_end: Option<u64> = None;
    for r in &rows {
        if r.0 > r.1 || r.0 < 1 || Some(r.1) > head {
            fails.push(format!("gap row {}-{} is not a forward range inside 1..={}", r.0, r.1, show_opt(head)));
        }
        if let Some(pe) = prev_end {
            if r.0 <= pe + 1 {
                fails.push(format!("gap rows overlap or touch at {}-{}", r.0, r.1));
            }
        }
        prev_end = Some(r.1);
    }
    if real.bv.last().map(|v| v.0) != head {
        fails.push(format!("head is {} but the largest version seen is {}", show_opt(real.bv.last().map(|v| v.0)), show_opt(head)));
    }
    let want = h.needed();
    if points(&needed) != want {
        fails.push(format!("needed {} but the versions never received inside 1..=head are {}", show_ranges(&needed), show_ranges(&to_ranges(&want))));
    }
    // contains_version agrees with the history on 1..=head+2
    for v in 1..=head.unwrap_or(0) + 2 {
        let c = real.bv.contains_version(&CrsqlDbVersion(v));
        let w = h.touched.contains(&v);
        if c != w {
            fails.push(format!("contains_version({v}) = {c} but the history says {w}"));
            break;
        }
    }
    // partials: in memory and as rows
    let ps = real.partials();
    let want_p: Vec<(u64, u64, Vec<(u64, u64)>)> = h.partial.iter().map(|(v, (s, l))| (*v, *l, to_ranges(s))).collect();
    if ps != want_p {
        fails.push(format!("in-memory partials {ps:?} differ from the chunks received {want_p:?}"));
    }
    let want_rows: Vec<(u64, u64, u64, u64)> =
        want_p.iter().flat_map(|(v, l, rs)| rs.iter().map(move |r| (*v, r.0, r.1, *l))).collect();
    let sr = real.seq_rows();
    if sr != want_rows {
        fails.push(format!("seq bookkeeping rows {sr:?} differ from the chunks received {want_rows:?}"));
    }
}

/// the advertised state partitions 1..=head into need / partial / held, exactly as the history says
fn check_sync(sv: &SyncView, h: &Hist, fails: &mut Vec<String>) {
    let head = h.head();
    if sv.head != head {
        fails.push(format!("advertised head {} but the largest version seen is {}", show_opt(sv.head), show_opt(head)));
    }
    let need = points(&sv.need);
    let pmap: BTreeMap<u64, Vec<(u64, u64)>> = sv.pneed.iter().cloned().collect();
    if pmap.len() != sv.pneed.len() {
        fails.push("a version is listed twice in partial_need".into());
    }
    for v in 1..=head.unwrap_or(0) {
        let in_need = need.contains(&v);
        let in_partial = pmap.contains_key(&v);
        let missing = h.missing_seqs(v);
        let class = if !h.touched.contains(&v) {
            "need"
        } else if h.partial.contains_key(&v) && !h.complete.contains(&v) && !missing.is_empty() {
            "partial"
        } else {
            "held"
        };
        let ok = match class {
            "need" => in_need && !in_partial,
            "partial" => !in_need && in_partial,
            _ => !in_need && !in_partial,
        };
        if !ok {
            fails.push(format!("version {v} should be advertised as {class} (in need: {in_need}, in partial_need: {in_partial})"));
            continue;
        }
        if class == "partial" {
            let got = &pmap[&v];
            if points(got) != missing || got.is_empty() || *got != to_ranges(&missing) {
                fails.push(format!("partial_need[{v}] = {} but the missing seqs are {}", show_ranges(got), show_ranges(&to_ranges(&missing))));
            }
        }
    }
    for v in need.iter().chain(pmap.keys()) {
        if *v < 1 || Some(*v) > head {
            fails.push(format!("version {v} advertised outside 1..=head"));
        }
    }
    if sv.need != to_ranges(&need) {
        fails.push(format!("advertised need {} is not in canonical form", show_ranges(&sv.need)));
    }
}

// ------------------------------------------------------------------ generator

/// the generator's own picture of the state, used only to aim at interesting boundaries
#[derive(Default)]
struct GenState {
    touched: BTreeSet<u64>,
    partial: BTreeMap<u64, (BTreeSet<u64>, u64)>,
}

impl GenState {
    fn head(&self) -> u64 {
        self.touched.iter().next_back().copied().unwrap_or(0)
    }
    /// versions next to something: gap boundaries ±1, head, head+1, head+2
    fn boundaries(&self) -> Vec<u64> {
        let head = self.head();
        let mut out = vec![head.max(1), head + 1, head + 2];
        let gaps = to_ranges(&(1..=head).filter(|v| !self.touched.contains(v)).collect());
        for (a, b) in gaps {
            for x in [a.saturating_sub(1), a, a + 1, b.saturating_sub(1), b, b + 1] {
                if x >= 1 {
                    out.push(x);
                }
            }
        }
        out
    }
    fn incomplete(&self, v: u64) -> bool {
        match self.partial.get(&v) {
            Some((s, l)) => (0..=*l).any(|q| !s.contains(&q)),
            None => false,
        }
    }
}

const VMAX: u64 = 40;

fn gen_version(rng: &mut Rng, g: &GenState, bias: bool) -> u64 {
    if bias && rng.chance(3, 5) {
        let b = g.boundaries();
        (*rng.pick(&b)).clamp(1, VMAX)
    } else {
        rng.range(1, VMAX)
    }
}

fn gen_insert(rng: &mut Rng, g: &mut GenState, bias: bool, last_op: &Option<String>) -> String {
    if let Some(l) = last_op {
        if l.starts_with("insert") && rng.chance(1, 12) {
            return l.clone(); // exact repeat
        }
    }
    let n = match rng.below(10) {
        0..=5 => 1,
        6..=7 => 2,
        8 => 3,
        _ => 4,
    };
    let mut rs = vec![];
    for _ in 0..n {
        let a = gen_version(rng, g, bias);
        let len = match rng.below(8) {
            0..=3 => 0,
            4..=5 => rng.range(1, 2),
            6 => rng.range(2, 6),
            _ => rng.range(4, 15),
        };
        let (lo, hi) = if rng.chance(1, 2) { (a, (a + len).min(VMAX)) } else { (a.saturating_sub(len).max(1), a) };
        // a complete changeset over a version that is still an incomplete partial leaves the in-memory
        // partial behind (reported separately); the generator stays out of that region
        let (mut lo2, mut hi2) = (lo, hi);
        while lo2 <= hi2 && g.incomplete(hi2) {
            if hi2 == 0 { break; }
            hi2 -= 1;
        }
        while lo2 <= hi2 && g.incomplete(lo2) {
            lo2 += 1;
        }
        if lo2 > hi2 || lo2 == 0 || (lo2..=hi2).any(|v| g.incomplete(v)) {
            continue;
        }
        rs.push((lo2, hi2));
    }
    if rs.is_empty() {
        // fall back to a fresh version above everything
        let v = (g.head() + 1 + rng.below(3)).min(VMAX + 5);
        rs.push((v, v));
    }
    for r in &rs {
        for v in r.0..=r.1 {
            g.touched.insert(v);
        }
    }
    format!("insert {}", show_ranges(&rs))
}

fn last_seq_of(case_salt: u64, v: u64) -> u64 {
    // one last_seq per version, as the origin produced it
    (fnv(&format!("{case_salt}:{v}")) >> 7) % 9
}

fn gen_partial(rng: &mut Rng, g: &mut GenState, salt: u64, bias: bool) -> String {
    // mostly: a version that is still incomplete, or one that is not known yet (a gap or beyond the
    // head); sometimes any version (a chunk of something already held must be skipped)
    let open: Vec<u64> = g.partial.keys().copied().filter(|v| g.incomplete(*v)).collect();
    let v = if !open.is_empty() && rng.chance(1, 2) {
        *rng.pick(&open)
    } else if rng.chance(1, 6) {
        gen_version(rng, g, bias)
    } else {
        let mut v = gen_version(rng, g, bias);
        for _ in 0..6 {
            if !g.touched.contains(&v) {
                break;
            }
            v = gen_version(rng, g, bias);
        }
        v
    };
    let last = last_seq_of(salt, v);
    let (lo, hi) = match rng.below(10) {
        // everything but seq 0
        0..=1 if last >= 1 => (1, last),
        // tail / head / middle chunks
        2..=3 => {
            let lo = rng.range(0, last);
            (lo, last)
        }
        4..=5 => (0, rng.range(0, last)),
        6 => {
            // adjacent to / overlapping an existing chunk
            match g.partial.get(&v) {
                Some((s, _)) if !s.is_empty() => {
                    let x = *rng.pick(&s.iter().copied().collect::<Vec<_>>());
                    let lo = x.saturating_sub(rng.below(2));
                    (lo, (x + 1 + rng.below(2)).min(last).max(lo))
                }
                _ => (0, 0),
            }
        }
        7 if rng.chance(1, 4) => (last.min(3), 0.max(last.min(3)).saturating_sub(1)), // possibly inverted
        _ => {
            let lo = rng.range(0, last);
            (lo, rng.range(lo, last))
        }
    };
    // mirror what will happen, for the generator's aim only
    let known = g.touched.contains(&v)
        && match g.partial.get(&v) {
            None => true,
            Some((s, _)) => (lo..=hi).all(|q| s.contains(&q)),
        };
    if !known && lo <= hi {
        g.touched.insert(v);
        let e = g.partial.entry(v).or_insert_with(|| (BTreeSet::new(), last));
        for q in lo..=hi {
            e.0.insert(q);
        }
    }
    format!("partial {v} {lo}-{hi} {last}")
}

// ------------------------------------------------------------------ Prop

fn runtime() -> tokio::runtime::Runtime {
    tokio::runtime::Builder::new_current_thread().enable_all().build().expect("tokio runtime")
}

/// all single ranges lo..=hi over 1..=n
fn single_ranges(n: u64) -> Vec<(u64, u64)> {
    let mut v = vec![];
    for lo in 1..=n {
        for hi in lo..=n {
            v.push((lo, hi));
        }
    }
    v
}

impl Prop for C02 {
    fn id(&self) -> &'static str {
        "C02"
    }
    fn rule(&self) -> &'static str {
        "one case = one op sequence (insert / partial / reload / sync) on a fresh cr-sqlite database for one origin actor; \
         non-trivial iff at least one insertion changed the set of gap rows (created, split, merged, shrank or removed a gap); \
         distinct by hash of the op lines"
    }
    fn default_cases(&self, tier: Tier) -> usize {
        match tier {
            Tier::Quick => 150,
            Tier::Thorough => 3000,
        }
    }
    fn begin(&self) {
        let _ = std::fs::create_dir_all(TMP_ROOT);
    }
    fn end(&self) {
        let _ = std::fs::remove_dir_all(format!("{TMP_ROOT}/c02-{}-template", std::process::id()));
    }
    fn enumerated_case(&self, tier: Tier, index: usize) -> Option<Vec<String>> {
        // every sequence of <= 3 single-range insertions over versions 1..=6 (thorough) / <= 2 over 1..=4 (quick)
        let (n, maxlen) = if tier == Tier::Thorough { (6u64, 3usize) } else { (4u64, 2usize) };
        let rs = single_ranges(n);
        let k = rs.len();
        let mut idx = index;
        for len in 1..=maxlen {
            let total = k.pow(len as u32);
            if idx < total {
                let mut ops = vec![];
                let mut x = idx;
                for _ in 0..len {
                    let r = rs[x % k];
                    x /= k;
                    ops.push(format!("insert {}-{}", r.0, r.1));
                }
                ops.push("sync".into());
                ops.push("reload".into());
                return Some(ops);
            }
            idx -= total;
        }
        None
    }
    fn gen_case(&self, rng: &mut Rng, _tier: Tier, _index: usize) -> Vec<String> {
        let salt = rng.next_u64();
        let mut g = GenState::default();
        let mut ops: Vec<String> = vec![];
        // from empty, or from a random reachable state built by an unbiased prefix
        let prefix = if rng.chance(1, 3) { 0 } else { rng.range(2, 8) };
        let mut last_op: Option<String> = None;
        for _ in 0..prefix {
            let op = if rng.chance(1, 5) { gen_partial(rng, &mut g, salt, false) } else { gen_insert(rng, &mut g, false, &last_op) };
            last_op = Some(op.clone());
            ops.push(op);
        }
        let n = 20usize.saturating_sub(prefix as usize).max(8);
        for _ in 0..n {
            let op = match rng.below(20) {
                0..=10 => gen_insert(rng, &mut g, true, &last_op),
                11..=15 => gen_partial(rng, &mut g, salt, true),
                16..=17 => "sync".to_string(),
                _ => "reload".to_string(),
            };
            last_op = Some(op.clone());
            ops.push(op);
        }
        ops.push("sync".into());
        ops.push("reload".into());
        ops.push("sync".into());
        ops
    }
    fn exec_case(&self, ops: &[String]) -> CaseResult {
        let mut r = CaseResult::default();
        let rt = runtime();
        let mut real = match Real::new() {
            Ok(x) => x,
            Err(e) => {
                r.inconclusive = Some(format!("db-setup:{}", e.replace(' ', "_")));
                return r;
            }
        };
        let mut h = Hist::default();
        let mut fails: Vec<String> = vec![];
        for (i, op) in ops.iter().enumerate() {
            let toks: Vec<&str> = op.split_whitespace().collect();
            let before = fails.len();
            let out = match toks.as_slice() {
                ["insert", rs] => match parse_ranges(rs) {
                    Some(rs) if !rs.is_empty() && rs.iter().all(|x| 1 <= x.0 && x.0 <= x.1) => {
                        let rows0 = real.gaps_rows();
                        let status = match real.insert(&rs) {
                            Ok(()) => {
                                for x in &rs {
                                    for v in x.0..=x.1 {
                                        h.touched.insert(v);
                                        h.complete.insert(v);
                                    }
                                }
                                "ok".to_string()
                            }
                            Err(e) => {
                                fails.push(format!("insert_db failed: {e}"));
                                err_kind(&e)
                            }
                        };
                        if real.gaps_rows() != rows0 {
                            r.nontrivial = true;
                            r.tags.push("gaps-changed".into());
                        }
                        r.tags.push(format!("insert-ranges:{}", rs.len()));
                        check_state(&real, &h, &mut fails);
                        format!("{status} {}", real.show())
                    }
                    _ => "bad-op".into(),
                },
                ["partial", v, seqs, last] => match (v.parse::<u64>(), parse_range(seqs), last.parse::<u64>()) {
                    (Ok(v), Some(seqs), Ok(last)) if v >= 1 => {
                        let expect_skip = h.knows(v, seqs.0, seqs.1);
                        let status = match real.partial(v, seqs, last) {
                            Ok(s) => {
                                if (s == "skip") != expect_skip {
                                    fails.push(format!("partial chunk {v} {}-{} was {s} but the history says known={expect_skip}", seqs.0, seqs.1));
                                }
                                if s == "ok" {
                                    h.touched.insert(v);
                                    let e = h.partial.entry(v).or_insert_with(|| (BTreeSet::new(), last));
                                    for q in seqs.0..=seqs.1 {
                                        e.0.insert(q);
                                    }
                                    r.tags.push(if h.missing_seqs(v).is_empty() { "partial-completed".into() } else { "partial-incomplete".into() });
                                    if h.missing_seqs(v) == [0u64].into_iter().collect() {
                                        r.tags.push("partial-missing-only-seq0".into());
                                    }
                                } else {
                                    r.tags.push(format!("partial-{s}"));
                                }
                                s.to_string()
                            }
                            Err(e) => {
                                fails.push(format!("partial chunk failed: {e}"));
                                err_kind(&e)
                            }
                        };
                        check_state(&real, &h, &mut fails);
                        format!("{status} {}", real.show())
                    }
                    _ => "bad-op".into(),
                },
                ["reload"] => match real.reload() {
                    Ok(()) => {
                        check_state(&real, &h, &mut fails);
                        format!("ok {}", real.show())
                    }
                    Err(e) => {
                        fails.push(format!("from_conn failed: {e}"));
                        err_kind(&e)
                    }
                },
                ["sync"] => {
                    let sv = real_sync(&rt, &real.bv);
                    check_sync(&sv, &h, &mut fails);
                    if !sv.pneed.is_empty() {
                        r.tags.push("sync-with-partial-need".into());
                    }
                    let pn: Vec<String> = sv.pneed.iter().map(|(v, rs)| format!("{v}/{}", show_ranges(rs))).collect();
                    format!("sync head={} need={} pneed={}", show_opt(sv.head), show_ranges(&sv.need), show_list(&pn, ";"))
                }
                _ => "bad-op".into(),
            };
            for f in fails.iter_mut().skip(before) {
                *f = format!("after op {i} `{op}`: {f}");
            }
            r.outputs.push(out);
        }
        // report each kind of failure once per case
        fails.truncate(4);
        r.oracle_failures = fails;
        r
    }
}
