//! C16 — nodes of different clusters never exchange data.  REAL agents vs the Lean model
//! `Corro.ClusterGate` (driver `lean/Driver/C16.lean`).
//!
//! World: real agents started in-process by `start_with_config` on loopback, one (or two) per cluster id
//! that a case mentions; the cluster id is written into `__corro_state` of a pre-created database BEFORE
//! the start (the way `corrosion cluster set-id` persists it), so `setup` reads it the way a restarted
//! node would.  The harness owns one real `Transport` (the "other node") and a set of dummy QUIC
//! listeners (the "other members").  Agents live across cases (started lazily, stopped in `end`).
//!
//! Ops (one scenario per case; outputs are pure functions of the op line):
//!   bcast <sender|absent> <receiver>
//!       three length-delimited frames in ONE real uni stream (`Transport::send_uni`) to the receiver's
//!       gossip address: marker (receiver's id), the change under test (declared id, or the encoded
//!       frame cut right before the `cluster_id` field), marker (receiver's id).  Every frame is a
//!       complete `UniPayload::V1 { Broadcast(Change(ChangeV1 { Full … })) }` for a fresh row of `tests`
//!       from a fresh actor.  Waits (≤ 45 s) until the row under test is visible, or both markers are (then
//!       one more marker on a second stream as a barrier) → `applied` | `dropped`.
//!   sync <client|absent> <server>
//!       (a) raw client: `Transport::open_bi`, `BiPayload::V1 { SyncStart, cluster_id }` (or cut before the
//!       field) + `Clock`; prints the kind of the first frame the real `serve_sync` answers, then requests a
//!       version the server holds and reports whether a changeset frame followed;
//!       (b) real client: `parallel_sync` of a real agent of cluster <client> against the same server:
//!       `synced` (Ok and the server's fresh row becomes visible at the client) | `rejected` (an error and no
//!       data: the `Rejection(DifferentCluster)` itself or, when the client was still writing its clock while
//!       the server had already answered and dropped the stream, the resulting write error).
//!   candidates <mine> <members>
//!       the real `Members` of the lab agent (cluster set with `agent.set_cluster_id`) are filled with
//!       `add_member`/`add_rtt`; the real `handle_sync` (hook) is run; the dummy listeners record which
//!       members get a `SyncStart`.  `handle_sync` picks at most 3 per call, so it is called again after
//!       `update_sync_ts` of the contacted ones (what a successful sync does) until nobody new is picked.
//!       The member list is a list of ANNOUNCEMENTS `id:cluster:ring[:ts[:addr]]` applied in order through the
//!       real `add_member`: the same actor may be announced again with a newer (or older) timestamp, another
//!       cluster id and the same or another address; expectations follow the newest identity of each actor.
//!   targets <mine> <local|relay> <members>
//!       same table; `ring0=` is the real `Members::ring0(agent.cluster_id())`; then one
//!       `BroadcastInput::AddBroadcast|Rebroadcast` is given to the agent's real broadcast loop and the
//!       listeners record who receives it.  A harness-owned same-cluster sentinel member tells when the
//!       loop's flush tick has happened.
//!
//!   switch <old> <new> <local|relay|sync> <members>
//!       the lab agent's long-running tasks are up; its id is <old> (`Agent::set_cluster_id`), the table holds
//!       members of <old> and of <new> (plus one harness sentinel per cluster); it decides once (broadcast /
//!       `handle_sync`), then its id is changed AT RUN TIME to <new> — `set_cluster_id`, what the admin command
//!       `cluster set-id` ends in (admin.rs lives in the binary crate and is not reachable from here) — and it
//!       decides again on the same table.  After the change no member of <old> may be picked or receive a frame,
//!       every member of <new> must, and the frames must declare <new>.
//!   reconf <A> <B> <declared|absent>
//!       a real receiver with id <A> accepts a connection; its id is set to <B> at run time; the payload under
//!       test is sent over that old connection and over a brand-new one.  The new connection must follow <B>
//!       (oracle); what the old connection does is the documented observation
//!       `observation_stale_connection_after_set_id` (tagged, not a failure).
//!
//! Independent oracle (no model involved): a change declared for another cluster never becomes visible and
//! leaves no trace in crsql_site_id / crsql_db_versions / __corro_seq_bookkeeping / __corro_buffered_changes /
//! __corro_bookkeeping_gaps / the bookie; a same-cluster (or absent→0) change is applied; the first sync
//! frame for a foreign id is `Rejection(DifferentCluster)` and nothing follows; client and server digests
//! (user tables + bookkeeping) are unchanged by a cross-cluster session; every contacted member has the
//! node's cluster id, is not the node itself, and every same-cluster member is contacted; every payload the
//! node sends declares the node's own id.
//!
//! Timing: every wait is a condition with a deadline; a case whose positive condition does not occur in
//! time is retried once and then reported `inconclusive` (never a violation).
use std::collections::{BTreeMap, BTreeSet};
use std::net::SocketAddr;
use std::path::{Path, PathBuf};
use std::sync::atomic::{AtomicU64, Ordering};
use std::sync::{Arc, Mutex, OnceLock};
use std::time::{Duration, Instant};

use axum::Extension;
use bytes::{Bytes, BytesMut};
use futures::StreamExt;
use klukai_agent::agent::start_with_config;
use klukai_agent::agent::verif_hooks::handle_sync;
use klukai_agent::api::peer::{SyncError, gossip_server_endpoint, parallel_sync};
use klukai_agent::api::public::{TimeoutParams, api_v1_transactions};
use klukai_agent::transport::Transport;
use klukai_types::actor::{Actor, ActorId, ClusterId};
use klukai_types::agent::{Agent, Bookie, migrate};
use klukai_types::api::{ColumnName, SqliteValue, Statement, TableName};
use klukai_types::base::{CrsqlDbVersion, CrsqlSeq};
use klukai_types::broadcast::{
    BiPayload, BiPayloadV1, BroadcastInput, BroadcastV1, ChangeV1, Changeset, FocaInput, Timestamp, UniPayload, UniPayloadV1,
};
use klukai_types::change::Change;
use klukai_types::config::Config;
use klukai_types::pubsub::pack_columns;
use klukai_types::sqlite::{CrConn, setup_conn};
use klukai_types::sync::{SyncMessage, SyncMessageV1, SyncNeedV1, SyncRejectionV1, generate_sync};
use klukai_types::tripwire::Tripwire;
use speedy::{Readable, Writable};
use tokio::io::AsyncWriteExt;
use tokio_util::codec::{Decoder, Encoder, FramedRead, LengthDelimitedCodec};

use crate::crkit::TmpDir;
use crate::rng::Rng;
use crate::runner::{CaseResult, Prop, Tier};
use crate::util::*;

pub struct C16;

/// deadline of every positive wait (the machine may be heavily loaded; a wait that succeeds costs nothing)
const WAIT: Duration = Duration::from_secs(45);
const POLL: Duration = Duration::from_millis(15);
/// listeners 0..=11 are the members a case can name, 12 is the address given to the node's own entry,
/// 13 the harness-owned sentinel
const N_TOKEN_LISTENERS: usize = 12;
const SELF_L: usize = 12;
const SENTINEL_L: usize = 13;
/// second harness-owned member (the `switch` op needs one sentinel per cluster)
const SENTINEL2_L: usize = 14;
const N_LISTENERS: usize = 15;
const MAX_CANDIDATES: usize = 6;
const MAX_TARGETS: usize = 8;
/// one RTT sample (ms) inside each of `RING_BUCKETS`
const RING_MS: [u64; 6] = [1, 8, 20, 60, 150, 250];
const MAX_NODES: usize = 24;

// ---------------------------------------------------------------- world

struct Node {
    #[allow(dead_code)]
    cluster: u16,
    agent: Agent,
    bookie: Bookie,
    transport: Transport,
    gossip: SocketAddr,
    trip_tx: tokio::sync::mpsc::Sender<()>,
}

#[derive(Clone, Debug)]
enum Kind {
    /// a uni stream: actor ids of the decoded changes and the cluster ids the payloads declared
    Uni { keys: Vec<ActorId>, clusters: Vec<u16> },
    /// a bi stream: the cluster id declared by the `BiPayload` (None = undecodable)
    Bi { cluster: Option<u16> },
}

#[derive(Clone, Debug)]
struct Contact {
    listener: usize,
    kind: Kind,
}

struct Listener {
    addr: SocketAddr,
    actor: ActorId,
    _ep: quinn::Endpoint,
}

struct Lab {
    node: Arc<Node>,
    listeners: Vec<Listener>,
    contacts: Arc<Mutex<Vec<Contact>>>,
}

struct World {
    tmp: TmpDir,
    nodes: BTreeMap<(u16, u8), Arc<Node>>,
    client: Transport,
    gossip_conf: klukai_types::config::GossipConfig,
    rtt_tx: tokio::sync::mpsc::Sender<(SocketAddr, Duration)>,
    _rtt_rx: tokio::sync::mpsc::Receiver<(SocketAddr, Duration)>,
    lab: Option<Result<Arc<Lab>, String>>,
    /// receiver whose cluster id is changed at run time by the `reconf` op
    reconf: Option<Arc<Node>>,
}

fn runtime() -> &'static tokio::runtime::Runtime {
    static RT: OnceLock<tokio::runtime::Runtime> = OnceLock::new();
    RT.get_or_init(|| tokio::runtime::Builder::new_multi_thread().worker_threads(4).enable_all().build().expect("tokio runtime"))
}

static WORLD: Mutex<Option<World>> = Mutex::new(None);
static COUNTER: AtomicU64 = AtomicU64::new(1);

fn fresh() -> u64 {
    COUNTER.fetch_add(1, Ordering::SeqCst)
}

fn fresh_actor() -> ActorId {
    ActorId(uuid::Uuid::from_u128(0xC160_0000_0000_4000_8000_0000_0000_0000u128 + fresh() as u128))
}

fn fresh_row() -> i64 {
    1_000_000 + fresh() as i64
}

enum OpErr {
    Bad,
    Inconclusive(String),
}

fn inc<E: std::fmt::Display>(what: &'static str) -> impl Fn(E) -> OpErr {
    move |e| OpErr::Inconclusive(format!("{what}: {e}"))
}

#[derive(Default)]
struct Out {
    line: String,
    fails: Vec<String>,
    tags: Vec<String>,
    nontrivial: bool,
}

fn precreate(db: &Path, cluster: Option<u16>) -> rusqlite::Result<()> {
    let mut conn = CrConn::init(rusqlite::Connection::open(db)?)?;
    setup_conn(&conn)?;
    migrate(Arc::new(uhlc::HLC::default()), &mut conn)?;
    if let Some(c) = cluster {
        // what `corrosion cluster set-id` persists (crates/klukai/src/admin.rs)
        conn.execute("INSERT OR REPLACE INTO __corro_state (key, value) VALUES ('cluster_id', ?)", [c as i64])?;
    }
    Ok(())
}

async fn launch(dir: PathBuf, cluster: u16, explicit_row: bool) -> Result<Node, String> {
    let e = |x: &dyn std::fmt::Display| x.to_string();
    let schema = dir.join("schema");
    std::fs::create_dir_all(&schema).map_err(|x| e(&x))?;
    std::fs::write(schema.join("tests.sql"), klukai_tests::TEST_SCHEMA).map_err(|x| e(&x))?;
    let db = dir.join("corrosion.db");
    // cluster 0 without a row exercises `unwrap_or_default()` of setup
    precreate(&db, if cluster != 0 || explicit_row { Some(cluster) } else { None }).map_err(|x| format!("precreate: {x}"))?;
    let mut conf: Config = Config::builder()
        .api_addr("127.0.0.1:0".parse().unwrap())
        .gossip_addr("127.0.0.1:0".parse().unwrap())
        .admin_path(dir.join("admin.sock").display().to_string())
        .db_path(db.display().to_string())
        .add_schema_path(schema.display().to_string())
        .build()
        .map_err(|x| e(&x))?;
    // no member is ever known through SWIM here; keep the background sync loop out of the way of the
    // lab agent (the harness calls the same `handle_sync` itself)
    conf.perf.min_sync_backoff = 86_400;
    conf.perf.max_sync_backoff = 86_400;
    let (tripwire, worker, trip_tx) = Tripwire::new_simple();
    tokio::spawn(worker);
    let (agent, bookie, transport, _handles) = start_with_config(conf, tripwire).await.map_err(|x| format!("start_with_config: {x:#}"))?;
    if agent.cluster_id() != ClusterId(cluster) {
        return Err(format!("agent came up with cluster id {} instead of {cluster}", agent.cluster_id()));
    }
    let gossip = agent.gossip_addr();
    Ok(Node { cluster, agent, bookie, transport, gossip, trip_tx })
}

impl World {
    async fn new() -> Result<World, String> {
        let tmp = TmpDir::new("c16");
        let (rtt_tx, rtt_rx) = tokio::sync::mpsc::channel(1024);
        let conf: Config = Config::builder()
            .api_addr("127.0.0.1:0".parse().unwrap())
            .gossip_addr("127.0.0.1:0".parse().unwrap())
            .db_path(tmp.path().join("unused.db").display().to_string())
            .build()
            .map_err(|x| x.to_string())?;
        let client = Transport::new(&conf.gossip, rtt_tx.clone()).await.map_err(|x| format!("transport: {x:#}"))?;
        Ok(World { tmp, nodes: BTreeMap::new(), client, gossip_conf: conf.gossip.clone(), rtt_tx, _rtt_rx: rtt_rx, lab: None, reconf: None })
    }

    /// a brand-new real `Transport`: its first use opens a NEW connection to the receiver
    async fn new_transport(&self) -> Result<Transport, OpErr> {
        Transport::new(&self.gossip_conf, self.rtt_tx.clone()).await.map_err(|x| OpErr::Inconclusive(format!("transport: {x:#}")))
    }

    async fn reconf_node(&mut self) -> Result<Arc<Node>, OpErr> {
        if self.reconf.is_none() {
            let dir = self.tmp.path().join(format!("reconf-{}", fresh()));
            self.reconf = Some(Arc::new(launch(dir, 0, false).await.map_err(inc("agent start"))?));
        }
        Ok(self.reconf.as_ref().unwrap().clone())
    }

    async fn ensure(&mut self, cluster: u16, slot: u8) -> Result<Arc<Node>, OpErr> {
        if let Some(n) = self.nodes.get(&(cluster, slot)) {
            return Ok(n.clone());
        }
        if self.nodes.len() >= MAX_NODES {
            self.stop_nodes().await;
        }
        let dir = self.tmp.path().join(format!("n{cluster}-{slot}-{}", fresh()));
        let n = Arc::new(launch(dir, cluster, slot == 1).await.map_err(inc("agent start"))?);
        self.nodes.insert((cluster, slot), n.clone());
        Ok(n)
    }

    async fn stop_nodes(&mut self) {
        for n in self.nodes.values() {
            let _ = n.trip_tx.send(()).await;
        }
        self.nodes.clear();
        if let Some(n) = self.reconf.take() {
            let _ = n.trip_tx.send(()).await;
        }
    }

    async fn lab(&mut self) -> Result<Arc<Lab>, OpErr> {
        if self.lab.is_none() {
            let r = start_lab(self.tmp.path().join("lab")).await;
            if let (Err(e), true) = (&r, std::env::var_os("HX_VERBOSE").is_some()) {
                eprintln!("c16: lab agent unusable: {e}");
            }
            self.lab = Some(r.map(Arc::new));
        }
        match self.lab.as_ref().unwrap() {
            Ok(l) => Ok(l.clone()),
            Err(e) => Err(OpErr::Inconclusive(format!("lab agent unusable: {e}"))),
        }
    }
}

// ---------------------------------------------------------------- frames

fn codec() -> LengthDelimitedCodec {
    LengthDelimitedCodec::builder().max_frame_length(100 * 1_024 * 1_024).new_codec()
}

fn frame(payload: Vec<u8>, out: &mut BytesMut) {
    codec().encode(Bytes::from(payload), out).expect("length-delimited encode");
}

fn mk_change(actor: ActorId, row: i64, ts: Timestamp) -> ChangeV1 {
    ChangeV1 {
        actor_id: actor,
        changeset: Changeset::Full {
            version: CrsqlDbVersion(1),
            changes: vec![Change {
                table: TableName("tests".into()),
                pk: pack_columns(&[SqliteValue::Integer(row)]).expect("pack pk"),
                cid: ColumnName("text".into()),
                val: SqliteValue::Text(format!("c16-{row}").into()),
                col_version: 1,
                db_version: CrsqlDbVersion(1),
                seq: CrsqlSeq(0),
                site_id: actor.to_bytes(),
                cl: 1,
            }],
            seqs: CrsqlSeq(0)..=CrsqlSeq(0),
            last_seq: CrsqlSeq(0),
            ts,
        },
    }
}

/// `UniPayload::V1` encoded with speedy as `handle_broadcasts` does; `None` = the encoded frame cut right
/// before the `cluster_id` field (the last two bytes: `ClusterId(u16)` is the last field written).
fn uni_bytes(change: ChangeV1, cluster: Option<u16>) -> Vec<u8> {
    let p = UniPayload::V1 { data: UniPayloadV1::Broadcast(BroadcastV1::Change(change)), cluster_id: ClusterId(cluster.unwrap_or(0xABCD)) };
    let mut b = p.write_to_vec().expect("encode UniPayload");
    if cluster.is_none() {
        let n = b.len();
        assert_eq!(&b[n - 2..], &[0xCD, 0xAB], "cluster_id is not the trailing u16 of the encoding");
        b.truncate(n - 2);
    }
    b
}

fn bi_bytes(actor: ActorId, cluster: Option<u16>) -> Vec<u8> {
    let p = BiPayload::V1 {
        data: BiPayloadV1::SyncStart { actor_id: actor, trace_ctx: Default::default() },
        cluster_id: ClusterId(cluster.unwrap_or(0xABCD)),
    };
    let mut b = p.write_to_vec().expect("encode BiPayload");
    if cluster.is_none() {
        let n = b.len();
        assert_eq!(&b[n - 2..], &[0xCD, 0xAB], "cluster_id is not the trailing u16 of the encoding");
        b.truncate(n - 2);
    }
    b
}

// ---------------------------------------------------------------- database observations

async fn row_visible(node: &Node, row: i64) -> Result<bool, OpErr> {
    let conn = node.agent.pool().read().await.map_err(inc("read conn"))?;
    let n: i64 = conn.query_row("SELECT count(*) FROM tests WHERE id = ?", [row], |r| r.get(0)).map_err(inc("select"))?;
    Ok(n > 0)
}

/// everything keyed by `actor` in the receiver's stores (0 everywhere = the actor is unknown to the node)
async fn traces_of(node: &Node, actor: ActorId) -> Result<Vec<String>, OpErr> {
    let conn = node.agent.pool().read().await.map_err(inc("read conn"))?;
    let site = actor.to_bytes().to_vec();
    let mut found = vec![];
    for (tbl, col) in [
        ("crsql_site_id", "site_id"),
        ("crsql_db_versions", "site_id"),
        ("__corro_seq_bookkeeping", "site_id"),
        ("__corro_buffered_changes", "site_id"),
        ("__corro_bookkeeping_gaps", "actor_id"),
    ] {
        let n: i64 = conn.query_row(&format!("SELECT count(*) FROM {tbl} WHERE {col} = ?"), [&site], |r| r.get(0)).map_err(inc("select"))?;
        if n > 0 {
            found.push(format!("{tbl}:{n}"));
        }
    }
    drop(conn);
    if node.bookie.read::<&str, _>("c16", None).await.get(&actor).is_some() {
        found.push("bookie".into());
    }
    Ok(found)
}

/// digest of the user tables and of the version bookkeeping
async fn digest(node: &Node) -> Result<String, OpErr> {
    let conn = node.agent.pool().read().await.map_err(inc("read conn"))?;
    let mut parts = vec![];
    for tbl in [
        "tests", "tests2", "tests3", "testsblob", "testsbool", "wide", "crsql_db_versions", "crsql_site_id", "__corro_bookkeeping_gaps", "__corro_seq_bookkeeping",
        "__corro_buffered_changes",
    ] {
        let mut st = conn.prepare(&format!("SELECT * FROM {tbl} ORDER BY 1, 2")).map_err(inc("prepare"))?;
        let ncol = st.column_count();
        let mut q = st.query([]).map_err(inc("query"))?;
        let mut h: u64 = 0xcbf29ce484222325;
        let mut rows = 0u64;
        while let Some(r) = q.next().map_err(inc("row"))? {
            rows += 1;
            for i in 0..ncol {
                let s = format!("{:?}|", r.get_ref(i).map_err(inc("col"))?);
                for b in s.as_bytes() {
                    h ^= *b as u64;
                    h = h.wrapping_mul(0x100000001b3);
                }
            }
        }
        parts.push(format!("{tbl}:{rows}:{h:016x}"));
    }
    Ok(parts.join(" "))
}

/// only the tables whose `name:rows:hash` entry differs
fn digest_diff(a: &str, b: &str) -> String {
    let (x, y): (Vec<&str>, Vec<&str>) = (a.split(' ').collect(), b.split(' ').collect());
    let d: Vec<String> = x.iter().zip(y.iter()).filter(|(p, q)| p != q).map(|(p, q)| format!("{p} -> {q}")).collect();
    d.join("; ")
}

async fn wait_until<F, Fut>(deadline: Duration, mut cond: F) -> Result<bool, OpErr>
where
    F: FnMut() -> Fut,
    Fut: std::future::Future<Output = Result<bool, OpErr>>,
{
    let t0 = Instant::now();
    loop {
        if cond().await? {
            return Ok(true);
        }
        if t0.elapsed() > deadline {
            return Ok(false);
        }
        tokio::time::sleep(POLL).await;
    }
}

// ---------------------------------------------------------------- bcast

fn declared(c: Option<u16>) -> u16 {
    c.unwrap_or(0)
}

/// marker(`marker`), the change under test (`declared`, None = field cut off), marker(`marker`) in ONE uni
/// stream over `client`; → (did the change under test become visible, its actor).  `Inconclusive` when
/// neither it nor the two markers became visible.
async fn bcast_probe(client: &Transport, node: &Node, marker: u16, declared_id: Option<u16>) -> Result<(bool, ActorId), OpErr> {
    let ts = Timestamp::from(node.agent.clock().new_timestamp());
    let (a1, ax, a2, a3) = (fresh_actor(), fresh_actor(), fresh_actor(), fresh_actor());
    let (r1, rx, r2, r3) = (fresh_row(), fresh_row(), fresh_row(), fresh_row());
    let mut stream = BytesMut::new();
    frame(uni_bytes(mk_change(a1, r1, ts), Some(marker)), &mut stream);
    frame(uni_bytes(mk_change(ax, rx, ts), declared_id), &mut stream);
    frame(uni_bytes(mk_change(a2, r2, ts), Some(marker)), &mut stream);
    client.send_uni(node.gossip, stream.freeze()).await.map_err(inc("send_uni"))?;

    let t0 = Instant::now();
    let mut applied = false;
    loop {
        if row_visible(node, rx).await? {
            applied = true;
            break;
        }
        if row_visible(node, r1).await? && row_visible(node, r2).await? {
            break;
        }
        if t0.elapsed() > WAIT {
            return Err(OpErr::Inconclusive("neither the change under test nor the two same-cluster markers became visible in time".into()));
        }
        tokio::time::sleep(POLL).await;
    }
    if !applied {
        // barrier: one more same-cluster marker, second stream, same connection
        let mut s2 = BytesMut::new();
        frame(uni_bytes(mk_change(a3, r3, ts), Some(marker)), &mut s2);
        client.send_uni(node.gossip, s2.freeze()).await.map_err(inc("send_uni"))?;
        let t1 = Instant::now();
        loop {
            if row_visible(node, rx).await? {
                applied = true;
                break;
            }
            if row_visible(node, r3).await? {
                applied = row_visible(node, rx).await?;
                break;
            }
            if t1.elapsed() > WAIT {
                return Err(OpErr::Inconclusive("barrier marker not applied in time".into()));
            }
            tokio::time::sleep(POLL).await;
        }
    }
    Ok((applied, ax))
}

async fn op_bcast(w: &mut World, sender: Option<u16>, recv: u16) -> Result<Out, OpErr> {
    let node = w.ensure(recv, 0).await?;
    let (applied, ax) = bcast_probe(&w.client, &node, recv, sender).await?;
    let same = declared(sender) == recv;
    let mut o = Out { line: if applied { "applied".into() } else { "dropped".into() }, ..Default::default() };
    let sdesc = sender.map(|s| s.to_string()).unwrap_or_else(|| "absent(=0)".into());
    if !same {
        if applied {
            o.fails.push(format!("cross-cluster broadcast applied: payload declared cluster {sdesc}, receiver is cluster {recv}"));
        }
        let tr = traces_of(&node, ax).await?;
        if !tr.is_empty() {
            o.fails.push(format!("cross-cluster broadcast (declared {sdesc} → receiver {recv}) left traces in the receiver's bookkeeping: {}", tr.join(",")));
        }
    } else if !applied {
        o.fails.push(format!("same-cluster broadcast dropped although its two neighbours in the stream were applied: payload declared {sdesc}, receiver is cluster {recv}"));
    }
    o.nontrivial = !same || sender.is_none();
    o.tags.push(format!("bcast:{}", if sender.is_none() { if same { "absent-to-0" } else { "absent-to-nonzero" } } else if same { "same" } else { "different" }));
    Ok(o)
}

/// `reconf <A> <B> <declared>`: a real receiver whose id is `A` accepts a connection (one payload declaring
/// `A` goes through it), then `Agent::set_cluster_id(B)` — what `corrosion cluster set-id` ends in — and the
/// payload under test is sent (1) over the connection accepted before the change, (2) over a brand-new one.
async fn op_reconf(w: &mut World, a: u16, b: u16, d: Option<u16>) -> Result<Out, OpErr> {
    let node = w.reconf_node().await?;
    node.agent.set_cluster_id(ClusterId(a));
    let t1 = w.new_transport().await?;
    let (warm, _) = bcast_probe(&t1, &node, a, Some(a)).await?;
    if !warm {
        return Err(OpErr::Inconclusive("warm-up payload on the first connection was not applied".into()));
    }
    node.agent.set_cluster_id(ClusterId(b));
    // (1) the uni handler of the old connection still holds `a`: its markers declare `a`
    let (stale, ax1) = bcast_probe(&t1, &node, a, d).await?;
    // (2) a connection accepted after the change
    let t2 = w.new_transport().await?;
    let (fresh_applied, ax2) = bcast_probe(&t2, &node, b, d).await?;
    let sh = |x: bool| if x { "applied" } else { "dropped" };
    let mut o = Out { line: format!("stale-conn={} fresh-conn={}", sh(stale), sh(fresh_applied)), ..Default::default() };
    let ddesc = d.map(|s| s.to_string()).unwrap_or_else(|| "absent(=0)".into());
    let same_now = declared(d) == b;
    if fresh_applied != same_now {
        o.fails.push(format!(
            "after set-id {a}→{b} a NEW connection {} a payload declaring {ddesc}",
            if fresh_applied { "applied" } else { "dropped" }
        ));
    }
    if !same_now && !fresh_applied && !traces_of(&node, ax2).await?.is_empty() {
        o.fails.push(format!("payload declaring {ddesc} left traces at a node whose id was set to {b}"));
    }
    if stale && !same_now {
        // documented observation (observation_stale_connection_after_set_id), outside the property's quantifier
        o.tags.push("observation:connection-accepted-before-set-id-applied-a-payload-of-the-former-cluster".into());
        let _ = ax1;
    }
    if !stale && same_now && a != b {
        o.tags.push("observation:connection-accepted-before-set-id-dropped-a-payload-of-the-new-cluster".into());
    }
    o.nontrivial = a != b;
    o.tags.push(format!("reconf:{}", if a == b { "same-id" } else if same_now { "declares-new" } else if declared(d) == a { "declares-old" } else { "declares-third" }));
    Ok(o)
}

// ---------------------------------------------------------------- sync

async fn local_insert(node: &Node, row: i64) -> Result<u64, OpErr> {
    let (status, resp) = api_v1_transactions(
        Extension(node.agent.clone()),
        axum::extract::Query(TimeoutParams { timeout: None }),
        axum::extract::Json(vec![Statement::Simple(format!("INSERT INTO tests (id, text) VALUES ({row}, 'c16-srv-{row}')"))]),
    )
    .await;
    if !status.is_success() {
        return Err(OpErr::Inconclusive(format!("local insert failed: {status}")));
    }
    resp.0.version.ok_or_else(|| OpErr::Inconclusive("local insert produced no version".into()))
}

struct RawSync {
    first: String,
    changesets: usize,
    other_frames: usize,
}

async fn next_msg(read: &mut FramedRead<quinn::RecvStream, LengthDelimitedCodec>, d: Duration) -> Result<Option<Result<SyncMessage, String>>, ()> {
    match tokio::time::timeout(d, read.next()).await {
        Err(_) => Err(()),
        Ok(None) => Ok(None),
        Ok(Some(Err(e))) => Ok(Some(Err(format!("io:{e}")))),
        Ok(Some(Ok(mut b))) => Ok(Some(SyncMessage::from_buf(&mut b).map_err(|e| format!("decode:{e}")))),
    }
}

async fn raw_sync(w: &World, server: &Node, client: Option<u16>, version: u64) -> Result<RawSync, OpErr> {
    let (mut tx, rx) = w.client.open_bi(server.gossip).await.map_err(inc("open_bi"))?;
    let mut read = FramedRead::new(rx, codec());
    let me = fresh_actor();
    let mut buf = BytesMut::new();
    frame(bi_bytes(me, client), &mut buf);
    let clock = SyncMessage::V1(SyncMessageV1::Clock(Timestamp::from(server.agent.clock().new_timestamp())));
    frame(clock.write_to_vec().map_err(inc("encode clock"))?, &mut buf);
    tx.write_all(&buf).await.map_err(inc("write handshake"))?;
    tx.flush().await.map_err(inc("flush"))?;

    let first = match next_msg(&mut read, Duration::from_secs(10)).await {
        Err(()) => return Err(OpErr::Inconclusive("no first frame from serve_sync within 10 s".into())),
        Ok(None) => "eof".to_string(),
        Ok(Some(Err(e))) => format!("undecodable:{e}"),
        Ok(Some(Ok(SyncMessage::V1(m)))) => match m {
            SyncMessageV1::State(_) => "state".into(),
            SyncMessageV1::Rejection(SyncRejectionV1::DifferentCluster) => "rejection:different-cluster".into(),
            SyncMessageV1::Rejection(SyncRejectionV1::MaxConcurrencyReached) => "rejection:max-concurrency".into(),
            SyncMessageV1::Changeset(_) => "changeset".into(),
            SyncMessageV1::Clock(_) => "clock".into(),
            SyncMessageV1::Request(_) => "request".into(),
        },
    };
    // ask for a version the server holds, whatever it answered (a foreign node that ignores the rejection)
    let req = SyncMessage::V1(SyncMessageV1::Request(vec![(
        server.agent.actor_id(),
        vec![SyncNeedV1::Full { versions: CrsqlDbVersion(version)..=CrsqlDbVersion(version) }],
    )]));
    let mut rb = BytesMut::new();
    frame(req.write_to_vec().map_err(inc("encode request"))?, &mut rb);
    let wrote = tx.write_all(&rb).await.is_ok() && tx.flush().await.is_ok();
    let mut changesets = 0usize;
    let mut other = 0usize;
    let proceeds = first == "state";
    let t0 = Instant::now();
    let limit = if proceeds { Duration::from_secs(10) } else { Duration::from_secs(3) };
    loop {
        let left = limit.saturating_sub(t0.elapsed());
        if left.is_zero() {
            break;
        }
        match next_msg(&mut read, left).await {
            Err(()) | Ok(None) => break,
            Ok(Some(Ok(SyncMessage::V1(SyncMessageV1::Changeset(_))))) => {
                changesets += 1;
                if proceeds {
                    break;
                }
            }
            Ok(Some(Ok(SyncMessage::V1(SyncMessageV1::Clock(_))))) if proceeds => {}
            Ok(Some(_)) => other += 1,
        }
    }
    let _ = tx.finish();
    if proceeds && changesets == 0 && !wrote {
        return Err(OpErr::Inconclusive("could not write the request on an accepted session".into()));
    }
    Ok(RawSync { first, changesets, other_frames: other })
}

async fn op_sync(w: &mut World, client: Option<u16>, server_c: u16) -> Result<Out, OpErr> {
    let server = w.ensure(server_c, 0).await?;
    let row = fresh_row();
    let version = local_insert(&server, row).await?;
    let same = declared(client) == server_c;
    let cdesc = client.map(|s| s.to_string()).unwrap_or_else(|| "absent(=0)".into());
    let mut o = Out::default();

    let srv_before = digest(&server).await?;
    let raw = raw_sync(w, &server, client, version).await?;
    if raw.first == "rejection:max-concurrency" {
        return Err(OpErr::Inconclusive("server had no free sync permit".into()));
    }
    if same && raw.first == "state" && raw.changesets == 0 {
        return Err(OpErr::Inconclusive("accepted session delivered no changeset within 10 s".into()));
    }

    // real client
    let psync = match client {
        None => "-".to_string(),
        Some(c) => {
            let cl = w.ensure(c, if c == server_c { 1 } else { 0 }).await?;
            let before = digest(&cl).await?;
            let state = generate_sync(&cl.bookie, cl.agent.actor_id()).await;
            let res = parallel_sync(&cl.agent, &cl.transport, vec![(server.agent.actor_id(), server.gossip)], state).await;
            match res {
                Err(SyncError::Rejection(SyncRejectionV1::DifferentCluster)) => {
                    // nothing may have reached the client: bounded look for the row, then digest
                    let after = digest(&cl).await?;
                    if row_visible(&cl, row).await? || after != before {
                        o.fails.push(format!("client of cluster {c} changed its stores although cluster-{server_c} server rejected it: {}", digest_diff(&before, &after)));
                    }
                    "rejected".to_string()
                }
                Err(SyncError::Rejection(SyncRejectionV1::MaxConcurrencyReached)) => return Err(OpErr::Inconclusive("server had no free sync permit".into())),
                Err(e) => {
                    if same {
                        return Err(OpErr::Inconclusive(format!("parallel_sync failed between equal clusters: {e}")));
                    }
                    // the server has already answered and dropped the stream: depending on the timing the real
                    // client fails while still writing its clock ("sending stopped by peer") instead of
                    // reading the rejection.  Either way the session ended with an error and without data.
                    o.tags.push(format!("psync-error-instead-of-rejection:{}", short(&e.to_string())));
                    let after = digest(&cl).await?;
                    if row_visible(&cl, row).await? || after != before {
                        o.fails.push(format!("client of cluster {c} changed its stores in a failed session with a cluster-{server_c} server: {}", digest_diff(&before, &after)));
                    }
                    "rejected".to_string()
                }
                Ok(_n) => {
                    let seen = wait_until(WAIT, || row_visible(&cl, row)).await?;
                    if !seen && same {
                        return Err(OpErr::Inconclusive("synced row not visible at the client in time".into()));
                    }
                    if !same {
                        if seen {
                            o.fails.push(format!("client of cluster {c} applied a row served by a cluster-{server_c} node"));
                        }
                        let after = digest(&cl).await?;
                        if after != before {
                            o.fails.push(format!("client of cluster {c} changed its stores in a session with a cluster-{server_c} server: {}", digest_diff(&before, &after)));
                        }
                    }
                    if seen { "synced".to_string() } else { "accepted-empty".to_string() }
                }
            }
        }
    };
    let srv_after = digest(&server).await?;

    o.line = format!("first={} changesets={} psync={psync}", raw.first, if raw.changesets > 0 { "yes" } else { "no" });
    if !same {
        if raw.first != "rejection:different-cluster" {
            o.fails.push(format!("serve_sync of a cluster-{server_c} node answered `{}` first to a client declaring {cdesc} (expected Rejection(DifferentCluster))", raw.first));
        }
        if raw.changesets > 0 {
            o.fails.push(format!("cluster-{server_c} server sent {} changeset frame(s) to a client declaring {cdesc}", raw.changesets));
        }
        if raw.other_frames > 0 {
            o.fails.push(format!("cluster-{server_c} server wrote {} more frame(s) after its first answer to a client declaring {cdesc}", raw.other_frames));
        }
        if srv_after != srv_before {
            o.fails.push(format!("server stores changed during a cross-cluster session: {}", digest_diff(&srv_before, &srv_after)));
        }
    } else if raw.first != "state" {
        o.fails.push(format!("serve_sync refused a same-cluster client (declared {cdesc}, server {server_c}) with `{}`", raw.first));
    }
    o.nontrivial = !same || client.is_none();
    o.tags.push(format!("sync:{}", if client.is_none() { if same { "absent-to-0" } else { "absent-to-nonzero" } } else if same { "same" } else { "different" }));
    Ok(o)
}

fn short(s: &str) -> String {
    s.chars().filter(|c| c.is_ascii_alphabetic() || *c == ' ').collect::<String>().split_whitespace().take(3).collect::<Vec<_>>().join("-")
}

// ---------------------------------------------------------------- lab: membership tables

async fn serve_listener(idx: usize, ep: quinn::Endpoint, contacts: Arc<Mutex<Vec<Contact>>>) {
    while let Some(incoming) = ep.accept().await {
        let contacts = contacts.clone();
        tokio::spawn(async move {
            let Ok(conn) = incoming.await else { return };
            loop {
                tokio::select! {
                    r = conn.accept_uni() => {
                        let Ok(mut rx) = r else { return };
                        let data = rx.read_to_end(64 * 1024 * 1024).await.unwrap_or_default();
                        let mut buf = BytesMut::from(&data[..]);
                        let mut c = codec();
                        let (mut keys, mut clusters) = (vec![], vec![]);
                        while let Ok(Some(f)) = c.decode(&mut buf) {
                            if let Ok(UniPayload::V1 { data: UniPayloadV1::Broadcast(BroadcastV1::Change(ch)), cluster_id }) = UniPayload::read_from_buffer(&f) {
                                keys.push(ch.actor_id);
                                clusters.push(cluster_id.0);
                            }
                        }
                        contacts.lock().unwrap().push(Contact { listener: idx, kind: Kind::Uni { keys, clusters } });
                    }
                    r = conn.accept_bi() => {
                        let Ok((mut tx, rx)) = r else { return };
                        let mut framed = FramedRead::new(rx, codec());
                        let cluster = match tokio::time::timeout(Duration::from_secs(5), framed.next()).await {
                            Ok(Some(Ok(b))) => match BiPayload::read_from_buffer(&b) {
                                Ok(BiPayload::V1 { cluster_id, .. }) => Some(cluster_id.0),
                                Err(_) => None,
                            },
                            _ => None,
                        };
                        contacts.lock().unwrap().push(Contact { listener: idx, kind: Kind::Bi { cluster } });
                        // end the session at once: the client sees the end of the stream instead of a state
                        let _ = tx.finish();
                    }
                }
            }
        });
    }
}

async fn start_lab(dir: PathBuf) -> Result<Lab, String> {
    let node = Arc::new(launch(dir, 0, false).await?);
    let contacts = Arc::new(Mutex::new(vec![]));
    let mut listeners = vec![];
    for i in 0..N_LISTENERS {
        let mut g = node.agent.config().gossip.clone();
        g.bind_addr = "127.0.0.1:0".parse().unwrap();
        let ep = gossip_server_endpoint(&g).await.map_err(|e| format!("listener: {e:#}"))?;
        let addr = ep.local_addr().map_err(|e| e.to_string())?;
        tokio::spawn(serve_listener(i, ep.clone(), contacts.clone()));
        let actor = if i == SELF_L { node.agent.actor_id() } else { ActorId(uuid::Uuid::from_u128(0xC16A_0000_0000_4000_8000_0000_0000_0000u128 + i as u128)) };
        listeners.push(Listener { addr, actor, _ep: ep });
    }
    let lab = Lab { node, listeners, contacts };
    // Let one pending broadcast reach more than three members: tell the SWIM runtime a cluster size for which
    // foca's max_transmissions is 5 (what a membership notification does), then check by observation.
    for attempt in 0..3 {
        let _ = lab.node.agent.tx_foca().send(FocaInput::ClusterSize(30u32.try_into().unwrap())).await;
        let toks: Vec<Tok> = (0..7).map(|i| Tok { id: Id::N(i), cluster: 0, ring: None, ts: 1, addr: i }).collect();
        let sentinels = [(SENTINEL_L, 0u16)];
        lab.node.agent.set_cluster_id(ClusterId(0));
        let r = match fill_table(&lab, &toks, &sentinels) {
            Ok(_) => broadcast_observe(&lab, 0, false, &toks, &sentinels, Duration::from_secs(15)).await,
            Err(e) => Err(e),
        };
        clear_table(&lab);
        match r {
            Ok((sent, _)) if sent.len() == 8 => return Ok(lab), // 7 members + the sentinel
            Ok(_) | Err(_) if attempt < 2 => continue,
            Ok((sent, _)) => return Err(format!("calibration: a relayed broadcast reached only {} of 8 same-cluster members", sent.len())),
            Err(e) => return Err(format!("calibration: {e}")),
        }
    }
    Err("calibration failed".into())
}

#[derive(Clone, Copy, PartialEq, Eq, PartialOrd, Ord, Debug)]
enum Id {
    N(usize),
    Me,
}

/// one announcement `id:cluster:ring[:ts[:addr]]` (ts 1..9, default 1; addr = listener 0..11, default the id)
#[derive(Clone, Debug)]
struct Tok {
    id: Id,
    cluster: u16,
    ring: Option<u8>,
    ts: u8,
    /// listener whose address the announcement carries
    addr: usize,
}

fn digits(s: &str) -> bool {
    !s.is_empty() && s.chars().all(|c| c.is_ascii_digit())
}

fn parse_members(s: &str) -> Option<Vec<Tok>> {
    let mut out: Vec<Tok> = vec![];
    for t in split_list(s) {
        let p: Vec<&str> = t.split(':').collect();
        if p.len() < 3 || p.len() > 5 {
            return None;
        }
        let id = if p[0] == "s" {
            Id::Me
        } else {
            if !digits(p[0]) {
                return None;
            }
            Id::N(p[0].parse::<usize>().ok().filter(|n| *n < N_TOKEN_LISTENERS)?)
        };
        if !digits(p[1]) {
            return None;
        }
        let cluster: u16 = p[1].parse().ok()?;
        let ring = if p[2] == "-" { None } else { Some(p[2].parse::<u8>().ok().filter(|r| *r <= 5 && digits(p[2]))?) };
        let ts = match p.get(3) {
            None => 1,
            Some(t) => t.parse::<u8>().ok().filter(|n| (1..=9).contains(n) && digits(t))?,
        };
        let addr = match p.get(4) {
            None => listener_of(id),
            Some(a) => {
                if id == Id::Me || !digits(a) {
                    return None;
                }
                a.parse::<usize>().ok().filter(|n| *n < N_TOKEN_LISTENERS)?
            }
        };
        // an address belongs to one actor only
        if out.iter().any(|o| o.id != id && o.addr == addr) {
            return None;
        }
        out.push(Tok { id, cluster, ring, ts, addr });
    }
    Some(out)
}

/// The identity each actor ends up with, stated independently of the code: the first announcement of an
/// actor counts, a strictly newer ts replaces it, older or equal ones are ignored.
fn final_table(anns: &[Tok]) -> Vec<Tok> {
    let mut out: Vec<Tok> = vec![];
    for a in anns {
        match out.iter_mut().find(|o| o.id == a.id) {
            None => out.push(a.clone()),
            Some(o) => {
                if a.ts > o.ts {
                    *o = a.clone();
                }
            }
        }
    }
    out
}

fn listener_of(id: Id) -> usize {
    match id {
        Id::N(i) => i,
        Id::Me => SELF_L,
    }
}

fn actor_of(lab: &Lab, id: Id) -> ActorId {
    lab.listeners[listener_of(id)].actor
}

fn ts_of(k: u8) -> Timestamp {
    Timestamp::from(uhlc::NTP64::from(Duration::from_secs(1_700_000_000 + 60 * k as u64)))
}

fn show_ids(set: &BTreeSet<usize>) -> String {
    // numeric ids ascending, the node itself (`s`) last — as the driver prints
    let v: Vec<String> = set.iter().filter(|l| **l != SENTINEL_L && **l != SENTINEL2_L).map(|l| if *l == SELF_L { "s".to_string() } else { l.to_string() }).collect();
    show_list(&v, ",")
}

/// Applies the announcements in list order to the real `Members` of the lab agent with the real
/// `add_member` (one critical section), gives every FINAL identity its ring with one `add_rtt` sample, adds
/// the harness-owned sentinels `(listener, cluster)`; returns oracle failures about the table itself (a stored
/// cluster id that is not the one of the actor's newest identity).  Does not touch the agent's cluster id.
fn fill_table(lab: &Lab, anns: &[Tok], sentinels: &[(usize, u16)]) -> Result<Vec<String>, String> {
    let agent = &lab.node.agent;
    let finals = final_table(anns);
    let mut fails = vec![];
    let mut m = agent.members().write();
    m.states.clear();
    m.by_addr.clear();
    m.rtts.clear();
    for t in anns {
        m.add_member(&Actor::new(actor_of(lab, t.id), lab.listeners[t.addr].addr, ts_of(t.ts), ClusterId(t.cluster)));
    }
    for t in &finals {
        let (actor, addr) = (actor_of(lab, t.id), lab.listeners[t.addr].addr);
        if let Some(r) = t.ring {
            m.add_rtt(addr, Duration::from_millis(RING_MS[r as usize]));
        }
        let got = m.states.get(&actor).map(|s| (s.ring, s.addr));
        if got != Some((t.ring, addr)) {
            return Err(format!("member {:?} is stored as {got:?}, wanted ring {:?} at listener {}", t.id, t.ring, t.addr));
        }
        let stored = m.states.get(&actor).map(|s| s.cluster_id.0);
        if stored != Some(t.cluster) {
            fails.push(format!(
                "the membership table holds cluster {stored:?} for member {:?} whose newest identity (ts {}) declares cluster {}",
                t.id, t.ts, t.cluster
            ));
        }
    }
    for (l, c) in sentinels {
        let l = &lab.listeners[*l];
        m.add_member(&Actor::new(l.actor, l.addr, ts_of(1), ClusterId(*c)));
    }
    Ok(fails)
}

/// The real `Members::ring0(agent.cluster_id())` as listener indices.  In the same critical section the rings
/// are first put back to what the table says (`rtts` cleared, one sample per ring-carrying member): the lab
/// agent's own RTT handler applies samples of the harness's earlier dummy connections up to a second late,
/// which would otherwise move members into ring 0 between two phases of a case.
fn real_ring0(lab: &Lab, finals: &[Tok]) -> Result<BTreeSet<usize>, String> {
    let agent = &lab.node.agent;
    let mut m = agent.members().write();
    m.rtts.clear();
    for st in m.states.values_mut() {
        st.ring = None;
    }
    for t in finals {
        if let Some(r) = t.ring {
            m.add_rtt(lab.listeners[t.addr].addr, Duration::from_millis(RING_MS[r as usize]));
        }
        let got = m.states.get(&actor_of(lab, t.id)).map(|s| s.ring);
        if got != Some(t.ring) {
            return Err(format!("member {:?} has ring {got:?}, wanted {:?}", t.id, t.ring));
        }
    }
    let r0: Vec<SocketAddr> = m.ring0(agent.cluster_id()).collect();
    let mut out = BTreeSet::new();
    for a in r0 {
        match lab.listeners.iter().position(|l| l.addr == a) {
            Some(i) => {
                out.insert(i);
            }
            None => return Err(format!("ring0 yielded an unknown address {a}")),
        }
    }
    Ok(out)
}

fn clear_table(lab: &Lab) {
    let mut m = lab.node.agent.members().write();
    m.states.clear();
    m.by_addr.clear();
    m.rtts.clear();
}

/// listeners a same-cluster table entry other than the node itself lives on (independent restatement)
fn expected_peers(mine: u16, finals: &[Tok]) -> BTreeSet<usize> {
    finals.iter().filter(|t| t.cluster == mine && t.id != Id::Me).map(|t| t.addr).collect()
}

fn has_updates(anns: &[Tok]) -> bool {
    anns.iter().enumerate().any(|(i, a)| anns[..i].iter().any(|b| b.id == a.id))
}

/// The real `handle_sync`, repeated after `update_sync_ts` of the contacted members until nobody new is
/// picked → (listeners that got a SyncStart, oracle failures about the declared id).
async fn sync_rounds(lab: &Lab, mine: u16, finals: &[Tok]) -> Result<(BTreeSet<usize>, Vec<String>), OpErr> {
    let mut chosen: BTreeSet<usize> = BTreeSet::new();
    let mut fails = vec![];
    for _round in 0..5 {
        let mark = lab.contacts.lock().unwrap().len();
        // the real selection + the real client handshake; the listeners end the session at once, so the
        // call returns an error after every chosen member has been contacted
        let _ = tokio::time::timeout(WAIT, handle_sync(&lab.node.agent, &lab.node.bookie, &lab.node.transport))
            .await
            .map_err(|_| OpErr::Inconclusive("handle_sync did not return in time".into()))?;
        let new: Vec<Contact> = lab.contacts.lock().unwrap()[mark..].to_vec();
        let mut fresh_members = 0;
        let ts = Timestamp::from(lab.node.agent.clock().new_timestamp());
        for c in new {
            if let Kind::Bi { cluster } = c.kind {
                if cluster != Some(mine) {
                    fails.push(format!("SyncStart sent by a cluster-{mine} node declared cluster {cluster:?}"));
                }
                if chosen.insert(c.listener) {
                    fresh_members += 1;
                }
                // what a completed sync does (`parallel_sync` → `update_sync_ts`): the next call prefers the others
                if let Some(t) = finals.iter().find(|t| t.addr == c.listener) {
                    lab.node.agent.members().write().update_sync_ts(&actor_of(lab, t.id), ts);
                }
            }
        }
        if fresh_members == 0 {
            break;
        }
    }
    Ok((chosen, fails))
}

fn judge_candidates(mine: u16, finals: &[Tok], chosen: &BTreeSet<usize>) -> Vec<String> {
    let mut fails = vec![];
    for l in chosen {
        match finals.iter().find(|t| t.addr == *l) {
            Some(t) if t.id == Id::Me => fails.push("handle_sync chose the node itself as a sync partner".into()),
            Some(t) if t.cluster != mine => fails.push(format!("handle_sync of a cluster-{mine} node chose member {l} of cluster {} as a sync partner", t.cluster)),
            Some(_) => {}
            None => fails.push(format!("handle_sync contacted listener {l}, which is not in the table")),
        }
    }
    for l in expected_peers(mine, finals) {
        if !chosen.contains(&l) {
            fails.push(format!("same-cluster member {l} was never chosen as a sync partner by the cluster-{mine} node"));
        }
    }
    fails
}

async fn op_candidates(w: &mut World, mine: u16, anns: &[Tok]) -> Result<Out, OpErr> {
    let finals = final_table(anns);
    if expected_peers(mine, &finals).len() > MAX_CANDIDATES {
        return Ok(Out { line: "err too-many-eligible".into(), ..Default::default() });
    }
    let lab = w.lab().await?;
    lab.node.agent.set_cluster_id(ClusterId(mine));
    let mut fails = fill_table(&lab, anns, &[]).map_err(OpErr::Inconclusive)?;
    let r = sync_rounds(&lab, mine, &finals).await;
    clear_table(&lab);
    let (chosen, f2) = r?;
    fails.extend(f2);
    fails.extend(judge_candidates(mine, &finals, &chosen));
    let mut o = Out { line: format!("chosen {}", show_ids(&chosen)), fails, ..Default::default() };
    let clusters: BTreeSet<u16> = finals.iter().map(|t| t.cluster).collect();
    o.nontrivial = clusters.iter().any(|c| *c != mine);
    o.tags.push(format!("candidates:clusters={}:chosen={}", clusters.len().min(4), chosen.len()));
    if has_updates(anns) {
        o.tags.push("candidates:with-identity-updates".into());
    }
    Ok(o)
}

/// cluster / identity of whoever lives on listener `l` (table entry or sentinel)
fn who(finals: &[Tok], sentinels: &[(usize, u16)], l: usize) -> Option<(u16, bool, Option<u8>)> {
    if let Some(t) = finals.iter().find(|t| t.addr == l) {
        return Some((t.cluster, t.id == Id::Me, t.ring));
    }
    sentinels.iter().find(|(sl, _)| *sl == l).map(|(_, c)| (*c, false, None))
}

/// One broadcast through the lab agent's real broadcast loop (the table is already filled, the agent's id is
/// `mine`) → (listeners that received it, oracle failures about the declared id).  Waits until every member
/// the oracle expects has it.  Stops earlier when the outcome is already decided: a same-cluster sentinel got
/// it (the flush tick happened) and 4 s of re-send rounds have passed, or a member of ANOTHER cluster got it
/// (a definite violation; 1.5 s more to collect the rest).  `Err` (→ inconclusive) only when nothing at all
/// arrived in time.
async fn broadcast_observe(lab: &Lab, mine: u16, local: bool, finals: &[Tok], sentinels: &[(usize, u16)], deadline: Duration) -> Result<(BTreeSet<usize>, Vec<String>), String> {
    let key = fresh_actor();
    let bcast = BroadcastV1::Change(ChangeV1 {
        actor_id: key,
        changeset: Changeset::Full {
            version: CrsqlDbVersion(1),
            changes: vec![],
            seqs: CrsqlSeq(0)..=CrsqlSeq(0),
            last_seq: CrsqlSeq(0),
            ts: Timestamp::from(lab.node.agent.clock().new_timestamp()),
        },
    });
    let input = if local { BroadcastInput::AddBroadcast(bcast) } else { BroadcastInput::Rebroadcast(bcast) };
    lab.node.agent.tx_bcast().send(input).await.map_err(|e| format!("tx_bcast: {e}"))?;

    let mut expect = expected_peers(mine, finals);
    let my_sentinels: BTreeSet<usize> = sentinels.iter().filter(|(_, c)| *c == mine).map(|(l, _)| *l).collect();
    expect.extend(my_sentinels.iter().copied());
    if local && finals.iter().any(|t| t.id == Id::Me && t.cluster == mine && t.ring == Some(0)) {
        // `Members::ring0` has no self-exclusion: only waited for, not required by the oracle
        expect.insert(SELF_L);
    }
    let got = |lab: &Lab| -> (BTreeSet<usize>, Vec<u16>) {
        let mut s = BTreeSet::new();
        let mut cl = vec![];
        for c in lab.contacts.lock().unwrap().iter() {
            if let Kind::Uni { keys, clusters } = &c.kind {
                if keys.contains(&key) {
                    s.insert(c.listener);
                    cl.extend(clusters.iter().copied());
                }
            }
        }
        (s, cl)
    };
    let foreign = |s: &BTreeSet<usize>, cl: &[u16]| -> bool {
        cl.iter().any(|c| *c != mine) || s.iter().any(|l| who(finals, sentinels, *l).map(|(c, _, _)| c != mine).unwrap_or(true))
    };
    let t0 = Instant::now();
    let mut sentinel_at: Option<Instant> = None;
    let mut foreign_at: Option<Instant> = None;
    loop {
        let (s, cl) = got(lab);
        if expect.is_subset(&s) {
            break;
        }
        if sentinel_at.is_none() && s.iter().any(|l| my_sentinels.contains(l)) {
            sentinel_at = Some(Instant::now());
        }
        if foreign_at.is_none() && foreign(&s, &cl) {
            foreign_at = Some(Instant::now());
        }
        // the flush tick has demonstrably happened and every re-send round (≤ 5, 100 ms × count apart) is
        // over: whoever is still missing was not a target — that is for the oracle to judge, not a timeout
        if sentinel_at.map(|t| t.elapsed() > Duration::from_secs(4)).unwrap_or(false) {
            break;
        }
        if foreign_at.map(|t| t.elapsed() > Duration::from_millis(1500)).unwrap_or(false) {
            break;
        }
        if t0.elapsed() > deadline {
            if s.is_empty() {
                return Err(format!("the broadcast reached nobody (expected {expect:?}) within {deadline:?}"));
            }
            break;
        }
        tokio::time::sleep(POLL).await;
    }
    // give re-sends of the same pending broadcast (100 ms × send count apart) the chance to show up: wait
    // until nothing new arrived for 450 ms
    let mut last = got(lab).0;
    let mut quiet_since = Instant::now();
    let t1 = Instant::now();
    while quiet_since.elapsed() < Duration::from_millis(450) && t1.elapsed() < Duration::from_secs(4) {
        tokio::time::sleep(POLL).await;
        let now = got(lab).0;
        if now != last {
            last = now;
            quiet_since = Instant::now();
        }
    }
    let (sent, clusters) = got(lab);
    let mut fails = vec![];
    let mut declared_ids: Vec<u16> = clusters.into_iter().filter(|c| *c != mine).collect();
    declared_ids.sort();
    declared_ids.dedup();
    for c in declared_ids {
        fails.push(format!("a broadcast payload sent by a node whose cluster id is {mine} declared cluster {c}"));
    }
    Ok((sent, fails))
}

fn judge_targets(mine: u16, local: bool, finals: &[Tok], sentinels: &[(usize, u16)], ring0: &BTreeSet<usize>, sent: &BTreeSet<usize>) -> Vec<String> {
    let mut fails = vec![];
    for l in ring0 {
        match who(finals, sentinels, *l) {
            Some((c, _, _)) if c != mine => fails.push(format!("ring0 of a cluster-{mine} node contains member {l} of cluster {c}")),
            Some((_, _, ring)) if ring != Some(0) => fails.push(format!("ring0 contains member {l} whose ring is {ring:?}")),
            Some(_) => {}
            None => fails.push(format!("ring0 contains listener {l}, which is not in the table")),
        }
    }
    for t in finals.iter().filter(|t| t.cluster == mine && t.ring == Some(0)) {
        if !ring0.contains(&t.addr) {
            fails.push(format!("same-cluster ring-0 member {:?} is missing from ring0", t.id));
        }
    }
    for l in sent {
        match who(finals, sentinels, *l) {
            Some((c, _, _)) if c != mine => fails.push(format!("a node whose cluster id is {mine} sent a broadcast to member {l} of cluster {c}")),
            Some((_, true, ring)) if !(local && ring == Some(0)) => fails.push("the node sent a broadcast to its own entry outside the ring-0 path".into()),
            Some(_) => {}
            None => fails.push(format!("broadcast reached listener {l}, which is not in the table")),
        }
    }
    let mut expect = expected_peers(mine, finals);
    expect.extend(sentinels.iter().filter(|(_, c)| *c == mine).map(|(l, _)| *l));
    for l in &expect {
        if !sent.contains(l) {
            fails.push(format!("same-cluster member {l} never received the broadcast of the node whose cluster id is {mine}"));
        }
    }
    fails
}

async fn op_targets(w: &mut World, mine: u16, local: bool, anns: &[Tok]) -> Result<Out, OpErr> {
    let finals = final_table(anns);
    if expected_peers(mine, &finals).len() > MAX_TARGETS {
        return Ok(Out { line: "err too-many-eligible".into(), ..Default::default() });
    }
    let lab = w.lab().await?;
    let sentinels = [(SENTINEL_L, mine)];
    lab.node.agent.set_cluster_id(ClusterId(mine));
    let mut o = Out::default();
    o.fails.extend(fill_table(&lab, anns, &sentinels).map_err(OpErr::Inconclusive)?);
    let ring0 = real_ring0(&lab, &finals).map_err(OpErr::Inconclusive)?;
    let r = broadcast_observe(&lab, mine, local, &finals, &sentinels, WAIT).await;
    clear_table(&lab);
    let (sent, fails) = r.map_err(OpErr::Inconclusive)?;
    o.fails.extend(fails);
    o.fails.extend(judge_targets(mine, local, &finals, &sentinels, &ring0, &sent));
    o.line = format!("ring0={} sent={}", show_ids(&ring0), show_ids(&sent));
    let clusters: BTreeSet<u16> = finals.iter().map(|t| t.cluster).collect();
    o.nontrivial = clusters.iter().any(|c| *c != mine);
    if has_updates(anns) {
        o.tags.push("targets:with-identity-updates".into());
    }
    o.tags.push(format!("targets:{}:clusters={}:sent={}", if local { "local" } else { "relay" }, clusters.len().min(4), sent.len().saturating_sub(1).min(9)));
    Ok(o)
}

/// `switch <old> <new> <local|relay|sync> <members>`: the lab agent's tasks are running; its id is `old`, it
/// decides once; then `Agent::set_cluster_id(new)` at run time (what `corrosion cluster set-id` ends in) with
/// the SAME table — members of both clusters — and it decides again.
async fn op_switch(w: &mut World, old: u16, new: u16, mode: &str, anns: &[Tok]) -> Result<Out, OpErr> {
    let finals = final_table(anns);
    let lim = if mode == "sync" { MAX_CANDIDATES } else { MAX_TARGETS };
    if expected_peers(old, &finals).len() > lim || expected_peers(new, &finals).len() > lim {
        return Ok(Out { line: "err too-many-eligible".into(), ..Default::default() });
    }
    let lab = w.lab().await?;
    let mut o = Out::default();
    let tagf = |phase: &str, v: Vec<String>| -> Vec<String> { v.into_iter().map(|f| format!("[{phase}] {f}")).collect() };
    let after = format!("after set-id {old}→{new} at run time");
    lab.node.agent.set_cluster_id(ClusterId(old));
    if mode == "sync" {
        o.fails.extend(fill_table(&lab, anns, &[]).map_err(OpErr::Inconclusive)?);
        let r1 = sync_rounds(&lab, old, &finals).await;
        let r2 = match &r1 {
            Ok(_) => {
                lab.node.agent.set_cluster_id(ClusterId(new));
                Some(sync_rounds(&lab, new, &finals).await)
            }
            Err(_) => None,
        };
        clear_table(&lab);
        let (c1, f1) = r1?;
        let (c2, f2) = r2.unwrap()?;
        o.fails.extend(tagf("before set-id", [f1, judge_candidates(old, &finals, &c1)].concat()));
        o.fails.extend(tagf(&after, [f2, judge_candidates(new, &finals, &c2)].concat()));
        o.line = format!("before chosen={} after chosen={}", show_ids(&c1), show_ids(&c2));
    } else {
        let local = mode == "local";
        let sentinels = [(SENTINEL_L, old), (SENTINEL2_L, new)];
        o.fails.extend(fill_table(&lab, anns, &sentinels).map_err(OpErr::Inconclusive)?);
        let run = async {
            let ring_a = real_ring0(&lab, &finals)?;
            let (sent_a, fa) = broadcast_observe(&lab, old, local, &finals, &sentinels, WAIT).await?;
            lab.node.agent.set_cluster_id(ClusterId(new));
            let ring_b = real_ring0(&lab, &finals)?;
            let (sent_b, fb) = broadcast_observe(&lab, new, local, &finals, &sentinels, WAIT).await?;
            Ok::<_, String>((ring_a, sent_a, fa, ring_b, sent_b, fb))
        }
        .await;
        clear_table(&lab);
        let (ring_a, sent_a, fa, ring_b, sent_b, fb) = run.map_err(OpErr::Inconclusive)?;
        o.fails.extend(tagf("before set-id", [fa, judge_targets(old, local, &finals, &sentinels, &ring_a, &sent_a)].concat()));
        o.fails.extend(tagf(&after, [fb, judge_targets(new, local, &finals, &sentinels, &ring_b, &sent_b)].concat()));
        o.line = format!("before ring0={} sent={} after ring0={} sent={}", show_ids(&ring_a), show_ids(&sent_a), show_ids(&ring_b), show_ids(&sent_b));
    }
    o.nontrivial = old != new;
    o.tags.push(format!("switch:{mode}:{}", if old == new { "same-id" } else { "new-id" }));
    Ok(o)
}

// ---------------------------------------------------------------- dispatch

fn parse_cluster(s: &str) -> Option<u16> {
    if s.is_empty() || !s.chars().all(|c| c.is_ascii_digit()) {
        return None;
    }
    s.parse().ok()
}

fn parse_declared(s: &str) -> Option<Option<u16>> {
    if s == "absent" { Some(None) } else { parse_cluster(s).map(Some) }
}

async fn exec_op(w: &mut World, toks: &[&str]) -> Result<Out, OpErr> {
    match toks {
        ["bcast", s, r] => {
            let (s, r) = (parse_declared(s).ok_or(OpErr::Bad)?, parse_cluster(r).ok_or(OpErr::Bad)?);
            op_bcast(w, s, r).await
        }
        ["sync", c, s] => {
            let (c, s) = (parse_declared(c).ok_or(OpErr::Bad)?, parse_cluster(s).ok_or(OpErr::Bad)?);
            op_sync(w, c, s).await
        }
        ["candidates", mine, ms] => {
            let mine = parse_cluster(mine).ok_or(OpErr::Bad)?;
            let ms = parse_members(ms).ok_or(OpErr::Bad)?;
            op_candidates(w, mine, &ms).await
        }
        ["targets", mine, mode, ms] => {
            let mine = parse_cluster(mine).ok_or(OpErr::Bad)?;
            let local = match *mode {
                "local" => true,
                "relay" => false,
                _ => return Err(OpErr::Bad),
            };
            let ms = parse_members(ms).ok_or(OpErr::Bad)?;
            op_targets(w, mine, local, &ms).await
        }
        ["switch", old, new, mode, ms] => {
            let (old, new) = (parse_cluster(old).ok_or(OpErr::Bad)?, parse_cluster(new).ok_or(OpErr::Bad)?);
            if !matches!(*mode, "local" | "relay" | "sync") {
                return Err(OpErr::Bad);
            }
            let ms = parse_members(ms).ok_or(OpErr::Bad)?;
            op_switch(w, old, new, mode, &ms).await
        }
        ["reconf", a, b, d] => {
            let (a, b) = (parse_cluster(a).ok_or(OpErr::Bad)?, parse_cluster(b).ok_or(OpErr::Bad)?);
            let d = parse_declared(d).ok_or(OpErr::Bad)?;
            op_reconf(w, a, b, d).await
        }
        _ => Err(OpErr::Bad),
    }
}

// ---------------------------------------------------------------- generation

const NODE_CLUSTERS: [u16; 5] = [0, 1, 2, 258, 65535];
const FOREIGN: [u16; 6] = [3, 256, 257, 513, 65534, 4];

fn pick_node_cluster(rng: &mut Rng) -> u16 {
    *rng.pick(&NODE_CLUSTERS)
}

fn gen_declared(rng: &mut Rng, other: u16) -> String {
    match rng.below(10) {
        0 | 1 => "absent".into(),
        2..=4 => other.to_string(),
        5..=7 => pick_node_cluster(rng).to_string(),
        _ => rng.pick(&FOREIGN).to_string(),
    }
}

/// `also`: a second cluster id that must be well represented (the `switch` op), under the same cap
fn gen_members(rng: &mut Rng, mine: u16, max_same: usize, also: Option<u16>) -> String {
    let n = rng.range(if also.is_some() { 2 } else { 0 }, 10) as usize;
    let mut ids: Vec<usize> = (0..N_TOKEN_LISTENERS).collect();
    rng.shuffle(&mut ids);
    let spare: Vec<usize> = ids[n.min(ids.len())..].to_vec();
    let second = also.unwrap_or(mine.wrapping_add(256));
    let pool = [mine, mine, if mine == 0 { 1 } else { 0 }, mine ^ 1, second, if also.is_some() { second } else { 7 }];
    let mut same = 0;
    let mut same2 = 0;
    // (id, cluster, ring) of the FINAL identities
    let mut base: Vec<(usize, u16, String)> = vec![];
    for id in ids.into_iter().take(n) {
        let mut c = *rng.pick(&pool);
        if c == mine {
            if same >= max_same {
                c = mine.wrapping_add(3);
            } else {
                same += 1;
            }
        } else if Some(c) == also {
            if same2 >= max_same {
                c = mine.wrapping_add(3);
            } else {
                same2 += 1;
            }
        }
        let ring = match rng.below(5) {
            0 | 1 => "0".to_string(),
            2 => "-".to_string(),
            _ => rng.range(1, 5).to_string(),
        };
        base.push((id, c, ring));
    }
    let mut out: Vec<String> = vec![];
    let mut spare = spare.into_iter();
    let updates = rng.chance(2, 5);
    for (id, c, ring) in base {
        if updates && rng.chance(1, 2) {
            // the member was announced before with another cluster id (it joined or left `mine`): the final
            // identity is the newer one, whichever of the two arrives first; sometimes it also moved
            let ts_new = rng.range(2, 9);
            let ts_old = rng.range(1, ts_new - 1);
            let c_old = if c == mine { *rng.pick(&[mine.wrapping_add(1), mine ^ 1, 7u16.wrapping_add(mine)]) } else { mine };
            let c_old = if c_old == c { c.wrapping_add(2) } else { c_old };
            let ring_old = if rng.chance(1, 2) { "0" } else { "-" };
            let moved = if rng.chance(1, 3) { spare.next() } else { None };
            let newer = format!("{id}:{c}:{ring}:{ts_new}");
            let older = match moved {
                Some(a) => format!("{id}:{c_old}:{ring_old}:{ts_old}:{a}"),
                None => format!("{id}:{c_old}:{ring_old}:{ts_old}"),
            };
            if rng.chance(2, 3) {
                out.push(older);
                out.push(newer);
            } else {
                out.push(newer);
                out.push(older);
            }
        } else {
            out.push(format!("{id}:{c}:{ring}"));
        }
    }
    if rng.chance(1, 4) {
        let c = if rng.chance(3, 4) { mine } else { mine.wrapping_add(1) };
        let ring = if rng.chance(1, 2) { "0" } else { "-" };
        let at = rng.below(out.len() as u64 + 1) as usize;
        out.insert(at, format!("s:{c}:{ring}"));
    }
    show_list(&out, ",")
}

const PINNED: &[&str] = &[
    "bcast absent 0",
    "bcast absent 1",
    "bcast 0 0",
    "bcast 1 1",
    "bcast 0 1",
    "bcast 1 0",
    "bcast 258 2",
    "bcast 2 258",
    "bcast 65535 65535",
    "bcast 256 0",
    "sync 1 1",
    "sync 1 2",
    "sync 2 1",
    "sync absent 0",
    "sync absent 2",
    "sync 0 258",
    "sync 513 1",
    "candidates 1 0:1:0,1:0:0,2:1:-,3:7:2,s:1:0,4:1:3,5:0:-",
    "candidates 0 0:1:0,1:2:-,2:258:1",
    "candidates 258 0:2:0,1:258:-,2:1:0,3:258:0,4:3:0",
    "targets 1 local 0:1:0,1:0:0,2:1:-,3:7:2,s:1:0,4:1:3,5:0:-",
    "targets 1 relay 0:1:0,1:0:0,2:1:-,3:7:2,s:1:0,4:1:3,5:0:-",
    "targets 0 local 0:1:0,1:2:0,2:258:0",
    "targets 2 relay 0:2:-,1:2:0,2:2:3,3:2:1,4:2:0,5:0:0,6:3:0,7:258:-",
    // identity updates through the real `add_member`: the table must follow the NEWEST identity of each actor
    "candidates 1 0:1:0:1,0:2:0:2,1:1:-",            // left the cluster, same address
    "candidates 1 0:2:0:1,0:1:0:2,1:1:-",            // joined the cluster, same address
    "candidates 1 2:0:-:1,2:1:-:3:7,3:1:0:5,3:0:0:2", // joined and moved; newer first, older ignored
    "targets 1 local 0:1:0:1,0:7:0:2,1:1:0",          // ring-0 member left the cluster, same address
    "targets 1 local 3:1:0:1,3:2:0:2:9,4:1:-",        // left the cluster and moved
    "targets 1 relay 5:2:0:5,5:1:0:2,6:1:3,7:2:-:1,7:1:-:4", // reverse order ignored; joined, same address
    // run-time `set-id` while the tasks run, members of the old and of the new cluster in the table
    "switch 0 7 local 0:0:0,1:7:0,2:0:-,3:7:-",
    "switch 0 7 relay 0:0:0,1:7:0,2:0:-,3:7:-,4:3:0",
    "switch 1 2 sync 0:1:0,1:2:-,2:1:-,3:2:3,4:0:0",
    "switch 258 0 local 0:258:0,1:0:0,s:0:0,2:2:-",
    "switch 3 3 relay 0:3:0,1:4:-",
    // a receiver whose id is changed at run time: connection accepted before vs after the change
    "reconf 1 2 1",
    "reconf 1 2 2",
    "reconf 0 5 absent",
    "reconf 4 4 4",
];

impl Prop for C16 {
    fn id(&self) -> &'static str {
        "C16"
    }
    fn rule(&self) -> &'static str {
        "one case = one scenario against real agents (bcast / sync / candidates / targets / switch / reconf); non-trivial iff the gate \
         had something to refuse or default: different or absent declared id, a membership table with at least one member of another \
         cluster, or a run-time change to a different id; \
         distinct by hash of the op line"
    }
    fn default_cases(&self, tier: Tier) -> usize {
        match tier {
            Tier::Quick => 18,
            Tier::Thorough => 580,
        }
    }
    fn enumerated_case(&self, _tier: Tier, index: usize) -> Option<Vec<String>> {
        PINNED.get(index).map(|s| vec![s.to_string()])
    }
    fn gen_case(&self, rng: &mut Rng, _tier: Tier, _index: usize) -> Vec<String> {
        let line = match rng.below(24) {
            0..=6 => {
                let r = pick_node_cluster(rng);
                format!("bcast {} {r}", gen_declared(rng, r))
            }
            7..=11 => {
                let s = pick_node_cluster(rng);
                // the real client needs a real agent: keep declared ids inside the started clusters most of the time
                let c = if rng.chance(1, 6) { gen_declared(rng, s) } else if rng.chance(1, 3) { s.to_string() } else { pick_node_cluster(rng).to_string() };
                format!("sync {c} {s}")
            }
            12..=14 => {
                let mine = *rng.pick(&[0u16, 1, 2, 258, 65535, 7]);
                format!("candidates {mine} {}", gen_members(rng, mine, MAX_CANDIDATES, None))
            }
            15..=17 => {
                let mine = *rng.pick(&[0u16, 1, 2, 258, 65535, 7]);
                let mode = if rng.chance(1, 2) { "local" } else { "relay" };
                format!("targets {mine} {mode} {}", gen_members(rng, mine, MAX_TARGETS, None))
            }
            18..=21 => {
                // run-time change of the node's id with members of both clusters in the table
                let old = *rng.pick(&[0u16, 0, 1, 2, 258, 65535]);
                let new = if rng.chance(1, 8) { old } else { *rng.pick(&[0u16, 1, 7, 2, 513, 65535]) };
                let mode = *rng.pick(&["local", "relay", "sync", "local"]);
                let lim = if mode == "sync" { MAX_CANDIDATES } else { MAX_TARGETS };
                format!("switch {old} {new} {mode} {}", gen_members(rng, old, lim.min(4), Some(new)))
            }
            _ => {
                let a = *rng.pick(&[0u16, 1, 2, 258]);
                let b = if rng.chance(1, 6) { a } else { *rng.pick(&[0u16, 1, 5, 65535]) };
                let d = match rng.below(5) {
                    0 => "absent".to_string(),
                    1 | 2 => a.to_string(),
                    3 => b.to_string(),
                    _ => rng.pick(&FOREIGN).to_string(),
                };
                format!("reconf {a} {b} {d}")
            }
        };
        vec![line]
    }
    fn begin(&self) {
        let mut g = WORLD.lock().unwrap();
        if g.is_none() {
            *g = runtime().block_on(World::new()).ok();
        }
    }
    fn end(&self) {
        let w = WORLD.lock().unwrap().take();
        if let Some(mut w) = w {
            runtime().block_on(async {
                if let Some(Ok(lab)) = &w.lab {
                    let _ = lab.node.trip_tx.send(()).await;
                }
                w.stop_nodes().await;
                let _ = tokio::time::timeout(Duration::from_secs(5), klukai_types::spawn::wait_for_all_pending_handles()).await;
            });
            drop(w);
        }
    }
    fn exec_case(&self, ops: &[String]) -> CaseResult {
        let mut r = CaseResult::default();
        let mut g = WORLD.lock().unwrap();
        if g.is_none() {
            match runtime().block_on(World::new()) {
                Ok(w) => *g = Some(w),
                Err(e) => {
                    r.outputs = ops.iter().map(|_| "err world".to_string()).collect();
                    r.inconclusive = Some(format!("harness world could not be created: {e}"));
                    return r;
                }
            }
        }
        let w = g.as_mut().unwrap();
        runtime().block_on(async {
            for op in ops {
                let toks: Vec<&str> = op.split_whitespace().collect();
                let mut res = exec_op(w, &toks).await;
                if let Err(OpErr::Inconclusive(why)) = &res {
                    r.tags.push(format!("retried:{}", short(why)));
                    res = exec_op(w, &toks).await;
                }
                match res {
                    Ok(o) => {
                        r.outputs.push(o.line);
                        r.oracle_failures.extend(o.fails);
                        r.tags.extend(o.tags);
                        r.nontrivial |= o.nontrivial;
                    }
                    Err(OpErr::Bad) => r.outputs.push("bad-op".into()),
                    Err(OpErr::Inconclusive(why)) => {
                        r.outputs.push("inconclusive".into());
                        r.inconclusive = Some(short(&why));
                    }
                }
            }
        });
        r
    }
}
