//! C06 — a crash at any point loses no acknowledged write and no sync obligation.
//! Real agents (cluster kit): `nkill` stops a node's background loops (deliveries committed afterwards are
//! stored but never applied in that process), `nrestart` starts a fresh agent on the same files.
use crate::cluster::{Cluster, GenMix, convergence_oracle, gen_cluster_case};
use crate::rng::Rng;
use crate::runner::{CaseResult, Prop, Tier};

pub struct C06;

fn gen_ops(rng: &mut Rng, tier: Tier) -> Vec<String> {
    let mix = GenMix {
        nodes: (2, 3),
        ops: if tier == Tier::Thorough { (10, 40) } else { (8, 22) },
        crash: true,
        partial_chunks: true,
        lossy_sync: true,
    };
    let mut ops = gen_cluster_case(rng, &mix);
    // most cases start with a scripted crash window: a multi-row transaction of node 0 reaches node 1 in two
    // pieces, node 1 is killed before / between / after them (so the second piece is committed but never applied
    // in that process), possibly together with a gap-creating later version and an own write, then restarted
    if rng.chance(3, 4) {
        let mut pre = vec![
            "nw 1 ins:t:i7:a=t6f,b=i1".to_string(),
            format!("nw 0 ins:t:i11:a=t{:02x},b=i1;ins:t:i12:a=t62;ins:u:i3+t61:x=t78", rng.range(0x61, 0x7a)),
            "nw 0 upd:t:i11:b=i2".to_string(),
            "nw 0 ins:k:i4:-".to_string(),
        ];
        let kill_at = rng.below(4);
        let mut steps = if rng.chance(1, 2) {
            vec!["nb 1 o:0:1:p0of2".to_string(), "nb 1 o:0:3:all".to_string(), "nb 1 o:0:1:p1of2".to_string()]
        } else {
            // three pieces: head and tail arrive, the middle one (a hole INSIDE the partial) arrives late or only by sync
            let mut v = vec!["nb 1 o:0:1:p0of3".to_string(), "nb 1 o:0:1:p2of3".to_string()];
            if rng.chance(1, 2) {
                v.insert(1, "nb 1 o:0:3:all".to_string());
            }
            v
        };
        if rng.chance(1, 2) {
            let n = steps.len() - 1;
            steps.swap(0, n);
        }
        if steps.len() == 3 && steps[1].contains(":3:") && rng.chance(1, 3) {
            steps.remove(1);
        }
        for (i, st) in steps.iter().enumerate() {
            if i as u64 == kill_at {
                pre.push("nkill 1".into());
            }
            pre.push(st.clone());
        }
        if kill_at >= steps.len() as u64 {
            pre.push("nkill 1".into());
        }
        pre.push("nrestart 1".into());
        if rng.chance(1, 2) {
            pre.push("nsync 1 0 all".into());
        }
        pre.extend(ops);
        ops = pre;
    }
    // observe the advertised state right before and right after every restart
    let mut out = vec![];
    for o in ops {
        if let Some(n) = o.strip_prefix("nrestart ") {
            out.push(format!("nstate {n}"));
            out.push(format!("ndump {n}"));
            out.push(o.clone());
            out.push(format!("nstate {n}"));
            out.push(format!("ndump {n}"));
        } else {
            out.push(o);
        }
    }
    out
}

impl Prop for C06 {
    fn id(&self) -> &'static str {
        "C06"
    }
    fn rule(&self) -> &'static str {
        "one case = a history of local writes, chunked deliveries and lossy sync sessions on 2-3 real agents with nodes \
         killed (loops stopped, later deliveries stored but not applied) and restarted on the same files at seeded points, ending \
         with lossless sync rounds; non-trivial iff a node was restarted while it held gaps, partials or fully buffered unapplied \
         versions; distinct by hash of the op list"
    }
    fn default_cases(&self, tier: Tier) -> usize {
        match tier {
            Tier::Quick => 40,
            Tier::Thorough => 800,
        }
    }
    fn gen_case(&self, rng: &mut Rng, tier: Tier, _index: usize) -> Vec<String> {
        gen_ops(rng, tier)
    }
    fn exec_case(&self, ops: &[String]) -> CaseResult {
        let mut r = CaseResult::default();
        let mut cl = Cluster::new("c06");
        for op in ops {
            let toks: Vec<&str> = op.split_whitespace().collect();
            let out = cl.exec(&toks).unwrap_or_else(|| "bad-op".into());
            if out.starts_with("inconclusive") {
                r.inconclusive = Some(out.clone());
            }
            r.outputs.push(out);
        }
        let outs = r.outputs.clone();
        // (1) acknowledged local writes survive: the node's own head after a restart is its last acknowledged version
        let mut acked: std::collections::BTreeMap<String, u64> = Default::default();
        for (i, (op, out)) in ops.iter().zip(&outs).enumerate() {
            let t: Vec<&str> = op.split_whitespace().collect();
            match t.as_slice() {
                ["nw", n, _] if out.starts_with("ok v=") => {
                    let v: u64 = out[5..].split(' ').next().and_then(|x| x.parse().ok()).unwrap_or(0);
                    acked.insert(n.to_string(), v);
                }
                ["nrestart", n] if out == "ok" => {
                    // pattern emitted by the generator: nstate, ndump, nrestart, nstate, ndump
                    if i >= 2 && i + 2 < ops.len() && ops[i - 2] == format!("nstate {n}") && ops[i + 1] == format!("nstate {n}") {
                        let (pre, post) = (&outs[i - 2], &outs[i + 1]);
                        if pre != post {
                            r.oracle_failures.push(format!(
                                "advertised sync state changed across a restart of node {n}: before `{pre}` after `{post}`"
                            ));
                        }
                        let (dpre, dpost) = (&outs[i - 1], &outs[i + 2]);
                        // what was held before is still stored: every live entry before the restart is still there or was
                        // overwritten by a fully buffered version that the restart applied (then the store only grows in
                        // the CRDT order); cheap check: tables' row keys only grow
                        let keys = |d: &str| -> Vec<String> {
                            d.split(" | ").nth(1).unwrap_or("").split(';').map(|x| x.split(':').next().unwrap_or("").to_string()).filter(|x| !x.is_empty() && x != "-").collect()
                        };
                        let had_pending = dpre.contains("seqs[") && !dpre.contains("seqs[]");
                        if !had_pending && dpre.split(" | ").take(2).collect::<Vec<_>>() != dpost.split(" | ").take(2).collect::<Vec<_>>() {
                            r.oracle_failures.push(format!("the stored data of node {n} changed across a restart with nothing pending"));
                        }
                        let _ = keys;
                        if dpre.contains("need=") && (!dpre.contains("gaps[]") || had_pending) {
                            r.nontrivial = true;
                        }
                        if let Some(v) = acked.get(*n) {
                            let own = format!("a{n} max={v} ");
                            if !dpost.contains(&own) {
                                r.oracle_failures.push(format!("node {n} acknowledged version {v} before the crash but does not hold it after the restart"));
                            }
                        }
                        // every fully buffered version is applied by the restart: no complete partial keeps rows
                        // (wait_quiescent inside `nrestart` already waits for it; a timeout shows as inconclusive)
                    }
                }
                _ => {}
            }
        }
        // (2) continued operation still converges
        for f in convergence_oracle(ops, &outs) {
            r.oracle_failures.push(f);
        }
        r
    }
}
