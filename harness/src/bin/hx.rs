use verif_harness::runner::{run, RunOpts, Tier};

fn main() {
    let args: Vec<String> = std::env::args().collect();
    if args.len() < 2 {
        eprintln!("usage: hx <property> [--seed S] [--cases N] [--tier quick|thorough] --out DIR [--replay FILE]... [--corpus DIR]");
        std::process::exit(2);
    }
    let id = args[1].clone();
    let mut opts = RunOpts { seed: 1, cases: None, tier: Tier::Quick, out: String::new(), replay: vec![], corpus: None };
    let mut i = 2;
    while i < args.len() {
        let v = args.get(i + 1).cloned().unwrap_or_default();
        match args[i].as_str() {
            "--seed" => opts.seed = v.parse().expect("seed"),
            "--cases" => opts.cases = Some(v.parse().expect("cases")),
            "--tier" => opts.tier = if v == "thorough" { Tier::Thorough } else { Tier::Quick },
            "--out" => opts.out = v,
            "--replay" => opts.replay.push(v),
            "--corpus" => opts.corpus = Some(v),
            x => {
                eprintln!("unknown argument {x}");
                std::process::exit(2);
            }
        }
        i += 2;
    }
    if opts.out.is_empty() {
        eprintln!("--out is required");
        std::process::exit(2);
    }
    let prop = match verif_harness::prop_by_id(&id) {
        Some(p) => p,
        None => {
            eprintln!("unknown property {id}");
            std::process::exit(2);
        }
    };
    // silence panic messages of caught panics unless asked for
    if std::env::var("HX_VERBOSE").is_err() {
        std::panic::set_hook(Box::new(|_| {}));
    }
    if let Err(e) = run(prop.as_ref(), &opts) {
        eprintln!("hx: io error: {e}");
        std::process::exit(3);
    }
}
