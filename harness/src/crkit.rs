//! Shared helpers for harness modules that drive real cr-sqlite databases / real agents:
//! value tokens, deterministic site ids, plain `CrConn` databases with corrosion's migrations,
//! canonical dumps of `crsql_changes` and of the replicated tables.
use std::path::{Path, PathBuf};
use std::sync::Arc;

use klukai_types::agent::migrate;
use klukai_types::api::SqliteValue;
use klukai_types::pubsub::{pack_columns, unpack_columns};
use klukai_types::schema::{Schema, apply_schema, parse_sql};
use klukai_types::sqlite::{CrConn, setup_conn};
use rusqlite::types::ValueRef;

/// Schema used by the CRDT / cluster correspondence: nullable columns without defaults (so a column
/// that never received a value reads NULL), a composite key and a key-only table.
pub const VSCHEMA: &str = r#"
CREATE TABLE t (id INTEGER NOT NULL PRIMARY KEY, a TEXT, b INTEGER);
CREATE TABLE u (k1 INTEGER NOT NULL, k2 TEXT NOT NULL, x TEXT, PRIMARY KEY (k1, k2));
CREATE TABLE k (id INTEGER NOT NULL PRIMARY KEY);
"#;

pub fn table_cols(tbl: &str) -> Option<(&'static [&'static str], &'static [&'static str])> {
    match tbl {
        "t" => Some((&["id"], &["a", "b"])),
        "u" => Some((&["k1", "k2"], &["x"])),
        "k" => Some((&["id"], &[])),
        _ => None,
    }
}

/// site id of database / node `i`: sixteen bytes `i+1` (ordering by bytes == ordering by index)
pub fn site_id(i: usize) -> [u8; 16] {
    [(i + 1) as u8; 16]
}

pub fn site_index(id: &[u8]) -> String {
    if id.len() == 16 && id.iter().all(|b| *b == id[0]) && id[0] >= 1 {
        format!("{}", id[0] - 1)
    } else {
        format!("x{}", hex::encode(id))
    }
}

// ---------------------------------------------------------------- value tokens
// n = NULL, i<decimal> = INTEGER, t<hex> = TEXT (utf-8 bytes), b<hex> = BLOB

pub fn parse_val(tok: &str) -> Option<SqliteValue> {
    if tok == "n" {
        return Some(SqliteValue::Null);
    }
    let (k, rest) = tok.split_at(1);
    match k {
        "i" => rest.parse::<i64>().ok().map(SqliteValue::Integer),
        "t" => {
            let b = hex::decode(rest).ok()?;
            Some(SqliteValue::Text(String::from_utf8(b).ok()?.into()))
        }
        "b" => Some(SqliteValue::Blob(hex::decode(rest).ok()?.into())),
        _ => None,
    }
}

pub fn show_val(v: &SqliteValue) -> String {
    match v {
        SqliteValue::Null => "n".into(),
        SqliteValue::Integer(i) => format!("i{i}"),
        SqliteValue::Real(r) => format!("r{:016x}", r.0.to_bits()),
        SqliteValue::Text(t) => format!("t{}", hex::encode(t.as_bytes())),
        SqliteValue::Blob(b) => format!("b{}", hex::encode(b)),
    }
}

pub fn show_valref(v: ValueRef<'_>) -> String {
    match v {
        ValueRef::Null => "n".into(),
        ValueRef::Integer(i) => format!("i{i}"),
        ValueRef::Real(r) => format!("r{:016x}", r.to_bits()),
        ValueRef::Text(t) => format!("t{}", hex::encode(t)),
        ValueRef::Blob(b) => format!("b{}", hex::encode(b)),
    }
}

/// pk token: value tokens joined by `+`
pub fn parse_pk(tok: &str) -> Option<Vec<SqliteValue>> {
    tok.split('+').map(parse_val).collect()
}

pub fn pack_pk(tok: &str) -> Option<Vec<u8>> {
    pack_columns(&parse_pk(tok)?).ok()
}

pub fn show_pk(packed: &[u8]) -> String {
    match unpack_columns(packed) {
        Ok(vals) => vals.iter().map(|v| show_valref(v.0)).collect::<Vec<_>>().join("+"),
        Err(_) => format!("?{}", hex::encode(packed)),
    }
}

pub fn to_sql(v: &SqliteValue) -> rusqlite::types::Value {
    match v {
        SqliteValue::Null => rusqlite::types::Value::Null,
        SqliteValue::Integer(i) => rusqlite::types::Value::Integer(*i),
        SqliteValue::Real(r) => rusqlite::types::Value::Real(r.0),
        SqliteValue::Text(t) => rusqlite::types::Value::Text(t.to_string()),
        SqliteValue::Blob(b) => rusqlite::types::Value::Blob(b.to_vec()),
    }
}

// ---------------------------------------------------------------- databases

pub fn tmp_root() -> PathBuf {
    let p = PathBuf::from("/verif/harness/target/tmp");
    let _ = std::fs::create_dir_all(&p);
    p
}

pub struct TmpDir(pub PathBuf);
impl TmpDir {
    pub fn new(tag: &str) -> Self {
        static N: std::sync::atomic::AtomicU64 = std::sync::atomic::AtomicU64::new(0);
        let n = N.fetch_add(1, std::sync::atomic::Ordering::SeqCst);
        let p = tmp_root().join(format!("{tag}-{}-{n}", std::process::id()));
        let _ = std::fs::remove_dir_all(&p);
        std::fs::create_dir_all(&p).expect("tmp dir");
        TmpDir(p)
    }
    pub fn path(&self) -> &Path {
        &self.0
    }
}
impl Drop for TmpDir {
    fn drop(&mut self) {
        let _ = std::fs::remove_dir_all(&self.0);
    }
}

/// Creates the database file with a fixed site id (so that site-id tie breaks are reproducible).
pub fn precreate_db(path: &Path, site: [u8; 16]) -> rusqlite::Result<()> {
    let conn = CrConn::init(rusqlite::Connection::open(path)?)?;
    conn.execute("UPDATE crsql_site_id SET site_id = ? WHERE ordinal = 0", [site.to_vec()])?;
    Ok(())
}

fn build_template(path: &Path) -> rusqlite::Result<()> {
    let _ = std::fs::remove_file(path);
    {
        let mut conn = CrConn::init(rusqlite::Connection::open(path)?)?;
        setup_conn(&conn)?;
        let clock = Arc::new(uhlc::HLC::default());
        migrate(clock, &mut conn)?;
        let mut schema = parse_sql(VSCHEMA).expect("schema parses");
        {
            let tx = conn.transaction()?;
            apply_schema(&tx, &Schema::default(), &mut schema).expect("schema applies");
            tx.commit()?;
        }
        // leave a single self-contained file behind
        conn.execute_batch("PRAGMA wal_checkpoint(TRUNCATE);")?;
        let _: String = conn.query_row("PRAGMA journal_mode = DELETE", [], |r| r.get(0))?;
    }
    Ok(())
}

/// A plain cr-sqlite database with corrosion's migrations and `VSCHEMA`, site id `site_id(i)`.
/// Databases are stamped out from a template file built once per process (opening a fresh one
/// with all migrations costs ~80 ms, a copy ~2 ms).
pub fn open_plain_db(dir: &Path, i: usize) -> rusqlite::Result<CrConn> {
    static TEMPLATE: std::sync::OnceLock<PathBuf> = std::sync::OnceLock::new();
    let tpl = TEMPLATE.get_or_init(|| {
        let p = tmp_root().join(format!("template-{}.sqlite", std::process::id()));
        build_template(&p).expect("template database");
        p
    });
    let path = dir.join(format!("db{i}.sqlite"));
    std::fs::copy(tpl, &path).map_err(|e| rusqlite::Error::ToSqlConversionFailure(Box::new(e)))?;
    {
        let raw = rusqlite::Connection::open(&path)?;
        raw.execute("UPDATE crsql_site_id SET site_id = ? WHERE ordinal = 0", [site_id(i).to_vec()])?;
    }
    let conn = CrConn::init(rusqlite::Connection::open(&path)?)?;
    setup_conn(&conn)?;
    Ok(conn)
}

/// removes the per-process template (call from `Prop::end`)
pub fn cleanup_template() {
    let p = tmp_root().join(format!("template-{}.sqlite", std::process::id()));
    let _ = std::fs::remove_file(&p);
    let _ = std::fs::remove_file(p.with_extension("sqlite-wal"));
    let _ = std::fs::remove_file(p.with_extension("sqlite-shm"));
}

/// One cr-sqlite change in canonical text form.
#[derive(Clone, Debug, PartialEq)]
pub struct Chg {
    pub table: String,
    pub pk: String, // token form
    pub cid: String,
    pub val: String, // token form
    pub colv: i64,
    pub cl: i64,
    pub site: String,
    pub dbv: i64,
    pub seq: i64,
    pub pk_raw: Vec<u8>,
    pub val_raw: SqliteValue,
    pub site_raw: Vec<u8>,
}

impl Chg {
    pub fn show(&self) -> String {
        format!(
            "{}/{}/{}={}@{}.{}.{}.{}.{}",
            self.table, self.pk, self.cid, self.val, self.colv, self.cl, self.site, self.dbv, self.seq
        )
    }
}

pub fn read_changes(conn: &rusqlite::Connection, filter: &str, params: &[&dyn rusqlite::ToSql]) -> rusqlite::Result<Vec<Chg>> {
    let sql = format!(
        r#"SELECT "table", pk, cid, val, col_version, cl, site_id, db_version, seq FROM crsql_changes {filter}"#
    );
    let mut st = conn.prepare(&sql)?;
    let rows = st.query_map(params, |r| {
        let pk: Vec<u8> = r.get(1)?;
        let val: SqliteValue = r.get(3)?;
        let site: Vec<u8> = r.get(6)?;
        Ok(Chg {
            table: r.get(0)?,
            pk: show_pk(&pk),
            cid: r.get(2)?,
            val: show_val(&val),
            colv: r.get(4)?,
            cl: r.get(5)?,
            site: site_index(&site),
            dbv: r.get(7)?,
            seq: r.get(8)?,
            pk_raw: pk,
            val_raw: val,
            site_raw: site,
        })
    })?;
    rows.collect()
}

/// canonical dump: all live entries of crsql_changes sorted by (table, pk, cid), then the rows of
/// the replicated tables.
pub fn dump_db(conn: &rusqlite::Connection) -> rusqlite::Result<String> {
    let mut chs = read_changes(conn, "", &[])?;
    chs.sort_by(|a, b| (&a.table, &a.pk, &a.cid).cmp(&(&b.table, &b.pk, &b.cid)));
    let c: Vec<String> = chs.iter().map(|c| c.show()).collect();
    let mut rows = vec![];
    for tbl in ["k", "t", "u"] {
        let (pks, cols) = table_cols(tbl).unwrap();
        let all: Vec<&str> = pks.iter().chain(cols.iter()).copied().collect();
        let mut st = conn.prepare(&format!("SELECT {} FROM {tbl}", all.join(",")))?;
        let mut q = st.query([])?;
        let mut trs = vec![];
        while let Some(r) = q.next()? {
            let mut pk = vec![];
            for i in 0..pks.len() {
                pk.push(show_valref(r.get_ref(i)?));
            }
            let mut vs = vec![];
            for i in pks.len()..all.len() {
                vs.push(show_valref(r.get_ref(i)?));
            }
            trs.push(format!("{tbl}/{}:{}", pk.join("+"), vs.join(",")));
        }
        trs.sort();
        rows.extend(trs);
    }
    Ok(format!(
        "{} | {}",
        if c.is_empty() { "-".to_string() } else { c.join(";") },
        if rows.is_empty() { "-".to_string() } else { rows.join(";") }
    ))
}

/// One statement of the write mini-language:
///   ins:<tbl>:<pk>:<col=val,..>   upd:<tbl>:<pk>:<col=val,..>   del:<tbl>:<pk>
/// Returns (sql, params).
pub fn stmt_sql(stmt: &str) -> Option<(String, Vec<rusqlite::types::Value>)> {
    let parts: Vec<&str> = stmt.split(':').collect();
    let kind = *parts.first()?;
    let tbl = *parts.get(1)?;
    let (pks, cols) = table_cols(tbl)?;
    let pkv = parse_pk(parts.get(2)?)?;
    if pkv.len() != pks.len() {
        return None;
    }
    let mut assigns: Vec<(String, SqliteValue)> = vec![];
    if let Some(a) = parts.get(3) {
        if *a != "-" && !a.is_empty() {
            for kv in a.split(',') {
                let (c, v) = kv.split_once('=')?;
                if !cols.contains(&c) {
                    return None;
                }
                let val = parse_val(v)?;
                // keep stored == written: no integers into TEXT-affinity columns, only integers/NULL into `b`
                let ok = match (&val, c) {
                    (SqliteValue::Null, _) => true,
                    (SqliteValue::Integer(_), "b") => true,
                    (SqliteValue::Text(_) | SqliteValue::Blob(_), "a" | "x") => true,
                    _ => false,
                };
                if !ok {
                    return None;
                }
                assigns.push((c.to_string(), val));
            }
        }
    }
    let mut params: Vec<rusqlite::types::Value> = vec![];
    match kind {
        "ins" => {
            let mut names: Vec<String> = pks.iter().map(|s| s.to_string()).collect();
            for v in &pkv {
                params.push(to_sql(v));
            }
            for (c, v) in &assigns {
                names.push(c.clone());
                params.push(to_sql(v));
            }
            let qs = vec!["?"; names.len()].join(",");
            Some((format!("INSERT INTO {tbl} ({}) VALUES ({qs})", names.join(",")), params))
        }
        "upd" => {
            if assigns.is_empty() {
                return None;
            }
            let sets: Vec<String> = assigns.iter().map(|(c, _)| format!("{c} = ?")).collect();
            for (_, v) in &assigns {
                params.push(to_sql(v));
            }
            let wh: Vec<String> = pks.iter().map(|p| format!("{p} = ?")).collect();
            for v in &pkv {
                params.push(to_sql(v));
            }
            Some((format!("UPDATE {tbl} SET {} WHERE {}", sets.join(", "), wh.join(" AND ")), params))
        }
        "del" => {
            let wh: Vec<String> = pks.iter().map(|p| format!("{p} = ?")).collect();
            for v in &pkv {
                params.push(to_sql(v));
            }
            Some((format!("DELETE FROM {tbl} WHERE {}", wh.join(" AND ")), params))
        }
        _ => None,
    }
}
