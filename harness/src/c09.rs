//! C09 — real binary codecs vs the Lean models `Corro.Pack` / `Corro.Codec`.
//!
//! Every case (a batch of op lines) is executed in a CHILD process (this executable re-executed with
//! the normal CLI `C09 --replay <file> --out <dir>` under `HX_C09_CHILD=<stream file>`), so that a
//! decode that aborts the process (allocation failure) is observed by the parent as an oracle failure
//! `abort` instead of taking the run down.  Inside the child every real decode runs under
//! `catch_unwind` and a counting global allocator.
use std::alloc::{GlobalAlloc, Layout, System};
use std::io::Write;
use std::panic::{catch_unwind, AssertUnwindSafe};
use std::sync::atomic::{AtomicUsize, Ordering};

use klukai_types::api::SqliteValue;
use klukai_types::pubsub::{pack_columns, unpack_columns, UnpackError};
use rusqlite::types::ValueRef;

use crate::rng::Rng;
use crate::runner::{CaseResult, Prop, Tier};
use crate::util::*;

pub struct C09;

// ------------------------------------------------------------------------------------------------
// counting allocator (only compiled with feature c09)

static CUR: AtomicUsize = AtomicUsize::new(0);
static PEAK: AtomicUsize = AtomicUsize::new(0);
/// a single request of this size or more is refused (null → `handle_alloc_error` → abort): the
/// largest input of this harness is well under 1 MiB and the frame limit of the protocol is 100 MiB,
/// so such a request is unrelated to the input by any measure.  This makes "the decoder tried to
/// reserve memory by a peer-supplied length" deterministic instead of depending on overcommit.
const REFUSE: usize = 1 << 30;

pub struct CountingAlloc;

#[inline]
fn track_add(n: usize) {
    let cur = CUR.fetch_add(n, Ordering::Relaxed) + n;
    PEAK.fetch_max(cur, Ordering::Relaxed);
}

unsafe impl GlobalAlloc for CountingAlloc {
    unsafe fn alloc(&self, l: Layout) -> *mut u8 {
        if l.size() >= REFUSE {
            return std::ptr::null_mut();
        }
        let p = unsafe { System.alloc(l) };
        if !p.is_null() {
            track_add(l.size());
        }
        p
    }
    unsafe fn alloc_zeroed(&self, l: Layout) -> *mut u8 {
        if l.size() >= REFUSE {
            return std::ptr::null_mut();
        }
        let p = unsafe { System.alloc_zeroed(l) };
        if !p.is_null() {
            track_add(l.size());
        }
        p
    }
    unsafe fn dealloc(&self, p: *mut u8, l: Layout) {
        unsafe { System.dealloc(p, l) };
        CUR.fetch_sub(l.size(), Ordering::Relaxed);
    }
    unsafe fn realloc(&self, p: *mut u8, l: Layout, new: usize) -> *mut u8 {
        if new >= REFUSE {
            return std::ptr::null_mut();
        }
        let q = unsafe { System.realloc(p, l, new) };
        if !q.is_null() {
            if new >= l.size() {
                track_add(new - l.size());
            } else {
                CUR.fetch_sub(l.size() - new, Ordering::Relaxed);
            }
        }
        q
    }
}

#[global_allocator]
static GLOBAL: CountingAlloc = CountingAlloc;

/// runs `f` under `catch_unwind`; returns its result (None = panicked, with the message) and the peak
/// number of heap bytes live above the level at entry
fn measured<T>(f: impl FnOnce() -> T) -> (Result<T, String>, usize) {
    let base = CUR.load(Ordering::Relaxed);
    PEAK.store(base, Ordering::Relaxed);
    let r = catch_unwind(AssertUnwindSafe(f));
    let peak = PEAK.load(Ordering::Relaxed).saturating_sub(base);
    let r = r.map_err(|e| {
        e.downcast_ref::<String>()
            .cloned()
            .or_else(|| e.downcast_ref::<&str>().map(|s| s.to_string()))
            .unwrap_or_else(|| "panic".into())
    });
    (r, peak)
}

/// allocation bound of the oracle: peak live heap of one decode ≤ ALLOC_A · input length + ALLOC_B
const ALLOC_A: usize = 64;
const ALLOC_B: usize = 16 * 1024;

fn alloc_ok(peak: usize, len: usize) -> bool {
    peak <= ALLOC_A * len + ALLOC_B
}

// ------------------------------------------------------------------------------------------------
// textual forms

fn hex_of(b: &[u8]) -> String {
    if b.is_empty() { "-".into() } else { hex::encode(b) }
}

fn parse_hex(s: &str) -> Option<Vec<u8>> {
    if s == "-" {
        return Some(vec![]);
    }
    if s.bytes().any(|c| !(c.is_ascii_digit() || (b'a'..=b'f').contains(&c))) {
        return None;
    }
    hex::decode(s).ok()
}

fn parse_hex_raw(s: &str) -> Option<Vec<u8>> {
    if s.is_empty() { Some(vec![]) } else if s == "-" { None } else { parse_hex(s) }
}

/// packed-key value: `n`, `i<dec>`, `r<16 hex>`, `t<hex utf8>`, `b<hex>`
fn parse_val(s: &str) -> Option<SqliteValue> {
    let (k, rest) = s.split_at(1.min(s.len()));
    match k {
        "n" if rest.is_empty() => Some(SqliteValue::Null),
        "i" => {
            // the Lean side uses String.toInt?: optional '-' then digits
            let digits = rest.strip_prefix('-').unwrap_or(rest);
            if digits.is_empty() || !digits.bytes().all(|c| c.is_ascii_digit()) {
                return None;
            }
            rest.parse::<i64>().ok().map(SqliteValue::Integer)
        }
        "r" if rest.len() == 16 => {
            let b = parse_hex(rest)?;
            let bits = u64::from_be_bytes(b.try_into().ok()?);
            Some(SqliteValue::Real(klukai_types::api::Real(f64::from_bits(bits))))
        }
        "t" => {
            let b = parse_hex_raw(rest)?;
            let s = String::from_utf8(b).ok()?;
            Some(SqliteValue::Text(s.into()))
        }
        "b" => Some(SqliteValue::Blob(parse_hex_raw(rest)?.into())),
        _ => None,
    }
}

fn parse_vals(s: &str) -> Option<Vec<SqliteValue>> {
    split_list(s).into_iter().map(parse_val).collect()
}

fn show_val(v: &SqliteValue) -> String {
    match v {
        SqliteValue::Null => "n".into(),
        SqliteValue::Integer(i) => format!("i{i}"),
        SqliteValue::Real(r) => format!("r{:016x}", r.0.to_bits()),
        SqliteValue::Text(t) => format!("t{}", hex::encode(t.as_bytes())),
        SqliteValue::Blob(b) => format!("b{}", hex::encode(b.as_slice())),
    }
}

fn show_valref(v: &ValueRef<'_>) -> String {
    match v {
        ValueRef::Null => "n".into(),
        ValueRef::Integer(i) => format!("i{i}"),
        ValueRef::Real(r) => format!("r{:016x}", r.to_bits()),
        ValueRef::Text(t) => format!("t{}", hex::encode(t)),
        ValueRef::Blob(b) => format!("b{}", hex::encode(b)),
    }
}

/// bit-exact equality (NaN compared by bit pattern, never by float equality)
fn same_val(a: &SqliteValue, b: &SqliteValue) -> bool {
    show_val(a) == show_val(b)
}

fn is_nan(v: &SqliteValue) -> bool {
    matches!(v, SqliteValue::Real(r) if r.0.is_nan())
}

// ------------------------------------------------------------------------------------------------
// executing ops on the real code

#[derive(Default)]
struct OpOut {
    out: String,
    fails: Vec<String>,
    tags: Vec<String>,
    nontrivial: bool,
}

impl OpOut {
    fn bad() -> Self {
        OpOut { out: "bad-op".into(), ..Default::default() }
    }
}

fn exec_pack(arg: &str) -> OpOut {
    let Some(vals) = parse_vals(arg) else { return OpOut::bad() };
    let mut o = OpOut::default();
    let (res, _peak) = measured(|| pack_columns(&vals));
    match res {
        Err(p) => {
            o.out = "panic".into();
            o.fails.push(format!("pack_columns panicked: {p}"));
        }
        Ok(Err(_)) => {
            o.out = "err abort".into();
            o.tags.push("pack:err".into());
            if vals.len() <= 255 {
                o.fails.push("pack_columns refused at most 255 columns".into());
            }
        }
        Ok(Ok(bytes)) => {
            o.out = format!("ok {}", hex_of(&bytes));
            o.tags.push(format!("pack:cols:{}", bucket(vals.len())));
            // oracle: the real unpack gives back the values, bit for bit
            match unpack_columns(&bytes) {
                Ok(back) => {
                    let back: Vec<String> = back.iter().map(|v| show_valref(&v.0)).collect();
                    let want: Vec<String> = vals.iter().map(show_val).collect();
                    if back != want {
                        o.fails.push(format!(
                            "round trip: unpack_columns(pack_columns(v)) != v: got {} want {}",
                            show_list(&back, ","),
                            show_list(&want, ",")
                        ));
                    }
                    o.nontrivial = !vals.is_empty();
                }
                Err(e) => o.fails.push(format!("round trip: unpack_columns(pack_columns(v)) = err {e}")),
            }
        }
    }
    o
}

fn exec_unpack(arg: &str) -> OpOut {
    let Some(bytes) = parse_hex(arg) else { return OpOut::bad() };
    let mut o = OpOut::default();
    let (res, peak) = measured(|| {
        unpack_columns(&bytes).map(|vs| {
            let shown: Vec<String> = vs.iter().map(|v| show_valref(&v.0)).collect();
            let payload: usize = vs
                .iter()
                .map(|v| match v.0 {
                    ValueRef::Text(t) => t.len(),
                    ValueRef::Blob(b) => b.len(),
                    _ => 0,
                })
                .sum();
            // text handed on as a `str` must be valid UTF-8 (to_owned is the conversion the code uses)
            let utf8_ok = vs.iter().all(|v| match v.to_owned() {
                SqliteValue::Text(t) => std::str::from_utf8(t.as_bytes()).is_ok(),
                _ => true,
            });
            (shown, payload, utf8_ok, vs.len())
        })
    });
    if !alloc_ok(peak, bytes.len()) {
        o.fails.push(format!("allocation: unpack_columns of {} bytes peaked at {} heap bytes", bytes.len(), peak));
    }
    match res {
        Err(p) => {
            o.out = "panic".into();
            o.fails.push(format!("unpack_columns panicked: {p}"));
        }
        Ok(Err(e)) => {
            o.out = match e {
                UnpackError::Abort => "err abort".into(),
                UnpackError::Misuse => "err misuse".into(),
            };
            o.tags.push(format!("unpack:{}", &o.out[4..]));
        }
        Ok(Ok((shown, payload, utf8_ok, n))) => {
            o.out = format!("ok {}", show_list(&shown, ","));
            o.tags.push("unpack:ok".into());
            if payload + n + 1 > bytes.len() {
                o.fails.push(format!("decoded payload {payload}+{n}+1 exceeds the input length {}", bytes.len()));
            }
            if !utf8_ok {
                o.fails.push("decoded text is not valid UTF-8".into());
            }
            o.nontrivial = n > 0;
        }
    }
    o
}

// the cr-sqlite extension as a third party ---------------------------------------------------------

/// SQLite refuses more than this many arguments to one function call (SQLITE_MAX_FUNCTION_ARG of the
/// bundled build is larger; the op is defined for up to this many columns on both sides)
const EXT_MAX_COLS: usize = 100;

thread_local! {
    static EXT_CONN: std::cell::OnceCell<Option<klukai_types::sqlite::CrConn>> = const { std::cell::OnceCell::new() };
}

fn with_ext<T>(f: impl FnOnce(&rusqlite::Connection) -> T) -> Option<T> {
    EXT_CONN.with(|c| {
        let conn = c.get_or_init(|| {
            rusqlite::Connection::open_in_memory().ok().and_then(|c| klukai_types::sqlite::CrConn::init(c).ok())
        });
        conn.as_ref().map(|c| f(c))
    })
}

fn exec_ext_pack(arg: &str) -> OpOut {
    let Some(vals) = parse_vals(arg) else { return OpOut::bad() };
    // NaN cannot be bound to SQLite (it becomes NULL); an empty argument list is not a packed key
    if vals.is_empty() || vals.len() > EXT_MAX_COLS || vals.iter().any(is_nan) {
        return OpOut::bad();
    }
    let mut o = OpOut::default();
    let sql = format!("SELECT crsql_pack_columns({})", vec!["?"; vals.len()].join(","));
    let res = with_ext(|conn| -> rusqlite::Result<(Vec<u8>, Vec<SqliteValue>)> {
        let packed: Vec<u8> = conn.query_row(&sql, rusqlite::params_from_iter(vals.iter()), |r| r.get(0))?;
        // and the extension's own unpacking of what it packed
        let mut st = conn.prepare_cached("SELECT cell FROM crsql_unpack_columns(?)")?;
        let back: Vec<SqliteValue> = st.query_map([&packed], |r| r.get::<_, SqliteValue>(0))?.collect::<Result<_, _>>()?;
        Ok((packed, back))
    });
    match res {
        None => {
            o.out = "err no-extension".into();
            o.fails.push("could not open a connection with the cr-sqlite extension".into());
        }
        Some(Err(e)) => {
            o.out = "err sqlite".into();
            o.fails.push(format!("crsql_pack_columns failed: {e}"));
        }
        Some(Ok((packed, back))) => {
            o.out = format!("ok {}", hex_of(&packed));
            o.tags.push("ext_pack:ok".into());
            o.nontrivial = true;
            match pack_columns(&vals) {
                Ok(ours) if ours == packed => {}
                Ok(ours) => o.fails.push(format!(
                    "byte-compatibility: pack_columns = {} but crsql_pack_columns = {}",
                    hex_of(&ours),
                    hex_of(&packed)
                )),
                Err(_) => o.fails.push("pack_columns refused what the extension packs".into()),
            }
            if back.len() != vals.len() || back.iter().zip(&vals).any(|(a, b)| !same_val(a, b)) {
                o.fails.push("crsql_unpack_columns(crsql_pack_columns(v)) != v".into());
            }
            // our unpack of the extension's bytes
            match unpack_columns(&packed) {
                Ok(vs) => {
                    let got: Vec<String> = vs.iter().map(|v| show_valref(&v.0)).collect();
                    let want: Vec<String> = vals.iter().map(show_val).collect();
                    if got != want {
                        o.fails.push("unpack_columns(crsql_pack_columns(v)) != v".into());
                    }
                }
                Err(e) => o.fails.push(format!("unpack_columns rejects the extension's packing: {e}")),
            }
        }
    }
    o
}

fn exec_op(op: &str) -> OpOut {
    let toks: Vec<&str> = op.split_whitespace().collect();
    match toks.as_slice() {
        ["pack", v] => exec_pack(v),
        ["unpack", h] => exec_unpack(h),
        ["ext_pack", v] => exec_ext_pack(v),
        ["probe", h] => {
            use speedy::Readable;
            let bytes = parse_hex(h).unwrap();
            let (res, peak) = measured(|| klukai_types::sync::SyncMessage::read_from_buffer(&bytes).map(|m| format!("{m:?}")));
            OpOut { out: format!("{res:?} peak={peak} sizeof_need={} sizeof_change={} sizeof_val={}", std::mem::size_of::<klukai_types::sync::SyncNeedV1>(), std::mem::size_of::<klukai_types::change::Change>(), std::mem::size_of::<SqliteValue>()), ..Default::default() }
        }
        _ => OpOut::bad(),
    }
}

fn bucket(n: usize) -> &'static str {
    match n {
        0 => "0",
        1 => "1",
        2..=4 => "2-4",
        5..=16 => "5-16",
        17..=254 => "17-254",
        255 => "255",
        _ => ">255",
    }
}

// ------------------------------------------------------------------------------------------------
// child process plumbing

const CHILD_ENV: &str = "HX_C09_CHILD";

/// in the child: run the ops here, streaming `S i` / `D i <out>` / `F i <msg>` / `T <tag>` / `N` lines
fn exec_local(ops: &[String], stream: Option<&std::path::Path>) -> CaseResult {
    let mut f = stream.and_then(|p| std::fs::OpenOptions::new().create(true).append(true).open(p).ok());
    let mut r = CaseResult::default();
    let emit = |f: &mut Option<std::fs::File>, line: String| {
        if let Some(f) = f.as_mut() {
            let _ = f.write_all(line.as_bytes());
        }
    };
    for (i, op) in ops.iter().enumerate() {
        emit(&mut f, format!("S {i}\n"));
        let o = exec_op(op);
        for m in &o.fails {
            emit(&mut f, format!("F {i} {}\n", m.replace('\n', " ")));
            r.oracle_failures.push(format!("{m} [op {i}: {}]", clip(op)));
        }
        for t in &o.tags {
            emit(&mut f, format!("T {t}\n"));
            r.tags.push(t.clone());
        }
        if o.nontrivial {
            emit(&mut f, "N\n".to_string());
            r.nontrivial = true;
        }
        emit(&mut f, format!("D {i} {}\n", o.out));
        r.outputs.push(o.out);
    }
    r
}

fn clip(op: &str) -> String {
    if op.len() > 400 { format!("{}…({} chars)", &op[..400], op.len()) } else { op.to_string() }
}

static CASE_NO: AtomicUsize = AtomicUsize::new(0);

fn exec_via_child(ops: &[String]) -> CaseResult {
    let n = CASE_NO.fetch_add(1, Ordering::Relaxed);
    let dir = std::env::temp_dir().join(format!("hx-c09-{}-{}", std::process::id(), n));
    let _ = std::fs::remove_dir_all(&dir);
    std::fs::create_dir_all(&dir).expect("temp dir");
    let exe = std::env::current_exe().expect("current_exe");
    let mut r = CaseResult::default();
    r.outputs = vec![String::new(); ops.len()];
    let mut offset = 0usize;
    let mut round = 0usize;
    while offset < ops.len() {
        round += 1;
        let rest = &ops[offset..];
        let file = dir.join(format!("case{round}.ops"));
        let stream = dir.join(format!("stream{round}"));
        std::fs::write(&file, format!("# case 0 child\n{}\n", rest.join("\n"))).expect("write ops");
        let out = dir.join(format!("out{round}"));
        let child = std::process::Command::new(&exe)
            .arg("C09")
            .arg("--replay")
            .arg(&file)
            .arg("--out")
            .arg(&out)
            .env(CHILD_ENV, &stream)
            .stdin(std::process::Stdio::null())
            .stdout(std::process::Stdio::null())
            .stderr(std::process::Stdio::null())
            .spawn();
        let status = match child {
            Ok(mut c) => {
                // a decode that does not terminate is a failure too
                let t0 = std::time::Instant::now();
                loop {
                    match c.try_wait() {
                        Ok(Some(st)) => break Some(st),
                        Ok(None) if t0.elapsed().as_secs() > 300 => {
                            let _ = c.kill();
                            let _ = c.wait();
                            break None;
                        }
                        Ok(None) => std::thread::sleep(std::time::Duration::from_millis(2)),
                        Err(_) => break None,
                    }
                }
            }
            Err(e) => {
                r.inconclusive = Some(format!("spawn:{e}"));
                break;
            }
        };
        let text = std::fs::read_to_string(&stream).unwrap_or_default();
        let mut started: Option<usize> = None;
        let mut done_upto = 0usize;
        for line in text.lines() {
            let (k, body) = line.split_at(1.min(line.len()));
            let body = body.trim_start();
            match k {
                "S" => started = body.parse().ok(),
                "D" => {
                    if let Some((i, o)) = body.split_once(' ') {
                        if let Ok(i) = i.parse::<usize>() {
                            if offset + i < ops.len() {
                                r.outputs[offset + i] = o.to_string();
                                done_upto = i + 1;
                                started = None;
                            }
                        }
                    }
                }
                "F" => {
                    if let Some((i, m)) = body.split_once(' ') {
                        let i: usize = i.parse().unwrap_or(0);
                        r.oracle_failures.push(format!("{m} [op {}: {}]", offset + i, clip(&ops[(offset + i).min(ops.len() - 1)])));
                    }
                }
                "T" => r.tags.push(body.to_string()),
                "N" => r.nontrivial = true,
                _ => {}
            }
        }
        let clean = matches!(status, Some(st) if st.success()) && done_upto == rest.len();
        if clean {
            break;
        }
        // the child died (or hung) while executing op `k`
        let k = started.unwrap_or(done_upto).min(rest.len() - 1);
        let how = match status {
            Some(st) => format!("{st}"),
            None => "no termination within 300 s (killed)".to_string(),
        };
        r.outputs[offset + k] = "abort".into();
        r.oracle_failures.push(format!(
            "abort: the process executing the real code died ({how}) [op {}: {}]",
            offset + k,
            clip(&ops[offset + k])
        ));
        r.tags.push("child-died".into());
        offset += k + 1;
    }
    let _ = std::fs::remove_dir_all(&dir);
    r
}

// ------------------------------------------------------------------------------------------------
// generators

const INT_EDGES: [i64; 30] = [
    0, 1, -1, 127, 128, 129, 255, 256, 257, 32767, 32768, 65535, 65536, 8388607, 8388608, 16777215, 16777216,
    2147483647, 2147483648, 4294967295, 4294967296, 1099511627775, 1099511627776, 281474976710655, 281474976710656,
    72057594037927935, 72057594037927936, i64::MAX, i64::MIN, -128,
];

fn gen_int(rng: &mut Rng) -> i64 {
    match rng.below(6) {
        0 | 1 => *rng.pick(&INT_EDGES),
        2 => {
            let k = rng.range(0, 63);
            let v = (1u64 << k) as i64;
            match rng.below(4) { 0 => v, 1 => v.wrapping_sub(1), 2 => v.wrapping_neg(), _ => v.wrapping_add(1) }
        }
        3 => rng.range(0, 300) as i64 - 20,
        4 => {
            // random value of a random byte width
            let k = rng.range(1, 8);
            (rng.next_u64() >> (64 - 8 * k)) as i64
        }
        _ => rng.next_u64() as i64,
    }
}

const REAL_EDGES: [u64; 12] = [
    0, 0x8000000000000000, 0x3ff0000000000000, 0xbff0000000000000, 0x7ff0000000000000, 0xfff0000000000000,
    0x7ff8000000000000, 0x7ff0000000000001, 0xfff8000000000001, 1, 0x000fffffffffffff, 0x7fefffffffffffff,
];

fn gen_real_bits(rng: &mut Rng, allow_nan: bool) -> u64 {
    loop {
        let b = match rng.below(3) {
            0 => *rng.pick(&REAL_EDGES),
            1 => (rng.range(0, 100000) as f64 / 8.0 - 1000.0).to_bits(),
            _ => rng.next_u64(),
        };
        if allow_nan || !f64::from_bits(b).is_nan() {
            return b;
        }
    }
}

/// size class: 0 = small payloads only (wide keys), 1 = normal, 2 = may be large
fn gen_len(rng: &mut Rng, class: u8) -> usize {
    if class == 0 {
        return match rng.below(24) {
            0..=3 => 0,
            4 => *rng.pick(&[127usize, 128, 255, 256]),
            _ => rng.range(1, 10) as usize,
        };
    }
    match rng.below(20) {
        0..=2 => 0,
        3..=9 => rng.range(1, 12) as usize,
        10..=12 => *rng.pick(&[127usize, 128, 129, 255, 256, 257]),
        13 | 14 => rng.range(13, 600) as usize,
        15 if class == 2 => *rng.pick(&[65535usize, 65536, 65537]),
        _ => rng.range(1, 40) as usize,
    }
}

fn gen_text(rng: &mut Rng, class: u8) -> String {
    let target = gen_len(rng, class);
    let mut s = String::new();
    let ascii_only = rng.chance(1, 2);
    while s.len() < target {
        let c = if ascii_only {
            rng.range(0x20, 0x7e) as u32
        } else {
            match rng.below(8) {
                0 => 0, // NUL is valid UTF-8
                1 => rng.range(0x80, 0x7ff) as u32,
                2 => rng.range(0x800, 0xd7ff) as u32,
                3 => rng.range(0xe000, 0xffff) as u32,
                4 => rng.range(0x10000, 0x10ffff) as u32,
                5 => *rng.pick(&[0x7fu32, 0x80, 0x7ff, 0x800, 0xffff, 0x10000, 0x10ffff, 0xfffd]),
                _ => rng.range(0x20, 0x7e) as u32,
            }
        };
        if let Some(ch) = char::from_u32(c) {
            if s.len() + ch.len_utf8() > target {
                s.push('x');
            } else {
                s.push(ch);
            }
        }
    }
    s
}

fn gen_bytes(rng: &mut Rng, n: usize) -> Vec<u8> {
    let mode = rng.below(4);
    (0..n)
        .map(|_| match mode {
            0 => 0,
            1 => 0xff,
            _ => rng.below(256) as u8,
        })
        .collect()
}

fn gen_val(rng: &mut Rng, allow_nan: bool, class: u8) -> String {
    match rng.below(10) {
        0 => "n".into(),
        1..=4 => format!("i{}", gen_int(rng)),
        5 => format!("r{:016x}", gen_real_bits(rng, allow_nan)),
        6 | 7 => format!("t{}", hex::encode(gen_text(rng, class).as_bytes())),
        _ => {
            let n = gen_len(rng, class);
            format!("b{}", hex::encode(gen_bytes(rng, n)))
        }
    }
}

fn gen_vals(rng: &mut Rng, allow_nan: bool, max_cols: usize) -> Vec<String> {
    let n = match rng.below(40) {
        0 => 0,
        1..=20 => rng.range(1, 4) as usize,
        21..=33 => rng.range(5, 16) as usize,
        34..=36 => rng.range(17, 254) as usize,
        37 | 38 => 255,
        _ => rng.range(256, 300) as usize,
    }
    .min(max_cols);
    // at most one big payload per key, and none in wide keys (line length)
    let mut class: u8 = if n > 16 { 0 } else if n <= 4 && rng.chance(1, 25) { 2 } else { 1 };
    (0..n)
        .map(|_| {
            let v = gen_val(rng, allow_nan, class);
            if v.len() > 10_000 {
                class = 1;
            }
            v
        })
        .collect()
}

/// special values hostile length fields are set to
fn special_u64(rng: &mut Rng, remaining: usize) -> u64 {
    match rng.below(12) {
        0 => 0,
        1 => 1,
        2 => remaining as u64,
        3 => remaining as u64 + 1,
        4 => (remaining as u64).saturating_sub(1),
        5 => 1 << 31,
        6 => 1 << 63,
        7 => u64::MAX,
        8 => (1 << 32) - 1,
        9 => remaining as u64 / 16,
        10 => remaining as u64 / 16 + 1,
        _ => 1 << rng.range(0, 63),
    }
}

/// generic hostile mutation of a valid frame
fn mutate(rng: &mut Rng, mut b: Vec<u8>, big_endian: bool) -> Vec<u8> {
    let rounds = if rng.chance(3, 4) { 1 } else { rng.range(2, 4) };
    for _ in 0..rounds {
        let len = b.len();
        match rng.below(10) {
            0 if len > 0 => {
                let i = rng.below(len as u64) as usize;
                b[i] ^= 1 << rng.below(8);
            }
            1 if len > 0 => {
                b.truncate(rng.below(len as u64) as usize);
            }
            2 if len > 0 => {
                // a tag / count / type byte out of range
                let i = if rng.chance(1, 2) { rng.below(len.min(4) as u64) as usize } else { rng.below(len as u64) as usize };
                b[i] = *rng.pick(&[0u8, 1, 2, 3, 4, 5, 6, 7, 0x40, 0x48, 0x4b, 0x4c, 0x7f, 0x80, 0xfe, 0xff]);
            }
            3 | 4 if len > 0 => {
                // overwrite a length field candidate: 8, 4 or 1..8 bytes at an offset (biased to the front)
                let i = if rng.chance(1, 2) { rng.below(len.min(40) as u64) as usize } else { rng.below(len as u64) as usize };
                let w = *rng.pick(&[8usize, 8, 4, 4, 2, 1]);
                let v = special_u64(rng, len.saturating_sub(i + w));
                let bytes = if big_endian { v.to_be_bytes()[8 - w..].to_vec() } else { v.to_le_bytes()[..w].to_vec() };
                for (k, x) in bytes.iter().enumerate() {
                    if i + k < b.len() {
                        b[i + k] = *x;
                    }
                }
            }
            5 => {
                let n = rng.range(1, 9) as usize;
                let extra = gen_bytes(rng, n);
                let i = rng.below(len as u64 + 1) as usize;
                b.splice(i..i, extra);
            }
            6 if len > 1 => {
                let i = rng.below(len as u64) as usize;
                let j = (i + rng.range(1, 8) as usize).min(len);
                b.drain(i..j);
            }
            7 if len > 0 => {
                let i = rng.below(len as u64) as usize;
                b[i] = rng.below(256) as u8;
            }
            _ => {
                let n = rng.range(0, 16) as usize;
                b.extend(gen_bytes(rng, n));
            }
        }
    }
    b
}

fn vals_to_real(vs: &[String]) -> Vec<SqliteValue> {
    vs.iter().filter_map(|v| parse_val(v)).collect()
}

/// a hostile packed key: mutation of a valid one, a hand-built header, or noise
fn gen_packed_hostile(rng: &mut Rng) -> Vec<u8> {
    match rng.below(10) {
        0 => {
            let n = rng.range(0, 24) as usize;
            gen_bytes(rng, n)
        }
        1 => {
            // count + one header byte of every (intlen, type) + a few bytes
            let mut b = vec![rng.range(0, 3) as u8, ((rng.below(32) as u8) << 3) | rng.below(8) as u8];
            let n = rng.range(0, 12) as usize;
            b.extend(gen_bytes(rng, n));
            b
        }
        2 => {
            // length field of a text/blob set to a special value, big-endian, k bytes
            let k = rng.range(0, 8) as usize;
            let ty = if rng.chance(1, 2) { 3u8 } else { 4 };
            let n = rng.range(0, 20) as usize;
            let payload = gen_bytes(rng, n);
            let v = special_u64(rng, payload.len());
            let mut b = vec![1u8, ((k as u8) << 3) | ty];
            b.extend_from_slice(&v.to_be_bytes()[8 - k..]);
            b.extend(payload);
            b
        }
        _ => {
            let vs = gen_vals(rng, true, 40);
            let vals = vals_to_real(&vs);
            let base = pack_columns(&vals).unwrap_or_default();
            if rng.chance(1, 8) { base } else { mutate(rng, base, true) }
        }
    }
}

impl Prop for C09 {
    fn id(&self) -> &'static str {
        "C09"
    }
    fn rule(&self) -> &'static str {
        "one case = a batch of op lines (pack / ext_pack / enc on generated values, unpack / dec on hostile bytes) run in \
         a child process; non-trivial iff at least one op round-tripped a non-empty value or decoded hostile bytes to a \
         value; distinct by hash of the op lines"
    }
    fn default_cases(&self, tier: Tier) -> usize {
        match tier {
            Tier::Quick => 300,
            Tier::Thorough => 3000,
        }
    }
    fn gen_case(&self, rng: &mut Rng, _tier: Tier, index: usize) -> Vec<String> {
        let mut ops = vec![];
        // every 8th case talks to the extension (connection set-up once per child)
        if index % 8 == 3 {
            for _ in 0..120 {
                let vs = gen_vals(rng, false, EXT_MAX_COLS);
                if vs.is_empty() {
                    continue;
                }
                ops.push(format!("ext_pack {}", show_list(&vs, ",")));
            }
            return ops;
        }
        for _ in 0..70 {
            let vs = gen_vals(rng, true, 300);
            ops.push(format!("pack {}", show_list(&vs, ",")));
        }
        for _ in 0..140 {
            ops.push(format!("unpack {}", hex_of(&gen_packed_hostile(rng))));
        }
        ops
    }
    fn exec_case(&self, ops: &[String]) -> CaseResult {
        match std::env::var_os(CHILD_ENV) {
            Some(p) => exec_local(ops, Some(std::path::Path::new(&p))),
            None => exec_via_child(ops),
        }
    }
}
