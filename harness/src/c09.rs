//! C09 — real binary codecs vs the Lean models `Corro.Pack` / `Corro.Codec`.
//!
//! Every case (a batch of op lines) is executed in a CHILD process (this executable re-executed with
//! the normal CLI `C09 --replay <file> --out <dir>` under `HX_C09_CHILD=<stream file>`), so that a
//! decode that aborts the process (allocation failure) is observed by the parent as an oracle failure
//! `abort` instead of taking the run down.  Inside the child every real decode runs under
//! `catch_unwind` and a counting global allocator.
use std::alloc::{GlobalAlloc, Layout, System};
use std::io::Write;
use std::panic::{catch_unwind, AssertUnwindSafe};
use std::sync::atomic::{AtomicUsize, Ordering};

use klukai_types::api::SqliteValue;
use klukai_types::pubsub::{pack_columns, unpack_columns, UnpackError};
use rusqlite::types::ValueRef;

use crate::rng::Rng;
use crate::runner::{CaseResult, Prop, Tier};
use crate::util::*;

pub struct C09;

// ------------------------------------------------------------------------------------------------
// counting allocator (only compiled with feature c09)

static CUR: AtomicUsize = AtomicUsize::new(0);
static PEAK: AtomicUsize = AtomicUsize::new(0);
/// a single request of this size or more is refused (null → `handle_alloc_error` → abort): the
/// largest input of this harness is well under 1 MiB and the frame limit of the protocol is 100 MiB,
/// so such a request is unrelated to the input by any measure.  This makes "the decoder tried to
/// reserve memory by a peer-supplied length" deterministic instead of depending on overcommit.
const REFUSE: usize = 1 << 30;

pub struct CountingAlloc;

#[inline]
fn track_add(n: usize) {
    let cur = CUR.fetch_add(n, Ordering::Relaxed) + n;
    PEAK.fetch_max(cur, Ordering::Relaxed);
}

unsafe impl GlobalAlloc for CountingAlloc {
    unsafe fn alloc(&self, l: Layout) -> *mut u8 {
        if l.size() >= REFUSE {
            return std::ptr::null_mut();
        }
        let p = unsafe { System.alloc(l) };
        if !p.is_null() {
            track_add(l.size());
        }
        p
    }
    unsafe fn alloc_zeroed(&self, l: Layout) -> *mut u8 {
        if l.size() >= REFUSE {
            return std::ptr::null_mut();
        }
        let p = unsafe { System.alloc_zeroed(l) };
        if !p.is_null() {
            track_add(l.size());
        }
        p
    }
    unsafe fn dealloc(&self, p: *mut u8, l: Layout) {
        unsafe { System.dealloc(p, l) };
        CUR.fetch_sub(l.size(), Ordering::Relaxed);
    }
    unsafe fn realloc(&self, p: *mut u8, l: Layout, new: usize) -> *mut u8 {
        if new >= REFUSE {
            return std::ptr::null_mut();
        }
        let q = unsafe { System.realloc(p, l, new) };
        if !q.is_null() {
            if new >= l.size() {
                track_add(new - l.size());
            } else {
                CUR.fetch_sub(l.size() - new, Ordering::Relaxed);
            }
        }
        q
    }
}

#[global_allocator]
static GLOBAL: CountingAlloc = CountingAlloc;

/// runs `f` under `catch_unwind`; returns its result (None = panicked, with the message) and the peak
/// number of heap bytes live above the level at entry
fn measured<T>(f: impl FnOnce() -> T) -> (Result<T, String>, usize) {
    let base = CUR.load(Ordering::Relaxed);
    PEAK.store(base, Ordering::Relaxed);
    let r = catch_unwind(AssertUnwindSafe(f));
    let peak = PEAK.load(Ordering::Relaxed).saturating_sub(base);
    let r = r.map_err(|e| {
        e.downcast_ref::<String>()
            .cloned()
            .or_else(|| e.downcast_ref::<&str>().map(|s| s.to_string()))
            .unwrap_or_else(|| "panic".into())
    });
    (r, peak)
}

/// allocation bound of the oracle: peak live heap of one decode ≤ ALLOC_A · input length + ALLOC_B
const ALLOC_A: usize = 64;
const ALLOC_B: usize = 16 * 1024;

fn alloc_ok(peak: usize, len: usize) -> bool {
    peak <= ALLOC_A * len + ALLOC_B
}

// ------------------------------------------------------------------------------------------------
// textual forms

fn hex_of(b: &[u8]) -> String {
    if b.is_empty() { "-".into() } else { hex::encode(b) }
}

fn parse_hex(s: &str) -> Option<Vec<u8>> {
    if s == "-" {
        return Some(vec![]);
    }
    if s.bytes().any(|c| !(c.is_ascii_digit() || (b'a'..=b'f').contains(&c))) {
        return None;
    }
    hex::decode(s).ok()
}

fn parse_hex_raw(s: &str) -> Option<Vec<u8>> {
    if s.is_empty() { Some(vec![]) } else if s == "-" { None } else { parse_hex(s) }
}

/// packed-key value: `n`, `i<dec>`, `r<16 hex>`, `t<hex utf8>`, `b<hex>`
fn parse_val(s: &str) -> Option<SqliteValue> {
    let (k, rest) = s.split_at(1.min(s.len()));
    match k {
        "n" if rest.is_empty() => Some(SqliteValue::Null),
        "i" => {
            // the Lean side uses String.toInt?: optional '-' then digits
            let digits = rest.strip_prefix('-').unwrap_or(rest);
            if digits.is_empty() || !digits.bytes().all(|c| c.is_ascii_digit()) {
                return None;
            }
            rest.parse::<i64>().ok().map(SqliteValue::Integer)
        }
        "r" if rest.len() == 16 => {
            let b = parse_hex(rest)?;
            let bits = u64::from_be_bytes(b.try_into().ok()?);
            Some(SqliteValue::Real(klukai_types::api::Real(f64::from_bits(bits))))
        }
        "t" => {
            let b = parse_hex_raw(rest)?;
            let s = String::from_utf8(b).ok()?;
            Some(SqliteValue::Text(s.into()))
        }
        "b" => Some(SqliteValue::Blob(parse_hex_raw(rest)?.into())),
        _ => None,
    }
}

fn parse_vals(s: &str) -> Option<Vec<SqliteValue>> {
    split_list(s).into_iter().map(parse_val).collect()
}

fn show_val(v: &SqliteValue) -> String {
    match v {
        SqliteValue::Null => "n".into(),
        SqliteValue::Integer(i) => format!("i{i}"),
        SqliteValue::Real(r) => format!("r{:016x}", r.0.to_bits()),
        SqliteValue::Text(t) => format!("t{}", hex::encode(t.as_bytes())),
        SqliteValue::Blob(b) => format!("b{}", hex::encode(b.as_slice())),
    }
}

fn show_valref(v: &ValueRef<'_>) -> String {
    match v {
        ValueRef::Null => "n".into(),
        ValueRef::Integer(i) => format!("i{i}"),
        ValueRef::Real(r) => format!("r{:016x}", r.to_bits()),
        ValueRef::Text(t) => format!("t{}", hex::encode(t)),
        ValueRef::Blob(b) => format!("b{}", hex::encode(b)),
    }
}

/// bit-exact equality (NaN compared by bit pattern, never by float equality)
fn same_val(a: &SqliteValue, b: &SqliteValue) -> bool {
    show_val(a) == show_val(b)
}

fn is_nan(v: &SqliteValue) -> bool {
    matches!(v, SqliteValue::Real(r) if r.0.is_nan())
}

// ------------------------------------------------------------------------------------------------
// executing ops on the real code

#[derive(Default)]
struct OpOut {
    out: String,
    fails: Vec<String>,
    tags: Vec<String>,
    nontrivial: bool,
}

impl OpOut {
    fn bad() -> Self {
        OpOut { out: "bad-op".into(), ..Default::default() }
    }
}

fn exec_pack(arg: &str) -> OpOut {
    let Some(vals) = parse_vals(arg) else { return OpOut::bad() };
    let mut o = OpOut::default();
    let (res, _peak) = measured(|| pack_columns(&vals));
    match res {
        Err(p) => {
            o.out = "panic".into();
            o.fails.push(format!("pack_columns panicked: {p}"));
        }
        Ok(Err(_)) => {
            o.out = "err abort".into();
            o.tags.push("pack:err".into());
            if vals.len() <= 255 {
                o.fails.push("pack_columns refused at most 255 columns".into());
            }
        }
        Ok(Ok(bytes)) => {
            o.out = format!("ok {}", hex_of(&bytes));
            o.tags.push(format!("pack:cols:{}", bucket(vals.len())));
            // oracle: the real unpack gives back the values, bit for bit
            let (back, _) = measured(|| unpack_columns(&bytes).map(|vs| vs.iter().map(|v| show_valref(&v.0)).collect::<Vec<String>>()));
            match back.unwrap_or_else(|p| {
                o.fails.push(format!("unpack_columns(pack_columns(v)) panicked: {p}"));
                Ok(vals.iter().map(show_val).collect())
            }) {
                Ok(back) => {
                    let want: Vec<String> = vals.iter().map(show_val).collect();
                    if back != want {
                        o.fails.push(format!(
                            "round trip: unpack_columns(pack_columns(v)) != v: got {} want {}",
                            show_list(&back, ","),
                            show_list(&want, ",")
                        ));
                    }
                    o.nontrivial = !vals.is_empty();
                }
                Err(e) => o.fails.push(format!("round trip: unpack_columns(pack_columns(v)) = err {e}")),
            }
        }
    }
    o
}

fn exec_unpack(arg: &str) -> OpOut {
    let Some(bytes) = parse_hex(arg) else { return OpOut::bad() };
    let mut o = OpOut::default();
    let (res, peak) = measured(|| {
        unpack_columns(&bytes).map(|vs| {
            let shown: Vec<String> = vs.iter().map(|v| show_valref(&v.0)).collect();
            let payload: usize = vs
                .iter()
                .map(|v| match v.0 {
                    ValueRef::Text(t) => t.len(),
                    ValueRef::Blob(b) => b.len(),
                    _ => 0,
                })
                .sum();
            // text handed on as a `str` must be valid UTF-8 (to_owned is the conversion the code uses)
            let utf8_ok = vs.iter().all(|v| match v.to_owned() {
                SqliteValue::Text(t) => std::str::from_utf8(t.as_bytes()).is_ok(),
                _ => true,
            });
            (shown, payload, utf8_ok, vs.len())
        })
    });
    if !alloc_ok(peak, bytes.len()) {
        o.fails.push(format!("allocation: unpack_columns of {} bytes peaked at {} heap bytes", bytes.len(), peak));
    }
    match res {
        Err(p) => {
            o.out = "panic".into();
            o.fails.push(format!("unpack_columns panicked: {p}"));
        }
        Ok(Err(e)) => {
            o.out = match e {
                UnpackError::Abort => "err abort".into(),
                UnpackError::Misuse => "err misuse".into(),
            };
            o.tags.push(format!("unpack:{}", &o.out[4..]));
        }
        Ok(Ok((shown, payload, utf8_ok, n))) => {
            o.out = format!("ok {}", show_list(&shown, ","));
            o.tags.push("unpack:ok".into());
            if payload + n + 1 > bytes.len() {
                o.fails.push(format!("decoded payload {payload}+{n}+1 exceeds the input length {}", bytes.len()));
            }
            if !utf8_ok {
                o.fails.push("decoded text is not valid UTF-8".into());
            }
            o.nontrivial = n > 0;
        }
    }
    o
}

// the cr-sqlite extension as a third party ---------------------------------------------------------

/// SQLite refuses more than this many arguments to one function call (SQLITE_MAX_FUNCTION_ARG of the
/// bundled build is larger; the op is defined for up to this many columns on both sides)
const EXT_MAX_COLS: usize = 100;

thread_local! {
    static EXT_CONN: std::cell::OnceCell<Option<klukai_types::sqlite::CrConn>> = const { std::cell::OnceCell::new() };
}

fn with_ext<T>(f: impl FnOnce(&rusqlite::Connection) -> T) -> Option<T> {
    EXT_CONN.with(|c| {
        let conn = c.get_or_init(|| {
            rusqlite::Connection::open_in_memory().ok().and_then(|c| klukai_types::sqlite::CrConn::init(c).ok())
        });
        conn.as_ref().map(|c| f(c))
    })
}

fn exec_ext_pack(arg: &str) -> OpOut {
    let Some(vals) = parse_vals(arg) else { return OpOut::bad() };
    // NaN cannot be bound to SQLite (it becomes NULL); an empty argument list is not a packed key
    if vals.is_empty() || vals.len() > EXT_MAX_COLS || vals.iter().any(is_nan) {
        return OpOut::bad();
    }
    let mut o = OpOut::default();
    let sql = format!("SELECT crsql_pack_columns({})", vec!["?"; vals.len()].join(","));
    let res = with_ext(|conn| -> rusqlite::Result<(Vec<u8>, Vec<SqliteValue>)> {
        let packed: Vec<u8> = conn.query_row(&sql, rusqlite::params_from_iter(vals.iter()), |r| r.get(0))?;
        // and the extension's own unpacking of what it packed
        let mut st = conn.prepare_cached("SELECT cell FROM crsql_unpack_columns(?)")?;
        let back: Vec<SqliteValue> = st.query_map([&packed], |r| r.get::<_, SqliteValue>(0))?.collect::<Result<_, _>>()?;
        Ok((packed, back))
    });
    match res {
        None => {
            o.out = "err no-extension".into();
            o.fails.push("could not open a connection with the cr-sqlite extension".into());
        }
        Some(Err(e)) => {
            o.out = "err sqlite".into();
            o.fails.push(format!("crsql_pack_columns failed: {e}"));
        }
        Some(Ok((packed, back))) => {
            o.out = format!("ok {}", hex_of(&packed));
            o.tags.push("ext_pack:ok".into());
            o.nontrivial = true;
            match pack_columns(&vals) {
                Ok(ours) if ours == packed => {}
                Ok(ours) => o.fails.push(format!(
                    "byte-compatibility: pack_columns = {} but crsql_pack_columns = {}",
                    hex_of(&ours),
                    hex_of(&packed)
                )),
                Err(_) => o.fails.push("pack_columns refused what the extension packs".into()),
            }
            if back.len() != vals.len() || back.iter().zip(&vals).any(|(a, b)| !same_val(a, b)) {
                o.fails.push("crsql_unpack_columns(crsql_pack_columns(v)) != v".into());
            }
            // our unpack of the extension's bytes
            let (ours, _) = measured(|| unpack_columns(&packed).map(|vs| vs.iter().map(|v| show_valref(&v.0)).collect::<Vec<String>>()));
            match ours.unwrap_or_else(|p| {
                o.fails.push(format!("unpack_columns of the extension's packing panicked: {p}"));
                Ok(vals.iter().map(show_val).collect())
            }) {
                Ok(got) => {
                    let want: Vec<String> = vals.iter().map(show_val).collect();
                    if got != want {
                        o.fails.push("unpack_columns(crsql_pack_columns(v)) != v".into());
                    }
                }
                Err(e) => o.fails.push(format!("unpack_columns rejects the extension's packing: {e}")),
            }
        }
    }
    o
}

fn exec_op(op: &str) -> OpOut {
    let toks: Vec<&str> = op.split_whitespace().collect();
    match toks.as_slice() {
        ["pack", v] => exec_pack(v),
        ["unpack", h] => exec_unpack(h),
        ["ext_pack", v] => exec_ext_pack(v),
        [op @ ("enc" | "dec" | "rt"), ty, arg] => exec_wire(op, ty, arg),
        ["minbytes"] => exec_minbytes(),
        ["utf8", h] => match parse_hex(h) {
            // ties the model's executable UTF-8 check to `str::from_utf8`
            Some(b) => {
                let ok = std::str::from_utf8(&b).is_ok();
                OpOut { out: format!("ok {ok}"), tags: vec![format!("utf8:{ok}")], nontrivial: !b.is_empty(), ..Default::default() }
            }
            None => OpOut::bad(),
        },
        _ => OpOut::bad(),
    }
}

// ------------------------------------------------------------------------------------------------
// wire values: terms `atom` | `name(term,…)`

#[derive(Debug, Clone)]
struct Tree {
    tag: String,
    kids: Vec<Tree>,
}

fn is_atom_char(c: u8) -> bool {
    c.is_ascii_lowercase() || c.is_ascii_digit() || c == b'-'
}

fn p_tree(s: &[u8], mut i: usize) -> Option<(Tree, usize)> {
    let start = i;
    while i < s.len() && is_atom_char(s[i]) {
        i += 1;
    }
    if i == start {
        return None;
    }
    let tag = String::from_utf8(s[start..i].to_vec()).ok()?;
    let mut kids = vec![];
    if i < s.len() && s[i] == b'(' {
        i += 1;
        if i < s.len() && s[i] == b')' {
            return Some((Tree { tag, kids }, i + 1));
        }
        loop {
            let (t, j) = p_tree(s, i)?;
            kids.push(t);
            i = j;
            match s.get(i) {
                Some(b',') => i += 1,
                Some(b')') => {
                    i += 1;
                    break;
                }
                _ => return None,
            }
        }
    }
    Some((Tree { tag, kids }, i))
}

fn parse_tree(s: &str) -> Option<Tree> {
    let (t, i) = p_tree(s.as_bytes(), 0)?;
    if i == s.len() { Some(t) } else { None }
}

fn atom(t: &Tree) -> Option<&str> {
    if t.kids.is_empty() { Some(&t.tag) } else { None }
}

fn t_nat(t: &Tree) -> Option<u64> {
    let a = atom(t)?;
    if a.is_empty() || !a.bytes().all(|c| c.is_ascii_digit()) {
        return None;
    }
    a.parse().ok()
}

fn t_i64(t: &Tree) -> Option<i64> {
    let a = atom(t)?;
    let d = a.strip_prefix('-').unwrap_or(a);
    if d.is_empty() || !d.bytes().all(|c| c.is_ascii_digit()) {
        return None;
    }
    a.parse().ok()
}

fn t_hex16(t: &Tree) -> Option<[u8; 16]> {
    parse_hex_raw(atom(t)?)?.try_into().ok()
}

fn t_range(t: &Tree) -> Option<(u64, u64)> {
    let a = atom(t)?;
    let (x, y) = a.split_once('-')?;
    if x.is_empty() || y.is_empty() || !x.bytes().all(|c| c.is_ascii_digit()) || !y.bytes().all(|c| c.is_ascii_digit()) {
        return None;
    }
    Some((x.parse().ok()?, y.parse().ok()?))
}

fn t_opt<T>(t: &Tree, f: impl Fn(&Tree) -> Option<T>) -> Option<Option<T>> {
    match (t.tag.as_str(), t.kids.as_slice()) {
        ("none", []) => Some(None),
        ("some", [x]) => f(x).map(Some),
        _ => None,
    }
}

fn t_list<T>(t: &Tree, f: impl Fn(&Tree) -> Option<T>) -> Option<Vec<T>> {
    if t.tag != "l" {
        return None;
    }
    t.kids.iter().map(f).collect()
}

fn t_map<K, V>(t: &Tree, fk: impl Fn(&Tree) -> Option<K>, fv: impl Fn(&Tree) -> Option<V>) -> Option<Vec<(K, V)>> {
    if t.tag != "m" {
        return None;
    }
    t.kids
        .iter()
        .map(|kv| match (kv.tag.as_str(), kv.kids.as_slice()) {
            ("kv", [k, v]) => Some((fk(k)?, fv(v)?)),
            _ => None,
        })
        .collect()
}

fn t_text(t: &Tree) -> Option<String> {
    let a = atom(t)?;
    String::from_utf8(parse_hex_raw(a.strip_prefix('t')?)?).ok()
}

fn t_bytes(t: &Tree) -> Option<Vec<u8>> {
    parse_hex_raw(atom(t)?.strip_prefix('b')?)
}

use klukai_types::actor::{ActorId, ClusterId};
use klukai_types::api::{ColumnName, TableName};
use klukai_types::base::{CrsqlDbVersion, CrsqlSeq};
use klukai_types::broadcast::{BiPayload, BiPayloadV1, BroadcastV1, ChangeV1, Changeset, Timestamp, UniPayload, UniPayloadV1};
use klukai_types::change::Change;
use klukai_types::sync::{SyncMessage, SyncMessageV1, SyncNeedV1, SyncRejectionV1, SyncStateV1, SyncTraceContextV1};
use speedy::{Readable, Writable};
use std::collections::HashMap;

fn s_node(tag: &str, xs: &[String]) -> String {
    format!("{tag}({})", xs.join(","))
}
fn s_opt<T>(o: &Option<T>, f: impl Fn(&T) -> String) -> String {
    match o {
        None => "none".into(),
        Some(x) => s_node("some", &[f(x)]),
    }
}
fn s_list<T>(xs: &[T], f: impl Fn(&T) -> String) -> String {
    s_node("l", &xs.iter().map(f).collect::<Vec<_>>())
}
fn s_dbv_range(r: &std::ops::RangeInclusive<CrsqlDbVersion>) -> String {
    format!("{}-{}", r.start().0, r.end().0)
}
fn s_seq_range(r: &std::ops::RangeInclusive<CrsqlSeq>) -> String {
    format!("{}-{}", r.start().0, r.end().0)
}
fn s_actor(a: &ActorId) -> String {
    hex::encode(a.0.as_bytes())
}
fn s_ts(t: &Timestamp) -> String {
    t.0.0.to_string()
}
/// maps sorted by key (keys are unique in a HashMap)
fn s_map<K: Ord + Clone + std::hash::Hash, V>(m: &HashMap<K, V>, fk: impl Fn(&K) -> String, fv: impl Fn(&V) -> String) -> String {
    let mut ks: Vec<&K> = m.keys().collect();
    ks.sort();
    s_node("m", &ks.iter().map(|k| s_node("kv", &[fk(k), fv(&m[*k])])).collect::<Vec<_>>())
}

fn mk_actor(b: [u8; 16]) -> ActorId {
    ActorId(uuid::Uuid::from_bytes(b))
}
fn dbv_range(r: (u64, u64)) -> std::ops::RangeInclusive<CrsqlDbVersion> {
    CrsqlDbVersion(r.0)..=CrsqlDbVersion(r.1)
}
fn seq_range(r: (u64, u64)) -> std::ops::RangeInclusive<CrsqlSeq> {
    CrsqlSeq(r.0)..=CrsqlSeq(r.1)
}

/// one wire type: term ↔ real value ↔ bytes
trait Wire: Sized {
    fn from_tree(t: &Tree) -> Option<Self>;
    fn show(&self) -> String;
    /// encoding does not depend on HashMap iteration order
    fn det(&self) -> bool {
        true
    }
    fn encode(&self) -> Result<Vec<u8>, String>;
    fn decode(b: &[u8]) -> (Result<Self, String>, usize);
    /// every text inside is valid UTF-8 (checked on the bytes, not trusted from the type)
    fn texts_valid(&self) -> bool {
        true
    }
    fn min_bytes() -> usize;
}

macro_rules! speedy_codec {
    () => {
        fn encode(&self) -> Result<Vec<u8>, String> {
            self.write_to_vec().map_err(|e| e.to_string())
        }
        fn decode(b: &[u8]) -> (Result<Self, String>, usize) {
            let (r, n) = Self::read_with_length_from_buffer(b);
            (r.map_err(|e| e.to_string()), n)
        }
        fn min_bytes() -> usize {
            <Self as Readable<speedy::LittleEndian>>::minimum_bytes_needed()
        }
    };
}

fn utf8_ok(s: &str) -> bool {
    std::str::from_utf8(s.as_bytes()).is_ok()
}

impl Wire for SqliteValue {
    fn from_tree(t: &Tree) -> Option<Self> {
        parse_val(atom(t)?)
    }
    fn show(&self) -> String {
        show_val(self)
    }
    fn texts_valid(&self) -> bool {
        match self {
            SqliteValue::Text(t) => utf8_ok(t),
            _ => true,
        }
    }
    speedy_codec!();
}

impl Wire for Timestamp {
    fn from_tree(t: &Tree) -> Option<Self> {
        t_nat(t).map(Timestamp::from)
    }
    fn show(&self) -> String {
        s_ts(self)
    }
    speedy_codec!();
}

impl Wire for CrsqlDbVersion {
    fn from_tree(t: &Tree) -> Option<Self> {
        t_nat(t).map(CrsqlDbVersion)
    }
    fn show(&self) -> String {
        self.0.to_string()
    }
    speedy_codec!();
}

impl Wire for CrsqlSeq {
    fn from_tree(t: &Tree) -> Option<Self> {
        t_nat(t).map(CrsqlSeq)
    }
    fn show(&self) -> String {
        self.0.to_string()
    }
    speedy_codec!();
}

impl Wire for ClusterId {
    fn from_tree(t: &Tree) -> Option<Self> {
        t_nat(t).and_then(|n| u16::try_from(n).ok()).map(ClusterId)
    }
    fn show(&self) -> String {
        self.0.to_string()
    }
    speedy_codec!();
}

impl Wire for ActorId {
    fn from_tree(t: &Tree) -> Option<Self> {
        t_hex16(t).map(mk_actor)
    }
    fn show(&self) -> String {
        s_actor(self)
    }
    speedy_codec!();
}

impl Wire for Change {
    fn from_tree(t: &Tree) -> Option<Self> {
        match (t.tag.as_str(), t.kids.as_slice()) {
            ("c", [table, pk, cid, val, cv, dbv, seq, site, cl]) => Some(Change {
                table: TableName(t_text(table)?.into()),
                pk: t_bytes(pk)?,
                cid: ColumnName(t_text(cid)?.into()),
                val: SqliteValue::from_tree(val)?,
                col_version: t_i64(cv)?,
                db_version: CrsqlDbVersion(t_nat(dbv)?),
                seq: CrsqlSeq(t_nat(seq)?),
                site_id: t_hex16(site)?,
                cl: t_i64(cl)?,
            }),
            _ => None,
        }
    }
    fn show(&self) -> String {
        s_node(
            "c",
            &[
                format!("t{}", hex::encode(self.table.0.as_bytes())),
                format!("b{}", hex::encode(&self.pk)),
                format!("t{}", hex::encode(self.cid.0.as_bytes())),
                show_val(&self.val),
                self.col_version.to_string(),
                self.db_version.0.to_string(),
                self.seq.0.to_string(),
                hex::encode(self.site_id),
                self.cl.to_string(),
            ],
        )
    }
    fn texts_valid(&self) -> bool {
        utf8_ok(&self.table.0) && utf8_ok(&self.cid.0) && self.val.texts_valid()
    }
    speedy_codec!();
}

impl Wire for Changeset {
    fn from_tree(t: &Tree) -> Option<Self> {
        match (t.tag.as_str(), t.kids.as_slice()) {
            ("empty", [r, ts]) => Some(Changeset::Empty { versions: dbv_range(t_range(r)?), ts: t_opt(ts, Timestamp::from_tree)? }),
            ("full", [v, cs, r, last, ts]) => Some(Changeset::Full {
                version: CrsqlDbVersion(t_nat(v)?),
                changes: t_list(cs, Change::from_tree)?,
                seqs: seq_range(t_range(r)?),
                last_seq: CrsqlSeq(t_nat(last)?),
                ts: Timestamp::from_tree(ts)?,
            }),
            ("emptyset", [rs, ts]) => {
                Some(Changeset::EmptySet { versions: t_list(rs, |r| t_range(r).map(dbv_range))?, ts: Timestamp::from_tree(ts)? })
            }
            _ => None,
        }
    }
    fn show(&self) -> String {
        match self {
            Changeset::Empty { versions, ts } => s_node("empty", &[s_dbv_range(versions), s_opt(ts, s_ts)]),
            Changeset::Full { version, changes, seqs, last_seq, ts } => s_node(
                "full",
                &[version.0.to_string(), s_list(changes, |c| c.show()), s_seq_range(seqs), last_seq.0.to_string(), s_ts(ts)],
            ),
            Changeset::EmptySet { versions, ts } => s_node("emptyset", &[s_list(versions, s_dbv_range), s_ts(ts)]),
        }
    }
    fn texts_valid(&self) -> bool {
        self.changes().iter().all(|c| c.texts_valid())
    }
    speedy_codec!();
}

impl Wire for ChangeV1 {
    fn from_tree(t: &Tree) -> Option<Self> {
        match (t.tag.as_str(), t.kids.as_slice()) {
            ("cv", [a, c]) => Some(ChangeV1 { actor_id: ActorId::from_tree(a)?, changeset: Changeset::from_tree(c)? }),
            _ => None,
        }
    }
    fn show(&self) -> String {
        s_node("cv", &[s_actor(&self.actor_id), self.changeset.show()])
    }
    fn texts_valid(&self) -> bool {
        self.changeset.texts_valid()
    }
    speedy_codec!();
}

impl Wire for SyncNeedV1 {
    fn from_tree(t: &Tree) -> Option<Self> {
        match (t.tag.as_str(), t.kids.as_slice()) {
            ("full", [r]) => Some(SyncNeedV1::Full { versions: dbv_range(t_range(r)?) }),
            ("partial", [v, rs]) => {
                Some(SyncNeedV1::Partial { version: CrsqlDbVersion(t_nat(v)?), seqs: t_list(rs, |r| t_range(r).map(seq_range))? })
            }
            ("empty", [ts]) => Some(SyncNeedV1::Empty { ts: t_opt(ts, Timestamp::from_tree)? }),
            _ => None,
        }
    }
    fn show(&self) -> String {
        match self {
            SyncNeedV1::Full { versions } => s_node("full", &[s_dbv_range(versions)]),
            SyncNeedV1::Partial { version, seqs } => s_node("partial", &[version.0.to_string(), s_list(seqs, s_seq_range)]),
            SyncNeedV1::Empty { ts } => s_node("empty", &[s_opt(ts, s_ts)]),
        }
    }
    speedy_codec!();
}

impl Wire for SyncStateV1 {
    fn from_tree(t: &Tree) -> Option<Self> {
        match (t.tag.as_str(), t.kids.as_slice()) {
            ("state", [a, heads, need, pn, ts]) => Some(SyncStateV1 {
                actor_id: ActorId::from_tree(a)?,
                // later duplicates replace earlier ones, as HashMap::insert does
                heads: t_map(heads, ActorId::from_tree, CrsqlDbVersion::from_tree)?.into_iter().collect(),
                need: t_map(need, ActorId::from_tree, |v| t_list(v, |r| t_range(r).map(dbv_range)))?.into_iter().collect(),
                partial_need: t_map(pn, ActorId::from_tree, |m| {
                    t_map(m, CrsqlDbVersion::from_tree, |v| t_list(v, |r| t_range(r).map(seq_range)))
                        .map(|kv| kv.into_iter().collect::<HashMap<_, _>>())
                })?
                .into_iter()
                .collect(),
                last_cleared_ts: t_opt(ts, Timestamp::from_tree)?,
            }),
            _ => None,
        }
    }
    fn show(&self) -> String {
        s_node(
            "state",
            &[
                s_actor(&self.actor_id),
                s_map(&self.heads, s_actor, |v| v.0.to_string()),
                s_map(&self.need, s_actor, |v| s_list(v, s_dbv_range)),
                s_map(&self.partial_need, s_actor, |m| s_map(m, |k| k.0.to_string(), |v| s_list(v, s_seq_range))),
                s_opt(&self.last_cleared_ts, s_ts),
            ],
        )
    }
    fn det(&self) -> bool {
        self.heads.len() <= 1 && self.need.len() <= 1 && self.partial_need.len() <= 1 && self.partial_need.values().all(|m| m.len() <= 1)
    }
    speedy_codec!();
}

impl Wire for UniPayload {
    fn from_tree(t: &Tree) -> Option<Self> {
        match (t.tag.as_str(), t.kids.as_slice()) {
            ("uni", [c, cl]) => Some(UniPayload::V1 {
                data: UniPayloadV1::Broadcast(BroadcastV1::Change(ChangeV1::from_tree(c)?)),
                cluster_id: ClusterId::from_tree(cl)?,
            }),
            _ => None,
        }
    }
    fn show(&self) -> String {
        let UniPayload::V1 { data: UniPayloadV1::Broadcast(BroadcastV1::Change(c)), cluster_id } = self;
        s_node("uni", &[c.show(), cluster_id.0.to_string()])
    }
    fn texts_valid(&self) -> bool {
        let UniPayload::V1 { data: UniPayloadV1::Broadcast(BroadcastV1::Change(c)), .. } = self;
        c.texts_valid()
    }
    speedy_codec!();
}

fn s_text(s: &String) -> String {
    format!("t{}", hex::encode(s.as_bytes()))
}

impl Wire for BiPayload {
    fn from_tree(t: &Tree) -> Option<Self> {
        match (t.tag.as_str(), t.kids.as_slice()) {
            ("bi", [a, tr, cl]) => {
                let trace_ctx = match (tr.tag.as_str(), tr.kids.as_slice()) {
                    ("trace", [p, s]) => SyncTraceContextV1 { traceparent: t_opt(p, t_text)?, tracestate: t_opt(s, t_text)? },
                    _ => return None,
                };
                Some(BiPayload::V1 {
                    data: BiPayloadV1::SyncStart { actor_id: ActorId::from_tree(a)?, trace_ctx },
                    cluster_id: ClusterId::from_tree(cl)?,
                })
            }
            _ => None,
        }
    }
    fn show(&self) -> String {
        let BiPayload::V1 { data: BiPayloadV1::SyncStart { actor_id, trace_ctx }, cluster_id } = self;
        s_node(
            "bi",
            &[
                s_actor(actor_id),
                s_node("trace", &[s_opt(&trace_ctx.traceparent, s_text), s_opt(&trace_ctx.tracestate, s_text)]),
                cluster_id.0.to_string(),
            ],
        )
    }
    fn texts_valid(&self) -> bool {
        let BiPayload::V1 { data: BiPayloadV1::SyncStart { trace_ctx, .. }, .. } = self;
        trace_ctx.traceparent.as_deref().map(utf8_ok).unwrap_or(true) && trace_ctx.tracestate.as_deref().map(utf8_ok).unwrap_or(true)
    }
    speedy_codec!();
}

impl Wire for SyncMessage {
    fn from_tree(t: &Tree) -> Option<Self> {
        let m = match (t.tag.as_str(), t.kids.as_slice()) {
            ("mstate", [s]) => SyncMessageV1::State(SyncStateV1::from_tree(s)?),
            ("mchangeset", [c]) => SyncMessageV1::Changeset(ChangeV1::from_tree(c)?),
            ("mclock", [ts]) => SyncMessageV1::Clock(Timestamp::from_tree(ts)?),
            ("mreject", [r]) => SyncMessageV1::Rejection(match t_nat(r)? {
                0 => SyncRejectionV1::MaxConcurrencyReached,
                1 => SyncRejectionV1::DifferentCluster,
                _ => return None,
            }),
            ("mrequest", [es]) => SyncMessageV1::Request(t_list(es, |kv| match (kv.tag.as_str(), kv.kids.as_slice()) {
                ("kv", [a, ns]) => Some((ActorId::from_tree(a)?, t_list(ns, SyncNeedV1::from_tree)?)),
                _ => None,
            })?),
            _ => return None,
        };
        Some(SyncMessage::V1(m))
    }
    fn show(&self) -> String {
        let SyncMessage::V1(m) = self;
        match m {
            SyncMessageV1::State(s) => s_node("mstate", &[s.show()]),
            SyncMessageV1::Changeset(c) => s_node("mchangeset", &[c.show()]),
            SyncMessageV1::Clock(ts) => s_node("mclock", &[s_ts(ts)]),
            SyncMessageV1::Rejection(r) => s_node(
                "mreject",
                &[match r {
                    SyncRejectionV1::MaxConcurrencyReached => "0".to_string(),
                    SyncRejectionV1::DifferentCluster => "1".to_string(),
                }],
            ),
            SyncMessageV1::Request(es) => {
                s_node("mrequest", &[s_list(es, |(a, ns)| s_node("kv", &[s_actor(a), s_list(ns, |n| n.show())]))])
            }
        }
    }
    fn det(&self) -> bool {
        match self {
            SyncMessage::V1(SyncMessageV1::State(s)) => s.det(),
            _ => true,
        }
    }
    fn texts_valid(&self) -> bool {
        match self {
            SyncMessage::V1(SyncMessageV1::Changeset(c)) => c.texts_valid(),
            _ => true,
        }
    }
    speedy_codec!();
}

fn wire_enc<T: Wire>(arg: &str, rt: bool) -> OpOut {
    let Some(v) = parse_tree(arg).and_then(|t| T::from_tree(&t)) else { return OpOut::bad() };
    if !rt && !v.det() {
        return OpOut::bad();
    }
    let mut o = OpOut::default();
    let want = v.show();
    let (res, _) = measured(|| v.encode());
    let bytes = match res {
        Err(p) => {
            o.out = "panic".into();
            o.fails.push(format!("encode panicked: {p}"));
            return o;
        }
        Ok(Err(e)) => {
            o.out = "err".into();
            o.fails.push(format!("encode of a well-formed value failed: {e}"));
            return o;
        }
        Ok(Ok(b)) => b,
    };
    // oracle: the real decoder gives the value back, consuming exactly the encoding
    let (back, peak) = measured(|| {
        let (r, n) = T::decode(&bytes);
        (r.map(|x| (x.show(), x.texts_valid())), n)
    });
    if !alloc_ok(peak, bytes.len()) {
        o.fails.push(format!("allocation: decoding {} bytes peaked at {} heap bytes", bytes.len(), peak));
    }
    match back {
        Err(p) => o.fails.push(format!("decode of an encoded value panicked: {p}")),
        Ok((Err(e), _)) => o.fails.push(format!("round trip: decode(encode(v)) = err {e}")),
        Ok((Ok((got, utf8)), n)) => {
            if got != want {
                o.fails.push(format!("round trip: decode(encode(v)) != v: got {} want {}", clip(&got), clip(&want)));
            }
            if n != bytes.len() {
                o.fails.push(format!("round trip: decode consumed {n} of {} bytes", bytes.len()));
            }
            if !utf8 {
                o.fails.push("decoded text is not valid UTF-8".into());
            }
            o.nontrivial = true;
            o.out = if rt { format!("ok {got}") } else { format!("ok {}", hex_of(&bytes)) };
            return o;
        }
    }
    o.out = "err".into();
    o
}

fn wire_dec<T: Wire>(arg: &str) -> OpOut {
    let Some(bytes) = parse_hex(arg) else { return OpOut::bad() };
    let mut o = OpOut::default();
    let (res, peak) = measured(|| {
        let (r, n) = T::decode(&bytes);
        (
            r.map(|x| {
                // a decoded value must survive its own round trip
                let again = x.encode().ok().map(|b| T::decode(&b).0.map(|y| y.show()).ok());
                (x.show(), x.texts_valid(), again)
            }),
            n,
        )
    });
    if !alloc_ok(peak, bytes.len()) {
        o.fails.push(format!("allocation: decoding {} bytes peaked at {} heap bytes", bytes.len(), peak));
    }
    o.tags.push(format!("alloc-ratio:{}", ratio_bucket(peak, bytes.len())));
    match res {
        Err(p) => {
            o.out = "panic".into();
            o.fails.push(format!("decode panicked: {p}"));
        }
        Ok((Err(_), _)) => {
            o.out = "err".into();
        }
        Ok((Ok((shown, utf8, again)), n)) => {
            if !utf8 {
                o.fails.push("decoded text is not valid UTF-8".into());
            }
            if n > bytes.len() {
                o.fails.push(format!("decode claims to have consumed {n} of {} bytes", bytes.len()));
            }
            match again {
                Some(Some(s2)) if s2 == shown => {}
                Some(Some(s2)) => o.fails.push(format!("a decoded value does not survive re-encoding: {} vs {}", clip(&shown), clip(&s2))),
                _ => o.fails.push("a decoded value cannot be re-encoded and decoded".into()),
            }
            o.out = format!("ok {shown} {n}");
            o.nontrivial = true;
        }
    }
    o
}

fn ratio_bucket(peak: usize, len: usize) -> &'static str {
    let r = peak / len.max(1);
    match r {
        0 => "<1",
        1..=3 => "1-3",
        4..=15 => "4-15",
        16..=31 => "16-31",
        32..=63 => "32-63",
        _ => ">=64",
    }
}

macro_rules! by_type {
    ($ty:expr, $f:ident $(, $a:expr)*) => {
        match $ty {
            "value" => $f::<SqliteValue>($($a),*),
            "ts" => $f::<Timestamp>($($a),*),
            "dbv" => $f::<CrsqlDbVersion>($($a),*),
            "seq" => $f::<CrsqlSeq>($($a),*),
            "cluster" => $f::<ClusterId>($($a),*),
            "actor" => $f::<ActorId>($($a),*),
            "change" => $f::<Change>($($a),*),
            "changeset" => $f::<Changeset>($($a),*),
            "changev1" => $f::<ChangeV1>($($a),*),
            "need" => $f::<SyncNeedV1>($($a),*),
            "state" => $f::<SyncStateV1>($($a),*),
            "uni" => $f::<UniPayload>($($a),*),
            "bi" => $f::<BiPayload>($($a),*),
            "msg" => $f::<SyncMessage>($($a),*),
            _ => return OpOut::bad(),
        }
    };
}

fn exec_wire(op: &str, ty: &str, arg: &str) -> OpOut {
    let mut o = match op {
        "enc" => by_type!(ty, wire_enc, arg, false),
        "rt" => by_type!(ty, wire_enc, arg, true),
        _ => by_type!(ty, wire_dec, arg),
    };
    let class = if o.out.starts_with("ok") { "ok" } else if o.out == "err" { "err" } else { "other" };
    o.tags.push(format!("{op}:{ty}:{class}"));
    o
}

fn exec_minbytes() -> OpOut {
    OpOut {
        out: format!(
            "ok change={},need={},reqentry={}",
            Change::min_bytes(),
            SyncNeedV1::min_bytes(),
            <(ActorId, Vec<SyncNeedV1>) as Readable<speedy::LittleEndian>>::minimum_bytes_needed()
        ),
        ..Default::default()
    }
}

/// real encoding of a term (generators build hostile frames from valid ones)
fn encode_term(ty: &str, term: &str) -> Vec<u8> {
    fn go<T: Wire>(term: &str) -> OpOut {
        let b = parse_tree(term).and_then(|t| T::from_tree(&t)).and_then(|v| v.encode().ok()).unwrap_or_default();
        OpOut { out: hex::encode(b), ..Default::default() }
    }
    fn inner(ty: &str, term: &str) -> OpOut {
        by_type!(ty, go, term)
    }
    hex::decode(inner(ty, term).out).unwrap_or_default()
}

fn bucket(n: usize) -> &'static str {
    match n {
        0 => "0",
        1 => "1",
        2..=4 => "2-4",
        5..=16 => "5-16",
        17..=254 => "17-254",
        255 => "255",
        _ => ">255",
    }
}

// ------------------------------------------------------------------------------------------------
// child process plumbing

const CHILD_ENV: &str = "HX_C09_CHILD";

/// in the child: run the ops here, streaming `S i` / `D i <out>` / `F i <msg>` / `T <tag>` / `N` lines
fn exec_local(ops: &[String], stream: Option<&std::path::Path>) -> CaseResult {
    let mut f = stream.and_then(|p| std::fs::OpenOptions::new().create(true).append(true).open(p).ok());
    let mut r = CaseResult::default();
    let emit = |f: &mut Option<std::fs::File>, line: String| {
        if let Some(f) = f.as_mut() {
            let _ = f.write_all(line.as_bytes());
        }
    };
    for (i, op) in ops.iter().enumerate() {
        emit(&mut f, format!("S {i}\n"));
        let o = exec_op(op);
        for m in &o.fails {
            emit(&mut f, format!("F {i} {}\n", m.replace('\n', " ")));
            r.oracle_failures.push(format!("{m} [op {i}: {}]", clip(op)));
        }
        for t in &o.tags {
            emit(&mut f, format!("T {t}\n"));
            r.tags.push(t.clone());
        }
        if o.nontrivial {
            emit(&mut f, "N\n".to_string());
            r.nontrivial = true;
        }
        emit(&mut f, format!("D {i} {}\n", o.out));
        r.outputs.push(o.out);
    }
    r
}

fn clip(op: &str) -> String {
    if op.len() > 400 { format!("{}…({} chars)", &op[..400], op.len()) } else { op.to_string() }
}

static CASE_NO: AtomicUsize = AtomicUsize::new(0);

fn exec_via_child(ops: &[String]) -> CaseResult {
    let n = CASE_NO.fetch_add(1, Ordering::Relaxed);
    let dir = std::env::temp_dir().join(format!("hx-c09-{}-{}", std::process::id(), n));
    let _ = std::fs::remove_dir_all(&dir);
    std::fs::create_dir_all(&dir).expect("temp dir");
    let exe = std::env::current_exe().expect("current_exe");
    let mut r = CaseResult::default();
    r.outputs = vec![String::new(); ops.len()];
    let mut offset = 0usize;
    let mut round = 0usize;
    while offset < ops.len() {
        round += 1;
        let rest = &ops[offset..];
        let file = dir.join(format!("case{round}.ops"));
        let stream = dir.join(format!("stream{round}"));
        std::fs::write(&file, format!("# case 0 child\n{}\n", rest.join("\n"))).expect("write ops");
        let out = dir.join(format!("out{round}"));
        let child = std::process::Command::new(&exe)
            .arg("C09")
            .arg("--replay")
            .arg(&file)
            .arg("--out")
            .arg(&out)
            .env(CHILD_ENV, &stream)
            .stdin(std::process::Stdio::null())
            .stdout(std::process::Stdio::null())
            .stderr(std::process::Stdio::null())
            .spawn();
        let status = match child {
            Ok(mut c) => {
                // a decode that does not terminate is a failure too
                let t0 = std::time::Instant::now();
                loop {
                    match c.try_wait() {
                        Ok(Some(st)) => break Some(st),
                        Ok(None) if t0.elapsed().as_secs() > 300 => {
                            let _ = c.kill();
                            let _ = c.wait();
                            break None;
                        }
                        Ok(None) => std::thread::sleep(std::time::Duration::from_millis(2)),
                        Err(_) => break None,
                    }
                }
            }
            Err(e) => {
                r.inconclusive = Some(format!("spawn:{e}"));
                break;
            }
        };
        let text = std::fs::read_to_string(&stream).unwrap_or_default();
        let mut started: Option<usize> = None;
        let mut done_upto = 0usize;
        for line in text.lines() {
            let (k, body) = line.split_at(1.min(line.len()));
            let body = body.trim_start();
            match k {
                "S" => started = body.parse().ok(),
                "D" => {
                    if let Some((i, o)) = body.split_once(' ') {
                        if let Ok(i) = i.parse::<usize>() {
                            if offset + i < ops.len() {
                                r.outputs[offset + i] = o.to_string();
                                done_upto = i + 1;
                                started = None;
                            }
                        }
                    }
                }
                "F" => {
                    if let Some((i, m)) = body.split_once(' ') {
                        let i: usize = i.parse().unwrap_or(0);
                        r.oracle_failures.push(format!("{m} [op {}: {}]", offset + i, clip(&ops[(offset + i).min(ops.len() - 1)])));
                    }
                }
                "T" => r.tags.push(body.to_string()),
                "N" => r.nontrivial = true,
                _ => {}
            }
        }
        let clean = matches!(status, Some(st) if st.success()) && done_upto == rest.len();
        if clean {
            break;
        }
        // the child died (or hung) while executing op `k`
        let k = started.unwrap_or(done_upto).min(rest.len() - 1);
        let how = match status {
            Some(st) => format!("{st}"),
            None => "no termination within 300 s (killed)".to_string(),
        };
        r.outputs[offset + k] = "abort".into();
        r.oracle_failures.push(format!(
            "abort: the process executing the real code died ({how}) [op {}: {}]",
            offset + k,
            clip(&ops[offset + k])
        ));
        r.tags.push("child-died".into());
        offset += k + 1;
    }
    let _ = std::fs::remove_dir_all(&dir);
    r
}

// ------------------------------------------------------------------------------------------------
// generators

const INT_EDGES: [i64; 30] = [
    0, 1, -1, 127, 128, 129, 255, 256, 257, 32767, 32768, 65535, 65536, 8388607, 8388608, 16777215, 16777216,
    2147483647, 2147483648, 4294967295, 4294967296, 1099511627775, 1099511627776, 281474976710655, 281474976710656,
    72057594037927935, 72057594037927936, i64::MAX, i64::MIN, -128,
];

fn gen_int(rng: &mut Rng) -> i64 {
    match rng.below(6) {
        0 | 1 => *rng.pick(&INT_EDGES),
        2 => {
            let k = rng.range(0, 63);
            let v = (1u64 << k) as i64;
            match rng.below(4) { 0 => v, 1 => v.wrapping_sub(1), 2 => v.wrapping_neg(), _ => v.wrapping_add(1) }
        }
        3 => rng.range(0, 300) as i64 - 20,
        4 => {
            // random value of a random byte width
            let k = rng.range(1, 8);
            (rng.next_u64() >> (64 - 8 * k)) as i64
        }
        _ => rng.next_u64() as i64,
    }
}

const REAL_EDGES: [u64; 12] = [
    0, 0x8000000000000000, 0x3ff0000000000000, 0xbff0000000000000, 0x7ff0000000000000, 0xfff0000000000000,
    0x7ff8000000000000, 0x7ff0000000000001, 0xfff8000000000001, 1, 0x000fffffffffffff, 0x7fefffffffffffff,
];

fn gen_real_bits(rng: &mut Rng, allow_nan: bool) -> u64 {
    loop {
        let b = match rng.below(3) {
            0 => *rng.pick(&REAL_EDGES),
            1 => (rng.range(0, 100000) as f64 / 8.0 - 1000.0).to_bits(),
            _ => rng.next_u64(),
        };
        if allow_nan || !f64::from_bits(b).is_nan() {
            return b;
        }
    }
}

/// size class: 0 = small payloads only (wide keys), 1 = normal, 2 = may be large
fn gen_len(rng: &mut Rng, class: u8) -> usize {
    if class == 0 {
        return match rng.below(24) {
            0..=3 => 0,
            4 => *rng.pick(&[127usize, 128, 255, 256]),
            _ => rng.range(1, 10) as usize,
        };
    }
    match rng.below(20) {
        0..=2 => 0,
        3..=9 => rng.range(1, 12) as usize,
        10..=12 => *rng.pick(&[127usize, 128, 129, 255, 256, 257]),
        13 | 14 => rng.range(13, 600) as usize,
        15 if class == 2 => *rng.pick(&[65535usize, 65536, 65537]),
        _ => rng.range(1, 40) as usize,
    }
}

fn gen_text(rng: &mut Rng, class: u8) -> String {
    let target = gen_len(rng, class);
    let mut s = String::new();
    let ascii_only = rng.chance(1, 2);
    while s.len() < target {
        let c = if ascii_only {
            rng.range(0x20, 0x7e) as u32
        } else {
            match rng.below(8) {
                0 => 0, // NUL is valid UTF-8
                1 => rng.range(0x80, 0x7ff) as u32,
                2 => rng.range(0x800, 0xd7ff) as u32,
                3 => rng.range(0xe000, 0xffff) as u32,
                4 => rng.range(0x10000, 0x10ffff) as u32,
                5 => *rng.pick(&[0x7fu32, 0x80, 0x7ff, 0x800, 0xffff, 0x10000, 0x10ffff, 0xfffd]),
                _ => rng.range(0x20, 0x7e) as u32,
            }
        };
        if let Some(ch) = char::from_u32(c) {
            if s.len() + ch.len_utf8() > target {
                s.push('x');
            } else {
                s.push(ch);
            }
        }
    }
    s
}

fn gen_bytes(rng: &mut Rng, n: usize) -> Vec<u8> {
    let mode = rng.below(4);
    (0..n)
        .map(|_| match mode {
            0 => 0,
            1 => 0xff,
            _ => rng.below(256) as u8,
        })
        .collect()
}

fn gen_val(rng: &mut Rng, allow_nan: bool, class: u8) -> String {
    match rng.below(10) {
        0 => "n".into(),
        1..=4 => format!("i{}", gen_int(rng)),
        5 => format!("r{:016x}", gen_real_bits(rng, allow_nan)),
        6 | 7 => format!("t{}", hex::encode(gen_text(rng, class).as_bytes())),
        _ => {
            let n = gen_len(rng, class);
            format!("b{}", hex::encode(gen_bytes(rng, n)))
        }
    }
}

fn gen_vals(rng: &mut Rng, allow_nan: bool, max_cols: usize) -> Vec<String> {
    let n = match rng.below(40) {
        0 => 0,
        1..=20 => rng.range(1, 4) as usize,
        21..=33 => rng.range(5, 16) as usize,
        34..=36 => rng.range(17, 254) as usize,
        37 | 38 => 255,
        _ => rng.range(256, 300) as usize,
    }
    .min(max_cols);
    // at most one big payload per key, and none in wide keys (line length)
    let mut class: u8 = if n > 16 { 0 } else if n <= 4 && rng.chance(1, 25) { 2 } else { 1 };
    (0..n)
        .map(|_| {
            let v = gen_val(rng, allow_nan, class);
            if v.len() > 10_000 {
                class = 1;
            }
            v
        })
        .collect()
}

/// special values hostile length fields are set to
fn special_u64(rng: &mut Rng, remaining: usize) -> u64 {
    match rng.below(12) {
        0 => 0,
        1 => 1,
        2 => remaining as u64,
        3 => remaining as u64 + 1,
        4 => (remaining as u64).saturating_sub(1),
        5 => 1 << 31,
        6 => 1 << 63,
        7 => u64::MAX,
        8 => (1 << 32) - 1,
        9 => remaining as u64 / 16,
        10 => remaining as u64 / 16 + 1,
        _ => 1 << rng.range(0, 63),
    }
}

/// generic hostile mutation of a valid frame
fn mutate(rng: &mut Rng, mut b: Vec<u8>, big_endian: bool) -> Vec<u8> {
    let rounds = if rng.chance(3, 4) { 1 } else { rng.range(2, 4) };
    for _ in 0..rounds {
        let len = b.len();
        match rng.below(10) {
            0 if len > 0 => {
                let i = rng.below(len as u64) as usize;
                b[i] ^= 1 << rng.below(8);
            }
            1 if len > 0 => {
                b.truncate(rng.below(len as u64) as usize);
            }
            2 if len > 0 => {
                // a tag / count / type byte out of range
                let i = if rng.chance(1, 2) { rng.below(len.min(4) as u64) as usize } else { rng.below(len as u64) as usize };
                b[i] = *rng.pick(&[0u8, 1, 2, 3, 4, 5, 6, 7, 0x40, 0x48, 0x4b, 0x4c, 0x7f, 0x80, 0xfe, 0xff]);
            }
            3 | 4 if len > 0 => {
                // overwrite a length field candidate: 8, 4 or 1..8 bytes at an offset (biased to the front)
                let i = if rng.chance(1, 2) { rng.below(len.min(40) as u64) as usize } else { rng.below(len as u64) as usize };
                let w = *rng.pick(&[8usize, 8, 4, 4, 2, 1]);
                let v = special_u64(rng, len.saturating_sub(i + w));
                let bytes = if big_endian { v.to_be_bytes()[8 - w..].to_vec() } else { v.to_le_bytes()[..w].to_vec() };
                for (k, x) in bytes.iter().enumerate() {
                    if i + k < b.len() {
                        b[i + k] = *x;
                    }
                }
            }
            5 => {
                let n = rng.range(1, 9) as usize;
                let extra = gen_bytes(rng, n);
                let i = rng.below(len as u64 + 1) as usize;
                b.splice(i..i, extra);
            }
            6 if len > 1 => {
                let i = rng.below(len as u64) as usize;
                let j = (i + rng.range(1, 8) as usize).min(len);
                b.drain(i..j);
            }
            7 if len > 0 => {
                let i = rng.below(len as u64) as usize;
                b[i] = rng.below(256) as u8;
            }
            _ => {
                let n = rng.range(0, 16) as usize;
                b.extend(gen_bytes(rng, n));
            }
        }
    }
    b
}

fn vals_to_real(vs: &[String]) -> Vec<SqliteValue> {
    vs.iter().filter_map(|v| parse_val(v)).collect()
}

/// a hostile packed key: mutation of a valid one, a hand-built header, or noise
fn gen_packed_hostile(rng: &mut Rng) -> Vec<u8> {
    match rng.below(10) {
        0 => {
            let n = rng.range(0, 24) as usize;
            gen_bytes(rng, n)
        }
        1 => {
            // count + one header byte of every (intlen, type) + a few bytes
            let mut b = vec![rng.range(0, 3) as u8, ((rng.below(32) as u8) << 3) | rng.below(8) as u8];
            let n = rng.range(0, 12) as usize;
            b.extend(gen_bytes(rng, n));
            b
        }
        2 => {
            // length field of a text/blob set to a special value, big-endian, k bytes
            let k = rng.range(0, 8) as usize;
            let ty = if rng.chance(1, 2) { 3u8 } else { 4 };
            let n = rng.range(0, 20) as usize;
            let payload = gen_bytes(rng, n);
            let v = special_u64(rng, payload.len());
            let mut b = vec![1u8, ((k as u8) << 3) | ty];
            b.extend_from_slice(&v.to_be_bytes()[8 - k..]);
            b.extend(payload);
            b
        }
        _ => {
            let vs = gen_vals(rng, true, 40);
            let vals = vals_to_real(&vs);
            let base = pack_columns(&vals).unwrap_or_default();
            if rng.chance(1, 8) { base } else { mutate(rng, base, true) }
        }
    }
}

// wire value generators (terms) --------------------------------------------------------------------

const ACTOR_POOL: [&str; 4] = [
    "00000000000000000000000000000000",
    "0102030405060708090a0b0c0d0e0f10",
    "ffffffffffffffffffffffffffffffff",
    "0102030405060708090a0b0c0d0e0f11",
];

fn gen_actor(rng: &mut Rng) -> String {
    if rng.chance(2, 3) {
        rng.pick(&ACTOR_POOL).to_string()
    } else {
        hex::encode(gen_bytes(rng, 16))
    }
}

fn gen_u64(rng: &mut Rng) -> u64 {
    match rng.below(8) {
        0 => 0,
        1 => 1,
        2 => u64::MAX,
        3 => 1 << rng.range(0, 63),
        4 => (1u64 << rng.range(1, 63)) - 1,
        5 | 6 => rng.range(0, 2000),
        _ => rng.next_u64(),
    }
}

fn gen_range(rng: &mut Rng) -> String {
    let lo = gen_u64(rng);
    let hi = match rng.below(4) {
        0 => lo,
        1 => lo.saturating_add(rng.range(0, 50)),
        2 => gen_u64(rng), // possibly inverted: the codec does not care
        _ => lo.saturating_add(gen_u64(rng) % 1000),
    };
    format!("{lo}-{hi}")
}

fn gen_ranges(rng: &mut Rng, max: u64) -> String {
    let n = match rng.below(6) { 0 => 0, 1..=3 => rng.range(1, 3), _ => rng.range(0, max) };
    format!("l({})", (0..n).map(|_| gen_range(rng)).collect::<Vec<_>>().join(","))
}

fn gen_opt_ts(rng: &mut Rng) -> String {
    if rng.chance(1, 3) { "none".into() } else { format!("some({})", gen_u64(rng)) }
}

fn gen_text_term(rng: &mut Rng, class: u8) -> String {
    format!("t{}", hex::encode(gen_text(rng, class).as_bytes()))
}

fn gen_change(rng: &mut Rng, class: u8) -> String {
    let pk = if rng.chance(3, 4) {
        let vs = gen_vals(rng, true, 4);
        pack_columns(&vals_to_real(&vs)).unwrap_or_default()
    } else {
        let n = gen_len(rng, 0);
        gen_bytes(rng, n)
    };
    format!(
        "c({},b{},{},{},{},{},{},{},{})",
        gen_text_term(rng, 0),
        hex::encode(pk),
        gen_text_term(rng, 0),
        gen_val(rng, true, class),
        gen_int(rng),
        gen_u64(rng),
        gen_u64(rng),
        gen_actor(rng),
        gen_int(rng)
    )
}

fn gen_changeset(rng: &mut Rng) -> String {
    match rng.below(5) {
        0 => format!("empty({},{})", gen_range(rng), gen_opt_ts(rng)),
        1 => format!("emptyset({},{})", gen_ranges(rng, 12), gen_u64(rng)),
        _ => {
            let n = match rng.below(10) { 0 => 0, 1..=6 => rng.range(1, 4), 7 | 8 => rng.range(5, 12), _ => rng.range(13, 40) };
            let class = if n <= 2 && rng.chance(1, 12) { 2 } else if n <= 6 { 1 } else { 0 };
            let cs: Vec<String> = (0..n).map(|_| gen_change(rng, class)).collect();
            format!("full({},l({}),{},{},{})", gen_u64(rng), cs.join(","), gen_range(rng), gen_u64(rng), gen_u64(rng))
        }
    }
}

fn gen_changev1(rng: &mut Rng) -> String {
    format!("cv({},{})", gen_actor(rng), gen_changeset(rng))
}

fn gen_need(rng: &mut Rng) -> String {
    match rng.below(3) {
        0 => format!("full({})", gen_range(rng)),
        1 => format!("partial({},{})", gen_u64(rng), gen_ranges(rng, 8)),
        _ => format!("empty({})", gen_opt_ts(rng)),
    }
}

/// `det`: at most one entry per map (encoding independent of HashMap order)
fn gen_state(rng: &mut Rng, det: bool) -> String {
    let count = |rng: &mut Rng| -> u64 {
        if det { rng.range(0, 1) } else { match rng.below(4) { 0 => 0, 1 => 1, _ => rng.range(2, 5) } }
    };
    let nh = count(rng);
    let heads: Vec<String> = (0..nh).map(|_| format!("kv({},{})", gen_actor(rng), gen_u64(rng))).collect();
    let nn = count(rng);
    let need: Vec<String> = (0..nn).map(|_| format!("kv({},{})", gen_actor(rng), gen_ranges(rng, 6))).collect();
    let np = count(rng);
    let pn: Vec<String> = (0..np)
        .map(|_| {
            let nv = count(rng);
            let vs: Vec<String> = (0..nv).map(|_| format!("kv({},{})", if rng.chance(1, 2) { rng.range(0, 3) } else { gen_u64(rng) }, gen_ranges(rng, 5))).collect();
            format!("kv({},m({}))", gen_actor(rng), vs.join(","))
        })
        .collect();
    format!("state({},m({}),m({}),m({}),{})", gen_actor(rng), heads.join(","), need.join(","), pn.join(","), gen_opt_ts(rng))
}

fn gen_trace_str(rng: &mut Rng) -> String {
    match rng.below(4) {
        0 => "none".into(),
        1 => format!("some(t{})", hex::encode("00-4bf92f3577b34da6a3ce929d0e0e4736-00f067aa0ba902b7-01")),
        _ => format!("some({})", gen_text_term(rng, 1)),
    }
}

fn gen_cluster(rng: &mut Rng) -> u64 {
    match rng.below(4) { 0 => 0, 1 => 65535, 2 => rng.range(0, 5), _ => rng.below(65536) }
}

fn gen_uni(rng: &mut Rng) -> String {
    format!("uni({},{})", gen_changev1(rng), gen_cluster(rng))
}

fn gen_bi(rng: &mut Rng) -> String {
    format!("bi({},trace({},{}),{})", gen_actor(rng), gen_trace_str(rng), gen_trace_str(rng), gen_cluster(rng))
}

fn gen_msg(rng: &mut Rng, det: bool) -> String {
    match rng.below(8) {
        0 | 1 => format!("mstate({})", gen_state(rng, det)),
        2 | 3 => format!("mchangeset({})", gen_changev1(rng)),
        4 => format!("mclock({})", gen_u64(rng)),
        5 => format!("mreject({})", rng.below(2)),
        _ => {
            let n = match rng.below(4) { 0 => 0, 1 => 1, _ => rng.range(2, 5) };
            let es: Vec<String> = (0..n)
                .map(|_| {
                    let k = match rng.below(4) { 0 => 0, 1 => 1, _ => rng.range(2, 8) };
                    format!("kv({},l({}))", gen_actor(rng), (0..k).map(|_| gen_need(rng)).collect::<Vec<_>>().join(","))
                })
                .collect();
            format!("mrequest(l({}))", es.join(","))
        }
    }
}

/// a generated term of the type (deterministic encoding when `det`)
fn gen_term(rng: &mut Rng, ty: &str, det: bool) -> String {
    match ty {
        "value" => {
            let class = if rng.chance(1, 40) { 2 } else { 1 };
            gen_val(rng, true, class)
        }
        "ts" | "dbv" | "seq" => gen_u64(rng).to_string(),
        "cluster" => gen_cluster(rng).to_string(),
        "actor" => gen_actor(rng),
        "change" => {
            let class = if rng.chance(1, 40) { 2 } else { 1 };
            gen_change(rng, class)
        }
        "changeset" => gen_changeset(rng),
        "changev1" => gen_changev1(rng),
        "need" => gen_need(rng),
        "state" => gen_state(rng, det),
        "uni" => gen_uni(rng),
        "bi" => gen_bi(rng),
        _ => gen_msg(rng, det),
    }
}

/// byte strings around the edges of well-formed UTF-8: valid text with one byte changed, and sequences
/// of lead / continuation bytes (overlong forms, surrogates, > U+10FFFF, truncated sequences)
fn gen_utf8_hostile(rng: &mut Rng) -> Vec<u8> {
    if rng.chance(1, 2) {
        let mut b = gen_text(rng, 1).into_bytes();
        if !b.is_empty() && rng.chance(3, 4) {
            let i = rng.below(b.len() as u64) as usize;
            match rng.below(3) {
                0 => b[i] = rng.below(256) as u8,
                1 => {
                    b.remove(i);
                }
                _ => b.truncate(i),
            }
        }
        b
    } else {
        const EDGE: [u8; 24] = [
            0x00, 0x7f, 0x80, 0xbf, 0xc0, 0xc1, 0xc2, 0xdf, 0xe0, 0xe1, 0xec, 0xed, 0xee, 0xef, 0xf0, 0xf1, 0xf3, 0xf4, 0xf5, 0xff, 0x9f,
            0xa0, 0x8f, 0x90,
        ];
        let n = rng.range(1, 6);
        (0..n).map(|_| if rng.chance(4, 5) { *rng.pick(&EDGE) } else { rng.below(256) as u8 }).collect()
    }
}

/// the types a peer can make a node decode, weighted towards the frames and the hand-written readers
fn pick_type(rng: &mut Rng) -> &'static str {
    match rng.below(20) {
        0 => "value",
        1 => *rng.pick(&["ts", "dbv", "seq", "cluster", "actor"]),
        2 => "change",
        3..=5 => "changeset",
        6 => "changev1",
        7 | 8 => "need",
        9..=11 => "state",
        12..=14 => "uni",
        15 | 16 => "bi",
        _ => "msg",
    }
}

/// hostile input for `dec <ty>`: a mutated valid frame (small payloads), a hand-made header, or noise
fn gen_wire_hostile(rng: &mut Rng, ty: &str) -> Vec<u8> {
    match rng.below(12) {
        0 => {
            let n = rng.range(0, 48) as usize;
            gen_bytes(rng, n)
        }
        1 => {
            // a plausible prefix followed by a special length
            let mut b = match ty {
                "changeset" => vec![2u8],
                "need" => vec![1u8, 0, 0, 0, 0, 0, 0, 0, 0],
                "state" => hex::decode(ACTOR_POOL[1]).unwrap(),
                "msg" => vec![0, 0, 0, 0, rng.below(6) as u8, 0, 0, 0],
                "uni" => vec![0; 12],
                "bi" => vec![0; 8],
                _ => vec![rng.below(6) as u8],
            };
            let n = rng.range(0, 40) as usize;
            let tail = gen_bytes(rng, n);
            let v = special_u64(rng, tail.len());
            if rng.chance(1, 2) { b.extend_from_slice(&v.to_le_bytes()) } else { b.extend_from_slice(&(v as u32).to_le_bytes()) }
            b.extend(tail);
            b
        }
        _ => {
            let term = loop {
                let t = gen_term(rng, ty, true);
                if t.len() < 6000 {
                    break t;
                }
            };
            let base = encode_term(ty, &term);
            if rng.chance(1, 10) { base } else { mutate(rng, base, false) }
        }
    }
}

/// exhaustive small scope around one valid frame: every prefix, and at every offset a byte / a u32 / a
/// u64 overwritten with the special values
fn enumerate_frame(ty: &str, frame: &[u8], full: bool) -> Vec<String> {
    let mut ops = vec![];
    let mut push = |b: Vec<u8>| ops.push(format!("dec {ty} {}", hex_of(&b)));
    for i in 0..=frame.len() {
        push(frame[..i].to_vec());
    }
    let specials: &[u64] = if full {
        &[0, 1, 2, 0x7f, 0x80, 0xff, 0x100, 0xffff, 1 << 31, 0xffff_ffff, 1 << 32, 1 << 63, u64::MAX]
    } else {
        &[0, 0xff, 1 << 31, u64::MAX]
    };
    for i in 0..frame.len() {
        for sp in specials {
            for w in [1usize, 4, 8] {
                if (w == 1 && *sp > 0xff) || (w == 4 && *sp > 0xffff_ffff) {
                    continue;
                }
                let mut b = frame.to_vec();
                for (k, x) in sp.to_le_bytes()[..w].iter().enumerate() {
                    if i + k < b.len() {
                        b[i + k] = *x;
                    }
                }
                if b != frame {
                    push(b);
                }
            }
        }
        // remaining ± 1 as a length at this offset
        let rem = frame.len().saturating_sub(i + 8) as u64;
        for v in [rem, rem + 1, rem.saturating_sub(1), rem / 16, rem / 16 + 1, rem / 24 + 1] {
            let mut b = frame.to_vec();
            for (k, x) in v.to_le_bytes().iter().enumerate() {
                if i + k < b.len() {
                    b[i + k] = *x;
                }
            }
            if b != frame {
                push(b);
            }
        }
    }
    ops
}

/// the pinned samples of the enumerated scope
const ENUM_SAMPLES: [(&str, &str); 9] = [
    ("changeset", "emptyset(l(1-2,5-9),7)"),
    ("changeset", "full(7,l(c(t74,b010905,t63,t6869,1,2,0,0102030405060708090a0b0c0d0e0f10,1)),0-0,0,99)"),
    ("need", "partial(3,l(0-1,4-4))"),
    ("state", "state(0102030405060708090a0b0c0d0e0f10,m(kv(0102030405060708090a0b0c0d0e0f11,9)),m(kv(0102030405060708090a0b0c0d0e0f11,l(1-2))),m(kv(0102030405060708090a0b0c0d0e0f11,m(kv(4,l(0-3))))),some(77))"),
    ("uni", "uni(cv(0102030405060708090a0b0c0d0e0f10,empty(1-2,some(5))),7)"),
    ("bi", "bi(0102030405060708090a0b0c0d0e0f10,trace(some(t30302d61),some(t78)),3)"),
    ("msg", "mrequest(l(kv(0102030405060708090a0b0c0d0e0f10,l(full(1-2),empty(none),partial(3,l(0-1))))))"),
    ("msg", "mreject(1)"),
    ("value", "tc3a9"),
];

impl Prop for C09 {
    fn id(&self) -> &'static str {
        "C09"
    }
    fn rule(&self) -> &'static str {
        "one case = a batch of op lines (pack / ext_pack / enc on generated values, unpack / dec on hostile bytes) run in \
         a child process; non-trivial iff at least one op round-tripped a non-empty value or decoded hostile bytes to a \
         value; distinct by hash of the op lines"
    }
    fn default_cases(&self, tier: Tier) -> usize {
        match tier {
            Tier::Quick => 300,
            Tier::Thorough => 3000,
        }
    }
    fn enumerated_case(&self, tier: Tier, index: usize) -> Option<Vec<String>> {
        if index == 0 {
            return Some(vec!["minbytes".to_string()]);
        }
        let (ty, term) = ENUM_SAMPLES.get(index - 1)?;
        let frame = encode_term(ty, term);
        let mut ops = vec![format!("enc {ty} {term}")];
        ops.extend(enumerate_frame(ty, &frame, tier == Tier::Thorough));
        Some(ops)
    }
    fn gen_case(&self, rng: &mut Rng, _tier: Tier, index: usize) -> Vec<String> {
        let mut ops = vec![];
        // every 8th case talks to the extension (connection set-up once per child)
        if index % 8 == 3 {
            for _ in 0..120 {
                let vs = gen_vals(rng, false, EXT_MAX_COLS);
                if vs.is_empty() {
                    continue;
                }
                ops.push(format!("ext_pack {}", show_list(&vs, ",")));
            }
            return ops;
        }
        // values: packed keys, wire encodings (byte equality), wire round trips (multi-entry maps)
        for _ in 0..25 {
            let vs = gen_vals(rng, true, 300);
            ops.push(format!("pack {}", show_list(&vs, ",")));
        }
        for _ in 0..35 {
            let ty = pick_type(rng);
            ops.push(format!("enc {ty} {}", gen_term(rng, ty, true)));
        }
        for _ in 0..10 {
            let ty = if rng.chance(2, 3) { "state" } else { "msg" };
            ops.push(format!("rt {ty} {}", gen_term(rng, ty, false)));
        }
        // hostile bytes
        for _ in 0..45 {
            ops.push(format!("unpack {}", hex_of(&gen_packed_hostile(rng))));
        }
        for _ in 0..100 {
            let ty = pick_type(rng);
            ops.push(format!("dec {ty} {}", hex_of(&gen_wire_hostile(rng, ty))));
        }
        for _ in 0..15 {
            ops.push(format!("utf8 {}", hex_of(&gen_utf8_hostile(rng))));
        }
        ops
    }
    fn exec_case(&self, ops: &[String]) -> CaseResult {
        match std::env::var_os(CHILD_ENV) {
            Some(p) => exec_local(ops, Some(std::path::Path::new(&p))),
            None => exec_via_child(ops),
        }
    }
}
