//! C04 — real `SyncStateV1::compute_available_needs` vs the Lean model `Corro.Needs`,
//! plus an independent set-based oracle for the property evaluated on the real output.
//!
//! One op per case:
//! `can <ourActor> <ourHeads> <ourNeed> <ourPartials> <peerActor> <peerHeads> <peerNeed> <peerPartials>`
//!   heads    `a:h;a:h`              (`-` = empty map)
//!   need     `a:lo-hi,lo-hi;a:…`    (`a:-` = empty list)
//!   partials `a:v=lo-hi,lo-hi/v=-;a:…`
//! Map keys strictly increasing (canonical form of a HashMap), else `bad-op`.
//! Output `a:F<lo>-<hi>,P<v>=<lo>-<hi>+…,…;a:…` — actors ascending, needs in the order the function
//! pushed them, the (HashMap-ordered) partial needs re-ordered by ascending version.
//! Actor `n` on the op line is `ActorId(Uuid::from_u128(n))`.
use std::collections::{BTreeMap, BTreeSet, HashMap};

use klukai_types::actor::ActorId;
use klukai_types::base::{CrsqlDbVersion, CrsqlSeq};
use klukai_types::sync::{SyncNeedV1, SyncStateV1};

use crate::rng::Rng;
use crate::runner::{CaseResult, Prop, Tier};
use crate::util::*;

pub struct C04;

type Ranges = Vec<(u64, u64)>;

#[derive(Clone, Default, Debug)]
struct St {
    actor: u64,
    heads: BTreeMap<u64, u64>,
    need: BTreeMap<u64, Ranges>,
    partial: BTreeMap<u64, BTreeMap<u64, Ranges>>,
}

fn aid(n: u64) -> ActorId {
    ActorId(uuid::Uuid::from_u128(n as u128))
}

fn unaid(a: &ActorId) -> u64 {
    a.0.as_u128() as u64
}

// ---------------------------------------------------------------- encoding / parsing

fn enc_state(s: &St) -> String {
    let heads: Vec<String> = s.heads.iter().map(|(a, h)| format!("{a}:{h}")).collect();
    let need: Vec<String> = s.need.iter().map(|(a, rs)| format!("{a}:{}", show_ranges(rs))).collect();
    let partial: Vec<String> = s
        .partial
        .iter()
        .map(|(a, pm)| {
            let vs: Vec<String> = pm.iter().map(|(v, rs)| format!("{v}={}", show_ranges(rs))).collect();
            format!("{a}:{}", show_list(&vs, "/"))
        })
        .collect();
    format!("{} {} {} {}", s.actor, show_list(&heads, ";"), show_list(&need, ";"), show_list(&partial, ";"))
}

fn split_top<'a>(s: &'a str, sep: char) -> Vec<&'a str> {
    if s == "-" || s.is_empty() { vec![] } else { s.split(sep).collect() }
}

fn kv<'a>(s: &'a str, sep: char) -> Option<(&'a str, &'a str)> {
    let mut it = s.split(sep);
    let a = it.next()?;
    let b = it.next()?;
    if it.next().is_some() {
        return None;
    }
    Some((a, b))
}

fn nat(s: &str) -> Option<u64> {
    if s.is_empty() || !s.bytes().all(|b| b.is_ascii_digit()) {
        return None;
    }
    s.parse().ok()
}

fn ranges(s: &str) -> Option<Ranges> {
    split_top(s, ',')
        .into_iter()
        .map(|r| {
            let (a, b) = kv(r, '-')?;
            Some((nat(a)?, nat(b)?))
        })
        .collect()
}

/// inserts with strictly increasing keys only
fn push_sorted<V>(m: &mut BTreeMap<u64, V>, k: u64, v: V) -> Option<()> {
    if let Some((last, _)) = m.iter().next_back() {
        if *last >= k {
            return None;
        }
    }
    m.insert(k, v);
    Some(())
}

fn parse_state(a: &str, h: &str, n: &str, p: &str) -> Option<St> {
    let mut st = St { actor: nat(a)?, ..Default::default() };
    for e in split_top(h, ';') {
        let (k, v) = kv(e, ':')?;
        push_sorted(&mut st.heads, nat(k)?, nat(v)?)?;
    }
    for e in split_top(n, ';') {
        let (k, v) = kv(e, ':')?;
        push_sorted(&mut st.need, nat(k)?, ranges(v)?)?;
    }
    for e in split_top(p, ';') {
        let (k, vs) = kv(e, ':')?;
        let mut pm = BTreeMap::new();
        for ve in split_top(vs, '/') {
            let (v, rs) = kv(ve, '=')?;
            push_sorted(&mut pm, nat(v)?, ranges(rs)?)?;
        }
        push_sorted(&mut st.partial, nat(k)?, pm)?;
    }
    Some(st)
}

fn all_forward(s: &St) -> bool {
    s.need.values().all(|rs| rs.iter().all(|r| r.0 <= r.1))
        && s.partial.values().all(|pm| pm.values().all(|rs| rs.iter().all(|r| r.0 <= r.1)))
}

fn build(s: &St) -> SyncStateV1 {
    SyncStateV1 {
        actor_id: aid(s.actor),
        heads: s.heads.iter().map(|(a, h)| (aid(*a), CrsqlDbVersion(*h))).collect(),
        need: s
            .need
            .iter()
            .map(|(a, rs)| (aid(*a), rs.iter().map(|r| CrsqlDbVersion(r.0)..=CrsqlDbVersion(r.1)).collect()))
            .collect(),
        partial_need: s
            .partial
            .iter()
            .map(|(a, pm)| {
                (
                    aid(*a),
                    pm.iter()
                        .map(|(v, rs)| (CrsqlDbVersion(*v), rs.iter().map(|r| CrsqlSeq(r.0)..=CrsqlSeq(r.1)).collect()))
                        .collect::<HashMap<_, _>>(),
                )
            })
            .collect(),
        last_cleared_ts: None,
    }
}

// ---------------------------------------------------------------- canonical output

#[derive(Clone, Debug, PartialEq)]
enum N {
    Full(u64, u64),
    Part(u64, Ranges),
    Other,
}

fn canon(out: HashMap<ActorId, Vec<SyncNeedV1>>) -> BTreeMap<u64, Vec<N>> {
    let mut m = BTreeMap::new();
    for (a, ns) in out {
        let mut v: Vec<N> = ns
            .into_iter()
            .map(|n| match n {
                SyncNeedV1::Full { versions } => N::Full(versions.start().0, versions.end().0),
                SyncNeedV1::Partial { version, seqs } => {
                    N::Part(version.0, seqs.iter().map(|r| (r.start().0, r.end().0)).collect())
                }
                _ => N::Other,
            })
            .collect();
        // the partial needs come out in HashMap order: sort them among themselves, in place
        let idx: Vec<usize> = v.iter().enumerate().filter(|(_, n)| matches!(n, N::Part(..))).map(|(i, _)| i).collect();
        let mut parts: Vec<N> = idx.iter().map(|i| v[*i].clone()).collect();
        parts.sort_by_key(|n| match n {
            N::Part(ver, rs) => (*ver, rs.clone()),
            _ => (0, vec![]),
        });
        for (i, p) in idx.iter().zip(parts) {
            v[*i] = p;
        }
        m.insert(unaid(&a), v);
    }
    m
}

fn show_out(m: &BTreeMap<u64, Vec<N>>) -> String {
    let es: Vec<String> = m
        .iter()
        .map(|(a, ns)| {
            let ns: Vec<String> = ns
                .iter()
                .map(|n| match n {
                    N::Full(lo, hi) => format!("F{lo}-{hi}"),
                    N::Part(v, rs) => {
                        format!("P{v}={}", rs.iter().map(|r| show_range(*r)).collect::<Vec<_>>().join("+"))
                    }
                    N::Other => "E".to_string(),
                })
                .collect();
            format!("{a}:{}", ns.join(","))
        })
        .collect();
    show_list(&es, ";")
}

// ---------------------------------------------------------------- oracle (independent of the model)

const ORACLE_MAX: u64 = 4096;

/// the property's quantifier: well-formed advertised states
fn wf(s: &St) -> bool {
    for (a, rs) in &s.need {
        let Some(h) = s.heads.get(a) else { return false };
        if !rs.iter().all(|r| 1 <= r.0 && r.0 <= r.1 && r.1 <= *h) {
            return false;
        }
    }
    for (a, pm) in &s.partial {
        let Some(h) = s.heads.get(a) else { return false };
        let need = s.need.get(a).cloned().unwrap_or_default();
        for (v, rs) in pm {
            if *v < 1 || v > h || need.iter().any(|r| r.0 <= *v && *v <= r.1) {
                return false;
            }
            if !rs.iter().all(|r| r.0 <= r.1) {
                return false;
            }
        }
    }
    true
}

fn small(s: &St) -> bool {
    s.heads.values().all(|h| *h <= ORACLE_MAX)
        && s.need.values().all(|rs| rs.iter().all(|r| r.1 <= ORACLE_MAX))
        && s.partial.values().all(|pm| pm.iter().all(|(v, rs)| *v <= ORACLE_MAX && rs.iter().all(|r| r.1 <= ORACLE_MAX)))
}

fn points(rs: &[(u64, u64)]) -> BTreeSet<u64> {
    let mut s = BTreeSet::new();
    for r in rs {
        if r.0 <= r.1 {
            for x in r.0..=r.1 {
                s.insert(x);
            }
        }
    }
    s
}

fn oracle(us: &St, peer: &St, out: &BTreeMap<u64, Vec<N>>, tags: &mut Vec<String>) -> Vec<String> {
    let mut fails = vec![];
    let empty_r: Ranges = vec![];
    let empty_p: BTreeMap<u64, Ranges> = BTreeMap::new();
    for a in out.keys() {
        if *a == us.actor {
            fails.push(format!("requests for our own actor {a}"));
        }
        if !peer.heads.contains_key(a) {
            fails.push(format!("requests for actor {a} which the peer does not advertise"));
        }
    }
    for (a, head) in &peer.heads {
        if *a == us.actor {
            tags.push("own-actor-in-peer-heads".into());
            continue;
        }
        let reqs = out.get(a).cloned().unwrap_or_default();
        if out.contains_key(a) && reqs.is_empty() {
            fails.push(format!("actor {a}: empty request list"));
        }
        if *head == 0 {
            tags.push("peer-head-0".into());
        }
        let our_head = us.heads.get(a).copied();
        if our_head.is_none() {
            tags.push("actor-unknown-to-us".into());
        }
        let our_need = points(us.need.get(a).unwrap_or(&empty_r));
        let peer_need = points(peer.need.get(a).unwrap_or(&empty_r));
        let our_part = us.partial.get(a).unwrap_or(&empty_p);
        let peer_part = peer.partial.get(a).unwrap_or(&empty_p);
        let held = |v: u64| 1 <= v && v <= *head && !peer_need.contains(&v) && !peer_part.contains_key(&v);
        let lack = |v: u64| our_need.contains(&v) || our_head.map(|h| v > h).unwrap_or(true);

        // what was requested
        let mut req_full: BTreeSet<u64> = BTreeSet::new();
        let mut req_part: BTreeMap<u64, BTreeSet<u64>> = BTreeMap::new();
        for n in &reqs {
            match n {
                N::Full(lo, hi) => {
                    if !(1 <= *lo && lo <= hi && hi <= head) {
                        fails.push(format!("actor {a}: Full {lo}-{hi} is not a forward range within 1..={head} (peer's head)"));
                    }
                    for x in *lo..=(*hi).min(ORACLE_MAX) {
                        req_full.insert(x);
                    }
                }
                N::Part(v, rs) => {
                    if !(1 <= *v && v <= head) {
                        fails.push(format!("actor {a}: Partial version {v} beyond the peer's head {head}"));
                    }
                    if rs.iter().any(|r| r.0 > r.1) {
                        fails.push(format!("actor {a}: Partial version {v} has a backward seq range"));
                    }
                    if req_part.insert(*v, points(rs)).is_some() {
                        fails.push(format!("actor {a}: two Partial needs for version {v}"));
                    }
                }
                N::Other => fails.push(format!("actor {a}: unexpected need kind")),
            }
        }
        // Full: complete and nothing we already have
        for v in 1..=*head {
            if held(v) && lack(v) && !req_full.contains(&v) {
                fails.push(format!("actor {a}: version {v} is held by the peer and lacked by us but not requested"));
                break;
            }
        }
        for v in &req_full {
            if !lack(*v) {
                fails.push(format!("actor {a}: version {v} requested although we do not lack it"));
                break;
            }
        }
        // Partial: complete, inside our gaps, inside what the peer can give
        for (v, seqs) in our_part {
            let ours = points(seqs);
            let want: BTreeSet<u64> = if held(*v) {
                tags.push("partial-vs-full".into());
                ours.clone()
            } else if let Some(ps) = peer_part.get(v) {
                tags.push("partial-vs-partial".into());
                let theirs = points(ps);
                ours.difference(&theirs).copied().collect()
            } else {
                BTreeSet::new()
            };
            let got = req_part.get(v).cloned().unwrap_or_default();
            if let Some(s) = want.difference(&got).next() {
                fails.push(format!("actor {a}: seq {s} of partial version {v} is available from the peer and missing here but not requested"));
            }
        }
        for (v, got) in &req_part {
            match our_part.get(v) {
                None => fails.push(format!("actor {a}: Partial request for version {v} which is not a partial of ours")),
                Some(seqs) => {
                    let ours = points(seqs);
                    if let Some(s) = got.difference(&ours).next() {
                        fails.push(format!("actor {a}: seq {s} of version {v} requested although we do not miss it"));
                    }
                }
            }
            if !held(*v) {
                match peer_part.get(v) {
                    None => fails.push(format!("actor {a}: Partial request for version {v} which the peer does not advertise at all")),
                    Some(ps) => {
                        let theirs = points(ps);
                        if let Some(s) = got.intersection(&theirs).next() {
                            fails.push(format!("actor {a}: seq {s} of version {v} requested although the peer misses it too"));
                        }
                    }
                }
            }
        }
        if reqs.iter().any(|n| matches!(n, N::Full(..))) {
            if !our_need.is_empty() && reqs.iter().filter(|n| matches!(n, N::Full(..))).count() > 1 {
                tags.push("several-full".into());
            }
        }
    }
    fails
}

fn exec_can(toks: &[&str]) -> (String, bool, Vec<String>, Vec<String>) {
    let (Some(us), Some(peer)) = (parse_state(toks[1], toks[2], toks[3], toks[4]), parse_state(toks[5], toks[6], toks[7], toks[8]))
    else {
        return ("bad-op".into(), false, vec![], vec![]);
    };
    let (rus, rpeer) = (build(&us), build(&peer));
    if !(all_forward(&us) && all_forward(&peer)) {
        // outside the quantifier: rangemap asserts start <= end.  Run the real code anyway to record what it does.
        let r = std::panic::catch_unwind(std::panic::AssertUnwindSafe(|| rus.compute_available_needs(&rpeer)));
        let tag = if r.is_err() { "backward-range:real-code-panics" } else { "backward-range:real-code-returns" };
        return ("err backward-range".into(), false, vec![tag.into()], vec![]);
    }
    let out = canon(rus.compute_available_needs(&rpeer));
    let mut tags = vec![];
    let mut fails = vec![];
    if wf(&us) && wf(&peer) && small(&us) && small(&peer) {
        tags.push("well-formed".into());
        fails = oracle(&us, &peer, &out, &mut tags);
    } else {
        tags.push("not-well-formed(oracle-skipped)".into());
    }
    let n_needs: usize = out.values().map(|v| v.len()).sum();
    if out.values().any(|v| v.iter().any(|n| matches!(n, N::Full(..)))) {
        tags.push("out:some-Full".into());
    }
    if out.values().any(|v| v.iter().any(|n| matches!(n, N::Part(..)))) {
        tags.push("out:some-Partial".into());
    }
    if out.len() >= 2 {
        tags.push("out:several-actors".into());
    }
    tags.push(format!("needs:{}", n_needs.min(8)));
    tags.sort();
    tags.dedup();
    (show_out(&out), n_needs > 0, tags, fails)
}

// ---------------------------------------------------------------- generators

const SEQ_PATTERNS: [&[(u64, u64)]; 8] =
    [&[(0, 0)], &[(0, 2)], &[(1, 1), (3, 4)], &[(0, 1), (3, 3), (6, 6)], &[(2, 5)], &[(0, 6)], &[(4, 4)], &[]];

/// status per version 1..=h: 0 held, 1 needed, 2 partial
fn state_from_status(st: &mut St, a: u64, status: &[u8], salt: u64) {
    let h = status.len() as u64;
    st.heads.insert(a, h);
    let mut need: Ranges = vec![];
    let mut pm = BTreeMap::new();
    for (i, s) in status.iter().enumerate() {
        let v = i as u64 + 1;
        match s {
            1 => match need.last_mut() {
                Some(r) if r.1 + 1 == v => r.1 = v,
                _ => need.push((v, v)),
            },
            2 => {
                let p = SEQ_PATTERNS[((v * 7 + h + salt) % SEQ_PATTERNS.len() as u64) as usize];
                pm.insert(v, p.to_vec());
            }
            _ => {}
        }
    }
    if !need.is_empty() {
        st.need.insert(a, need);
    }
    if !pm.is_empty() {
        st.partial.insert(a, pm);
    }
}

fn pow3(n: u64) -> u64 {
    3u64.pow(n as u32)
}

/// index → (h, base-3 digits of length h), enumerating h = 0..=hmax
fn decode_status(mut idx: u64, hmax: u64) -> Option<Vec<u8>> {
    for h in 0..=hmax {
        let n = pow3(h);
        if idx < n {
            let mut d = vec![];
            for _ in 0..h {
                d.push((idx % 3) as u8);
                idx /= 3;
            }
            return Some(d);
        }
        idx -= n;
    }
    None
}

fn gen_sorted_ranges(rng: &mut Rng, lo: u64, hi: u64, max_n: u64, max_len: u64) -> Ranges {
    // up to max_n disjoint, non-adjacent forward ranges inside lo..=hi, ascending
    let mut out = vec![];
    if hi < lo {
        return out;
    }
    let n = rng.range(0, max_n);
    let mut cur = lo + rng.range(0, 3);
    for _ in 0..n {
        if cur > hi {
            break;
        }
        let end = (cur + rng.range(0, max_len)).min(hi);
        out.push((cur, end));
        cur = end + 2 + rng.range(0, 4);
    }
    out
}

fn gen_wild_ranges(rng: &mut Rng, hi: u64, max_n: u64, backward_ok: bool) -> Ranges {
    let n = rng.range(0, max_n);
    (0..n)
        .map(|_| {
            let a = rng.range(0, hi + 3);
            let b = if backward_ok && rng.chance(1, 6) { a.saturating_sub(rng.range(1, 3)) } else { a + rng.range(0, 6) };
            (a, b)
        })
        .collect()
}

fn gen_side(rng: &mut Rng, st: &mut St, a: u64, head: u64, pool: &[u64], sloppy: bool, backward_ok: bool) {
    st.heads.insert(a, head);
    let need = if sloppy { gen_wild_ranges(rng, head, 3, backward_ok) } else { gen_sorted_ranges(rng, 1, head, 3, 6) };
    let mut pm: BTreeMap<u64, Ranges> = BTreeMap::new();
    let mut cands: Vec<u64> = pool.to_vec();
    if rng.chance(1, 3) {
        cands.push(rng.range(1, head.max(1)));
    }
    for v in cands {
        if pm.len() >= 3 || !rng.chance(3, 5) {
            continue;
        }
        if !sloppy && (v < 1 || v > head || need.iter().any(|r| r.0 <= v && v <= r.1)) {
            continue;
        }
        let seqs = if sloppy && rng.chance(1, 2) {
            gen_wild_ranges(rng, 10, 3, backward_ok)
        } else if rng.chance(1, 25) {
            vec![]
        } else {
            let mut s = gen_sorted_ranges(rng, 0, 12, 3, 4);
            if s.is_empty() {
                s.push((rng.range(0, 3), rng.range(3, 8)));
            }
            s
        };
        pm.insert(v, seqs);
    }
    if !need.is_empty() || rng.chance(1, 30) {
        st.need.insert(a, need);
    }
    if !pm.is_empty() {
        st.partial.insert(a, pm);
    }
}

impl Prop for C04 {
    fn id(&self) -> &'static str {
        "C04"
    }
    fn rule(&self) -> &'static str {
        "one case = one pair (our sync state, peer's advertised state) given to the real compute_available_needs; \
         non-trivial iff at least one need was produced; distinct by hash of the op line"
    }
    fn default_cases(&self, tier: Tier) -> usize {
        match tier {
            Tier::Quick => 20_000,
            Tier::Thorough => 300_000,
        }
    }
    fn enumerated_case(&self, tier: Tier, index: usize) -> Option<Vec<String>> {
        // exhaustive small scope: one foreign actor (2), peer head h <= H with every version held / needed / partial,
        // our side unknown or head h' <= H with every version held / needed / partial.  Our own actor (1) is always
        // among the peer's heads.
        let hmax: u64 = if tier == Tier::Thorough { 5 } else { 4 };
        let p: u64 = (0..=hmax).map(pow3).sum();
        let idx = index as u64;
        let (pi, oi) = (idx / (p + 1), idx % (p + 1));
        let peer_status = decode_status(pi, hmax)?;
        let mut us = St { actor: 1, ..Default::default() };
        let mut peer = St { actor: 9, ..Default::default() };
        peer.heads.insert(1, 3);
        if idx % 2 == 0 {
            us.heads.insert(1, 3);
        }
        state_from_status(&mut peer, 2, &peer_status, idx % 5);
        if oi > 0 {
            let our_status = decode_status(oi - 1, hmax)?;
            state_from_status(&mut us, 2, &our_status, 3 + idx % 3);
        }
        Some(vec![format!("can {} {}", enc_state(&us), enc_state(&peer))])
    }
    fn gen_case(&self, rng: &mut Rng, _tier: Tier, _index: usize) -> Vec<String> {
        let our_id = rng.range(1, 4);
        let mut peer_id = rng.range(1, 9);
        if peer_id == our_id {
            peer_id = 9 + our_id;
        }
        let mut us = St { actor: our_id, ..Default::default() };
        let mut peer = St { actor: peer_id, ..Default::default() };
        let sloppy_case = rng.chance(1, 12);
        let backward_ok = sloppy_case && rng.chance(1, 4);
        // actor universe: up to 4 ids out of 1..=6, our own id and the peer's among the candidates
        let mut ids: Vec<u64> = vec![1, 2, 3, 4, 5, 6, peer_id];
        ids.sort();
        ids.dedup();
        rng.shuffle(&mut ids);
        let n_act = rng.range(1, 4) as usize;
        let mut actors: Vec<u64> = ids.into_iter().take(n_act).collect();
        if rng.chance(1, 2) && !actors.contains(&our_id) {
            actors.pop();
            actors.push(our_id); // the peer advertises a head for versions we authored
        }
        for a in actors {
            let small_heads = rng.chance(1, 2);
            let hmax = if small_heads { 8 } else { 30 };
            let base = rng.range(0, hmax);
            let (known_us, known_peer) = match rng.below(8) {
                0 => (true, false),
                1 | 2 => (false, true),
                _ => (true, true),
            };
            let head_of = |rng: &mut Rng| -> u64 {
                match rng.below(12) {
                    0 => 0,
                    1..=4 => base,
                    5..=7 => (base + rng.range(0, 6)).min(30),
                    8..=9 => base.saturating_sub(rng.range(0, 6)),
                    _ => rng.range(0, 30),
                }
            };
            // versions that tend to be partial on both sides
            let pool: Vec<u64> = (0..rng.range(0, 3)).map(|_| rng.range(1, base.max(1))).collect();
            if known_us {
                let h = head_of(rng);
                let sloppy = sloppy_case && rng.chance(1, 2);
                gen_side(rng, &mut us, a, h, &pool, sloppy, backward_ok);
            }
            if known_peer {
                let h = head_of(rng);
                let sloppy = sloppy_case && rng.chance(1, 2);
                gen_side(rng, &mut peer, a, h, &pool, sloppy, backward_ok);
            }
        }
        vec![format!("can {} {}", enc_state(&us), enc_state(&peer))]
    }
    fn exec_case(&self, ops: &[String]) -> CaseResult {
        let mut r = CaseResult::default();
        for op in ops {
            let toks: Vec<&str> = op.split_whitespace().collect();
            match toks.first().copied() {
                Some("can") if toks.len() == 9 => {
                    let (out, nt, tags, fails) = exec_can(&toks);
                    r.outputs.push(out);
                    r.nontrivial |= nt;
                    r.tags.extend(tags);
                    r.oracle_failures.extend(fails);
                }
                _ => r.outputs.push("bad-op".into()),
            }
        }
        r
    }
}
