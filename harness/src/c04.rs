//! C04 — real `SyncStateV1::compute_available_needs` vs the Lean model `Corro.Needs`,
//! plus an independent set-based oracle for the property evaluated on the real output; and the REAL
//! `parallel_sync` (client side of a sync session: chunking, d-per-round draining, `req_full` /
//! `req_partials` de-duplication shared by all servers) run against fake peers vs `syncSession k d`
//! (k, d = 10, 10 as the code stands; regenerated from the source, see `sync_consts`).
//!
//! One op per case.
//!
//! `can <ourActor> <ourHeads> <ourNeed> <ourPartials> <peerActor> <peerHeads> <peerNeed> <peerPartials>`
//!   heads    `a:h;a:h`              (`-` = empty map)
//!   need     `a:lo-hi,lo-hi;a:…`    (`a:-` = empty list)
//!   partials `a:v=lo-hi,lo-hi/v=-;a:…`
//! Map keys strictly increasing (canonical form of a HashMap), else `bad-op`.
//! Output `a:F<lo>-<hi>,P<v>=<lo>-<hi>+…,…;a:…` — actors ascending, needs in the order the function
//! pushed them, the (HashMap-ordered) partial needs re-ordered by ascending version.
//! Actor `n` on the op line is `ActorId(Uuid::from_u128(n))`.
//!
//! `session <our state: 4 tokens> | <mode> <peer state: 4 tokens> | <mode> <peer state> …`   (1..=4 peers)
//!   mode `ok`      the fake peer answers the handshake with `State(<peer state>)` + `Clock`
//!        `close`   it ends the stream right after the client's start payload (client: UnexpectedEndOfStream)
//!        `reject`  it answers `Rejection(MaxConcurrencyReached)`
//!        `silent`  it never answers (the client gives up after its 2 s handshake timeout)
//!   Actor ids of us and all peers pairwise distinct, else `bad-op`.
//! The client is a REAL `Agent` + REAL `Transport` (`klukai_agent::agent::setup`, plaintext QUIC on
//! 127.0.0.1); the real `parallel_sync(agent, transport, members, our_sync_state)` is called with the parsed
//! "our state".  Every peer is a fake server of this harness on a real quinn endpoint made by the real
//! `gossip_server_endpoint`: it reads `BiPayload::V1{SyncStart}` and the client's `Clock`, answers as its mode
//! says, RECORDS every `SyncMessageV1::Request` until the client finishes the stream, then finishes its own
//! side without sending a single change.
//!
//! What fixes the order (so that the op line determines the output):
//!  * `parallel_sync` orders its servers by handshake COMPLETION (`FuturesUnordered`).  The client increments the
//!    counter `corro.sync.client.member{id}` synchronously in the very poll in which a handshake future
//!    completes; the harness' `metrics` recorder releases the next fake server (in `members` order) only then,
//!    so completion order = `members` order by causality, not by timing.  The recorded order is verified.
//!  * the order of the Partial needs of one actor is the iteration order of OUR inner
//!    `HashMap<CrsqlDbVersion, _>`: the harness rebuilds that map until it iterates by ascending version (the
//!    order of the model's association list).
//!  * the global order of the requests over all servers is read off the client's own counter
//!    `corro.sync.client.req.sent{actor_id}` (one increment per encoded Request, value = number of needs),
//!    matched against the per-server arrival order.
//!  * NOT controllable: the order of the ACTORS in one server's queue (`HashMap<ActorId, _>` built inside
//!    `compute_available_needs`).  Output forms, chosen by the same rule on both sides from the computed needs:
//!      `seq <srv>><actor>:<need>,…`       no server has needs for 2+ actors: the whole session in sending order;
//!      `act <srv>[<a>:<need>,…;<a>:…]|…`  every server with 2+ actors has at most d queued items (it is drained
//!                                         in its first turn, so per actor everything is still determined):
//!                                         per server (members order), per actor ascending, in arrival order;
//!      `set <a>:F<lo>-<hi>,…,P<v>=<seqs>,…;…` otherwise: only the order-independent facts — per actor the
//!                                         union of all Full requests and, per version, of all requested seqs.
//!    `err handshake` when no peer completed the handshake, `err backward-range` as for `can`.
//! The order-independent ORACLE (no duplicates / union = computed needs / per server only what was computed for
//! it / block size) runs on the real messages of every session in all three forms.
use std::collections::{BTreeMap, BTreeSet, HashMap};
use std::net::SocketAddr;
use std::sync::atomic::{AtomicUsize, Ordering};
use std::sync::{Arc, Mutex, OnceLock};
use std::time::Duration;

use bytes::{Bytes, BytesMut};
use futures::StreamExt;
use klukai_agent::agent::{AgentOptions, setup};
use klukai_agent::api::peer::verif_hooks::chunk_range_versions;
use klukai_agent::api::peer::{gossip_server_endpoint, parallel_sync};
use klukai_agent::transport::Transport;
use klukai_types::actor::ActorId;
use klukai_types::agent::Agent;
use klukai_types::base::{CrsqlDbVersion, CrsqlSeq};
use klukai_types::broadcast::{BiPayload, BiPayloadV1, Timestamp};
use klukai_types::config::{Config, DEFAULT_GOSSIP_CLIENT_ADDR, GossipConfig};
use klukai_types::sync::{SyncMessage, SyncMessageV1, SyncNeedV1, SyncRejectionV1, SyncStateV1};
use klukai_types::tripwire::Tripwire;
use speedy::{Readable, Writable};
use tokio::io::AsyncWriteExt;
use tokio_util::codec::{Encoder, FramedRead, LengthDelimitedCodec};

use crate::rng::Rng;
use crate::runner::{CaseResult, Prop, Tier};
use crate::util::*;

pub struct C04;

type Ranges = Vec<(u64, u64)>;

#[derive(Clone, Default, Debug)]
struct St {
    actor: u64,
    heads: BTreeMap<u64, u64>,
    need: BTreeMap<u64, Ranges>,
    partial: BTreeMap<u64, BTreeMap<u64, Ranges>>,
}

fn aid(n: u64) -> ActorId {
    ActorId(uuid::Uuid::from_u128(n as u128))
}

fn unaid(a: &ActorId) -> u64 {
    a.0.as_u128() as u64
}

// ---------------------------------------------------------------- encoding / parsing

fn enc_state(s: &St) -> String {
    let heads: Vec<String> = s.heads.iter().map(|(a, h)| format!("{a}:{h}")).collect();
    let need: Vec<String> = s.need.iter().map(|(a, rs)| format!("{a}:{}", show_ranges(rs))).collect();
    let partial: Vec<String> = s
        .partial
        .iter()
        .map(|(a, pm)| {
            let vs: Vec<String> = pm.iter().map(|(v, rs)| format!("{v}={}", show_ranges(rs))).collect();
            format!("{a}:{}", show_list(&vs, "/"))
        })
        .collect();
    format!("{} {} {} {}", s.actor, show_list(&heads, ";"), show_list(&need, ";"), show_list(&partial, ";"))
}

fn split_top<'a>(s: &'a str, sep: char) -> Vec<&'a str> {
    if s == "-" || s.is_empty() { vec![] } else { s.split(sep).collect() }
}

fn kv<'a>(s: &'a str, sep: char) -> Option<(&'a str, &'a str)> {
    let mut it = s.split(sep);
    let a = it.next()?;
    let b = it.next()?;
    if it.next().is_some() {
        return None;
    }
    Some((a, b))
}

fn nat(s: &str) -> Option<u64> {
    if s.is_empty() || !s.bytes().all(|b| b.is_ascii_digit()) {
        return None;
    }
    s.parse().ok()
}

fn ranges(s: &str) -> Option<Ranges> {
    split_top(s, ',')
        .into_iter()
        .map(|r| {
            let (a, b) = kv(r, '-')?;
            Some((nat(a)?, nat(b)?))
        })
        .collect()
}

/// inserts with strictly increasing keys only
fn push_sorted<V>(m: &mut BTreeMap<u64, V>, k: u64, v: V) -> Option<()> {
    if let Some((last, _)) = m.iter().next_back() {
        if *last >= k {
            return None;
        }
    }
    m.insert(k, v);
    Some(())
}

fn parse_state(a: &str, h: &str, n: &str, p: &str) -> Option<St> {
    let mut st = St { actor: nat(a)?, ..Default::default() };
    for e in split_top(h, ';') {
        let (k, v) = kv(e, ':')?;
        push_sorted(&mut st.heads, nat(k)?, nat(v)?)?;
    }
    for e in split_top(n, ';') {
        let (k, v) = kv(e, ':')?;
        push_sorted(&mut st.need, nat(k)?, ranges(v)?)?;
    }
    for e in split_top(p, ';') {
        let (k, vs) = kv(e, ':')?;
        let mut pm = BTreeMap::new();
        for ve in split_top(vs, '/') {
            let (v, rs) = kv(ve, '=')?;
            push_sorted(&mut pm, nat(v)?, ranges(rs)?)?;
        }
        push_sorted(&mut st.partial, nat(k)?, pm)?;
    }
    Some(st)
}

fn all_forward(s: &St) -> bool {
    s.need.values().all(|rs| rs.iter().all(|r| r.0 <= r.1))
        && s.partial.values().all(|pm| pm.values().all(|rs| rs.iter().all(|r| r.0 <= r.1)))
}

fn build(s: &St) -> SyncStateV1 {
    SyncStateV1 {
        actor_id: aid(s.actor),
        heads: s.heads.iter().map(|(a, h)| (aid(*a), CrsqlDbVersion(*h))).collect(),
        need: s
            .need
            .iter()
            .map(|(a, rs)| (aid(*a), rs.iter().map(|r| CrsqlDbVersion(r.0)..=CrsqlDbVersion(r.1)).collect()))
            .collect(),
        partial_need: s
            .partial
            .iter()
            .map(|(a, pm)| {
                (
                    aid(*a),
                    pm.iter()
                        .map(|(v, rs)| (CrsqlDbVersion(*v), rs.iter().map(|r| CrsqlSeq(r.0)..=CrsqlSeq(r.1)).collect()))
                        .collect::<HashMap<_, _>>(),
                )
            })
            .collect(),
        last_cleared_ts: None,
    }
}

// ---------------------------------------------------------------- canonical output

#[derive(Clone, Debug, PartialEq)]
enum N {
    Full(u64, u64),
    Part(u64, Ranges),
    Other,
}

fn to_n(n: SyncNeedV1) -> N {
    match n {
        SyncNeedV1::Full { versions } => N::Full(versions.start().0, versions.end().0),
        SyncNeedV1::Partial { version, seqs } => N::Part(version.0, seqs.iter().map(|r| (r.start().0, r.end().0)).collect()),
        _ => N::Other,
    }
}

fn show_n(n: &N) -> String {
    match n {
        N::Full(lo, hi) => format!("F{lo}-{hi}"),
        N::Part(v, rs) => format!("P{v}={}", rs.iter().map(|r| show_range(*r)).collect::<Vec<_>>().join("+")),
        N::Other => "E".to_string(),
    }
}

fn canon(out: HashMap<ActorId, Vec<SyncNeedV1>>) -> BTreeMap<u64, Vec<N>> {
    let mut m = BTreeMap::new();
    for (a, ns) in out {
        let mut v: Vec<N> = ns.into_iter().map(to_n).collect();
        // the partial needs come out in HashMap order: sort them among themselves, in place
        let idx: Vec<usize> = v.iter().enumerate().filter(|(_, n)| matches!(n, N::Part(..))).map(|(i, _)| i).collect();
        let mut parts: Vec<N> = idx.iter().map(|i| v[*i].clone()).collect();
        parts.sort_by_key(|n| match n {
            N::Part(ver, rs) => (*ver, rs.clone()),
            _ => (0, vec![]),
        });
        for (i, p) in idx.iter().zip(parts) {
            v[*i] = p;
        }
        m.insert(unaid(&a), v);
    }
    m
}

fn show_out(m: &BTreeMap<u64, Vec<N>>) -> String {
    let es: Vec<String> = m
        .iter()
        .map(|(a, ns)| {
            let ns: Vec<String> = ns.iter().map(show_n).collect();
            format!("{a}:{}", ns.join(","))
        })
        .collect();
    show_list(&es, ";")
}

// ---------------------------------------------------------------- oracle (independent of the model)

const ORACLE_MAX: u64 = 4096;

/// the property's quantifier: well-formed advertised states
fn wf(s: &St) -> bool {
    for (a, rs) in &s.need {
        let Some(h) = s.heads.get(a) else { return false };
        if !rs.iter().all(|r| 1 <= r.0 && r.0 <= r.1 && r.1 <= *h) {
            return false;
        }
    }
    for (a, pm) in &s.partial {
        let Some(h) = s.heads.get(a) else { return false };
        let need = s.need.get(a).cloned().unwrap_or_default();
        for (v, rs) in pm {
            if *v < 1 || v > h || need.iter().any(|r| r.0 <= *v && *v <= r.1) {
                return false;
            }
            if !rs.iter().all(|r| r.0 <= r.1) {
                return false;
            }
        }
    }
    true
}

fn small(s: &St) -> bool {
    s.heads.values().all(|h| *h <= ORACLE_MAX)
        && s.need.values().all(|rs| rs.iter().all(|r| r.1 <= ORACLE_MAX))
        && s.partial.values().all(|pm| pm.iter().all(|(v, rs)| *v <= ORACLE_MAX && rs.iter().all(|r| r.1 <= ORACLE_MAX)))
}

fn points(rs: &[(u64, u64)]) -> BTreeSet<u64> {
    let mut s = BTreeSet::new();
    for r in rs {
        if r.0 <= r.1 {
            for x in r.0..=r.1 {
                s.insert(x);
            }
        }
    }
    s
}

fn oracle(us: &St, peer: &St, out: &BTreeMap<u64, Vec<N>>, tags: &mut Vec<String>) -> Vec<String> {
    let mut fails = vec![];
    let empty_r: Ranges = vec![];
    let empty_p: BTreeMap<u64, Ranges> = BTreeMap::new();
    for a in out.keys() {
        if *a == us.actor {
            fails.push(format!("requests for our own actor {a}"));
        }
        if !peer.heads.contains_key(a) {
            fails.push(format!("requests for actor {a} which the peer does not advertise"));
        }
    }
    for (a, head) in &peer.heads {
        if *a == us.actor {
            tags.push("own-actor-in-peer-heads".into());
            continue;
        }
        let reqs = out.get(a).cloned().unwrap_or_default();
        if out.contains_key(a) && reqs.is_empty() {
            fails.push(format!("actor {a}: empty request list"));
        }
        if *head == 0 {
            tags.push("peer-head-0".into());
        }
        let our_head = us.heads.get(a).copied();
        if our_head.is_none() {
            tags.push("actor-unknown-to-us".into());
        }
        let our_need = points(us.need.get(a).unwrap_or(&empty_r));
        let peer_need = points(peer.need.get(a).unwrap_or(&empty_r));
        let our_part = us.partial.get(a).unwrap_or(&empty_p);
        let peer_part = peer.partial.get(a).unwrap_or(&empty_p);
        let held = |v: u64| 1 <= v && v <= *head && !peer_need.contains(&v) && !peer_part.contains_key(&v);
        let lack = |v: u64| our_need.contains(&v) || our_head.map(|h| v > h).unwrap_or(true);

        // what was requested
        let mut req_full: BTreeSet<u64> = BTreeSet::new();
        let mut req_part: BTreeMap<u64, BTreeSet<u64>> = BTreeMap::new();
        for n in &reqs {
            match n {
                N::Full(lo, hi) => {
                    if !(1 <= *lo && lo <= hi && hi <= head) {
                        fails.push(format!("actor {a}: Full {lo}-{hi} is not a forward range within 1..={head} (peer's head)"));
                    }
                    for x in *lo..=(*hi).min(ORACLE_MAX) {
                        req_full.insert(x);
                    }
                }
                N::Part(v, rs) => {
                    if !(1 <= *v && v <= head) {
                        fails.push(format!("actor {a}: Partial version {v} beyond the peer's head {head}"));
                    }
                    if rs.iter().any(|r| r.0 > r.1) {
                        fails.push(format!("actor {a}: Partial version {v} has a backward seq range"));
                    }
                    if req_part.insert(*v, points(rs)).is_some() {
                        fails.push(format!("actor {a}: two Partial needs for version {v}"));
                    }
                }
                N::Other => fails.push(format!("actor {a}: unexpected need kind")),
            }
        }
        // Full: complete and nothing we already have
        for v in 1..=*head {
            if held(v) && lack(v) && !req_full.contains(&v) {
                fails.push(format!("actor {a}: version {v} is held by the peer and lacked by us but not requested"));
                break;
            }
        }
        for v in &req_full {
            if !lack(*v) {
                fails.push(format!("actor {a}: version {v} requested although we do not lack it"));
                break;
            }
        }
        // Partial: complete, inside our gaps, inside what the peer can give
        for (v, seqs) in our_part {
            let ours = points(seqs);
            let want: BTreeSet<u64> = if held(*v) {
                tags.push("partial-vs-full".into());
                ours.clone()
            } else if let Some(ps) = peer_part.get(v) {
                tags.push("partial-vs-partial".into());
                let theirs = points(ps);
                ours.difference(&theirs).copied().collect()
            } else {
                BTreeSet::new()
            };
            let got = req_part.get(v).cloned().unwrap_or_default();
            if let Some(s) = want.difference(&got).next() {
                fails.push(format!("actor {a}: seq {s} of partial version {v} is available from the peer and missing here but not requested"));
            }
        }
        for (v, got) in &req_part {
            match our_part.get(v) {
                None => fails.push(format!("actor {a}: Partial request for version {v} which is not a partial of ours")),
                Some(seqs) => {
                    let ours = points(seqs);
                    if let Some(s) = got.difference(&ours).next() {
                        fails.push(format!("actor {a}: seq {s} of version {v} requested although we do not miss it"));
                    }
                }
            }
            if !held(*v) {
                match peer_part.get(v) {
                    None => fails.push(format!("actor {a}: Partial request for version {v} which the peer does not advertise at all")),
                    Some(ps) => {
                        let theirs = points(ps);
                        if let Some(s) = got.intersection(&theirs).next() {
                            fails.push(format!("actor {a}: seq {s} of version {v} requested although the peer misses it too"));
                        }
                    }
                }
            }
        }
        if reqs.iter().any(|n| matches!(n, N::Full(..))) {
            if !our_need.is_empty() && reqs.iter().filter(|n| matches!(n, N::Full(..))).count() > 1 {
                tags.push("several-full".into());
            }
        }
    }
    fails
}

fn exec_can(toks: &[&str]) -> (String, bool, Vec<String>, Vec<String>) {
    let (Some(us), Some(peer)) = (parse_state(toks[1], toks[2], toks[3], toks[4]), parse_state(toks[5], toks[6], toks[7], toks[8]))
    else {
        return ("bad-op".into(), false, vec![], vec![]);
    };
    let (rus, rpeer) = (build(&us), build(&peer));
    if !(all_forward(&us) && all_forward(&peer)) {
        // outside the quantifier: rangemap asserts start <= end.  Run the real code anyway to record what it does.
        let r = std::panic::catch_unwind(std::panic::AssertUnwindSafe(|| rus.compute_available_needs(&rpeer)));
        let tag = if r.is_err() { "backward-range:real-code-panics" } else { "backward-range:real-code-returns" };
        return ("err backward-range".into(), false, vec![tag.into()], vec![]);
    }
    let out = canon(rus.compute_available_needs(&rpeer));
    let mut tags = vec![];
    let mut fails = vec![];
    if wf(&us) && wf(&peer) && small(&us) && small(&peer) {
        tags.push("well-formed".into());
        fails = oracle(&us, &peer, &out, &mut tags);
    } else {
        tags.push("not-well-formed(oracle-skipped)".into());
    }
    let n_needs: usize = out.values().map(|v| v.len()).sum();
    if out.values().any(|v| v.iter().any(|n| matches!(n, N::Full(..)))) {
        tags.push("out:some-Full".into());
    }
    if out.values().any(|v| v.iter().any(|n| matches!(n, N::Part(..)))) {
        tags.push("out:some-Partial".into());
    }
    if out.len() >= 2 {
        tags.push("out:several-actors".into());
    }
    tags.push(format!("needs:{}", n_needs.min(8)));
    tags.sort();
    tags.dedup();
    (show_out(&out), n_needs > 0, tags, fails)
}

// ---------------------------------------------------------------- generators

const SEQ_PATTERNS: [&[(u64, u64)]; 8] =
    [&[(0, 0)], &[(0, 2)], &[(1, 1), (3, 4)], &[(0, 1), (3, 3), (6, 6)], &[(2, 5)], &[(0, 6)], &[(4, 4)], &[]];

/// status per version 1..=h: 0 held, 1 needed, 2 partial
fn state_from_status(st: &mut St, a: u64, status: &[u8], salt: u64) {
    let h = status.len() as u64;
    st.heads.insert(a, h);
    let mut need: Ranges = vec![];
    let mut pm = BTreeMap::new();
    for (i, s) in status.iter().enumerate() {
        let v = i as u64 + 1;
        match s {
            1 => match need.last_mut() {
                Some(r) if r.1 + 1 == v => r.1 = v,
                _ => need.push((v, v)),
            },
            2 => {
                let p = SEQ_PATTERNS[((v * 7 + h + salt) % SEQ_PATTERNS.len() as u64) as usize];
                pm.insert(v, p.to_vec());
            }
            _ => {}
        }
    }
    if !need.is_empty() {
        st.need.insert(a, need);
    }
    if !pm.is_empty() {
        st.partial.insert(a, pm);
    }
}

fn pow3(n: u64) -> u64 {
    3u64.pow(n as u32)
}

/// index → (h, base-3 digits of length h), enumerating h = 0..=hmax
fn decode_status(mut idx: u64, hmax: u64) -> Option<Vec<u8>> {
    for h in 0..=hmax {
        let n = pow3(h);
        if idx < n {
            let mut d = vec![];
            for _ in 0..h {
                d.push((idx % 3) as u8);
                idx /= 3;
            }
            return Some(d);
        }
        idx -= n;
    }
    None
}

fn gen_sorted_ranges(rng: &mut Rng, lo: u64, hi: u64, max_n: u64, max_len: u64) -> Ranges {
    // up to max_n disjoint, non-adjacent forward ranges inside lo..=hi, ascending
    let mut out = vec![];
    if hi < lo {
        return out;
    }
    let n = rng.range(0, max_n);
    let mut cur = lo + rng.range(0, 3);
    for _ in 0..n {
        if cur > hi {
            break;
        }
        let end = (cur + rng.range(0, max_len)).min(hi);
        out.push((cur, end));
        cur = end + 2 + rng.range(0, 4);
    }
    out
}

fn gen_wild_ranges(rng: &mut Rng, hi: u64, max_n: u64, backward_ok: bool) -> Ranges {
    let n = rng.range(0, max_n);
    (0..n)
        .map(|_| {
            let a = rng.range(0, hi + 3);
            let b = if backward_ok && rng.chance(1, 6) { a.saturating_sub(rng.range(1, 3)) } else { a + rng.range(0, 6) };
            (a, b)
        })
        .collect()
}

fn gen_side(rng: &mut Rng, st: &mut St, a: u64, head: u64, pool: &[u64], sloppy: bool, backward_ok: bool) {
    st.heads.insert(a, head);
    let need = if sloppy { gen_wild_ranges(rng, head, 3, backward_ok) } else { gen_sorted_ranges(rng, 1, head, 3, 6) };
    let mut pm: BTreeMap<u64, Ranges> = BTreeMap::new();
    let mut cands: Vec<u64> = pool.to_vec();
    if rng.chance(1, 3) {
        cands.push(rng.range(1, head.max(1)));
    }
    for v in cands {
        if pm.len() >= 3 || !rng.chance(3, 5) {
            continue;
        }
        if !sloppy && (v < 1 || v > head || need.iter().any(|r| r.0 <= v && v <= r.1)) {
            continue;
        }
        let seqs = if sloppy && rng.chance(1, 2) {
            gen_wild_ranges(rng, 10, 3, backward_ok)
        } else if rng.chance(1, 25) {
            vec![]
        } else {
            let mut s = gen_sorted_ranges(rng, 0, 12, 3, 4);
            if s.is_empty() {
                s.push((rng.range(0, 3), rng.range(3, 8)));
            }
            s
        };
        pm.insert(v, seqs);
    }
    if !need.is_empty() || rng.chance(1, 30) {
        st.need.insert(a, need);
    }
    if !pm.is_empty() {
        st.partial.insert(a, pm);
    }
}

// ================================================================ sessions: the real `parallel_sync`

/// The two tuning constants of the request-sending task of `parallel_sync`, as `tools/extract_c04.py`
/// reads them off peer/mod.rs at the start of every check (the same generated file the Lean driver
/// imports).  The REAL session uses whatever the code has; these copies only feed the form rule, the
/// block-size oracle and the distribution tags, so a wrong extraction shows up as a diff / oracle failure.
fn sync_consts() -> (usize, usize) {
    static C: std::sync::OnceLock<(usize, usize)> = std::sync::OnceLock::new();
    *C.get_or_init(|| {
        let text = std::fs::read_to_string("/verif/lean/Corro/Gen/SyncConsts.lean").expect("Gen/SyncConsts.lean");
        let get = |name: &str| -> usize {
            let pat = format!("def {name} : Nat := ");
            let at = text.find(&pat).unwrap_or_else(|| panic!("{name} missing in SyncConsts.lean"));
            text[at + pat.len()..].split_whitespace().next().unwrap().parse().expect("number")
        };
        (get("syncChunkSize"), get("syncDrainPerRound"))
    })
}
/// `k` of `chunk_range(versions, k)` in `parallel_sync` (10 as the code stands)
fn chunk_k() -> usize {
    sync_consts().0
}
/// `d` of `while drained < d` (10 as the code stands)
fn drain_d() -> usize {
    sync_consts().1
}
const MAX_PEERS: usize = 4;

#[derive(Clone, Copy, PartialEq, Eq, Debug)]
enum Mode {
    Ok,
    Close,
    Reject,
    Silent,
}

fn mode_name(m: Mode) -> &'static str {
    match m {
        Mode::Ok => "ok",
        Mode::Close => "close",
        Mode::Reject => "reject",
        Mode::Silent => "silent",
    }
}

fn enc_session(us: &St, peers: &[(Mode, St)]) -> String {
    let mut s = format!("session {}", enc_state(us));
    for (m, p) in peers {
        s.push_str(&format!(" | {} {}", mode_name(*m), enc_state(p)));
    }
    s
}

fn parse_session(toks: &[&str]) -> Option<(St, Vec<(Mode, St)>)> {
    if toks.len() < 11 || (toks.len() - 5) % 6 != 0 {
        return None;
    }
    let n = (toks.len() - 5) / 6;
    if n > MAX_PEERS {
        return None;
    }
    let us = parse_state(toks[1], toks[2], toks[3], toks[4])?;
    let mut peers = vec![];
    for i in 0..n {
        let b = 5 + 6 * i;
        if toks[b] != "|" {
            return None;
        }
        let mode = match toks[b + 1] {
            "ok" => Mode::Ok,
            "close" => Mode::Close,
            "reject" => Mode::Reject,
            "silent" => Mode::Silent,
            _ => return None,
        };
        peers.push((mode, parse_state(toks[b + 2], toks[b + 3], toks[b + 4], toks[b + 5])?));
    }
    let mut ids: Vec<u64> = peers.iter().map(|p| p.1.actor).collect();
    ids.push(us.actor);
    ids.sort();
    if ids.windows(2).any(|w| w[0] == w[1]) {
        return None;
    }
    Some((us, peers))
}

/// our real state, with every inner partial map rebuilt until it ITERATES by ascending version (each rebuild
/// gets a fresh `RandomState`); `None` if that did not happen within the budget
fn build_ordered(s: &St) -> Option<SyncStateV1> {
    let mut st = build(s);
    for (a, pm) in &s.partial {
        if pm.len() < 2 {
            continue;
        }
        let mut found = false;
        for _ in 0..3_000_000u32 {
            let m: HashMap<CrsqlDbVersion, Vec<std::ops::RangeInclusive<CrsqlSeq>>> =
                pm.iter().map(|(v, rs)| (CrsqlDbVersion(*v), rs.iter().map(|r| CrsqlSeq(r.0)..=CrsqlSeq(r.1)).collect())).collect();
            let ks: Vec<u64> = m.keys().map(|k| k.0).collect();
            if ks.windows(2).all(|w| w[0] < w[1]) {
                st.partial_need.insert(aid(*a), m);
                found = true;
                break;
            }
        }
        if !found {
            return None;
        }
    }
    // the insertions above do not touch the inner tables, but be sure
    for (a, pm) in &st.partial_need {
        let ks: Vec<u64> = pm.keys().map(|k| k.0).collect();
        if !ks.windows(2).all(|w| w[0] < w[1]) {
            let _ = a;
            return None;
        }
    }
    Some(st)
}

// ---------------------------------------------------------------- what the client's own counters tell

#[derive(Clone, Debug, PartialEq)]
enum Ev {
    /// `corro.sync.client.member{id}`: this server's handshake future is completing right now
    Member(String),
    /// `corro.sync.client.handshake.errors{actor_id}`
    HsErr(String),
    /// `corro.sync.client.req.sent{actor_id}` += n: one Request with n needs was encoded for this server
    Sent(String, u64),
}

type Msg = Vec<(u64, Vec<N>)>;

struct Sess {
    /// number of live servers (in members order) whose handshake the client has completed
    gate: tokio::sync::watch::Sender<usize>,
    /// `ActorId` strings of the `ok` peers, members order
    live_ids: Vec<String>,
    events: Mutex<Vec<Ev>>,
    /// per peer: the Request messages in arrival order
    recv: Vec<Mutex<Vec<Msg>>>,
    /// per peer: bi streams opened by the client
    streams: Vec<AtomicUsize>,
    /// things a fake server saw that the real client should never do (→ oracle failures)
    anomalies: Mutex<Vec<String>>,
    /// things that make the run undecidable (→ retry / inconclusive)
    hiccups: Mutex<Vec<String>>,
    done: tokio::sync::Semaphore,
}

fn cur() -> &'static Mutex<Option<Arc<Sess>>> {
    static CUR: OnceLock<Mutex<Option<Arc<Sess>>>> = OnceLock::new();
    CUR.get_or_init(|| Mutex::new(None))
}

fn cur_sess() -> Option<Arc<Sess>> {
    cur().lock().unwrap().clone()
}

struct SentCounter(String);
impl metrics::CounterFn for SentCounter {
    fn increment(&self, v: u64) {
        if let Some(s) = cur_sess() {
            s.events.lock().unwrap().push(Ev::Sent(self.0.clone(), v));
        }
    }
    fn absolute(&self, _v: u64) {}
}

struct Rec;
fn label<'a>(key: &'a metrics::Key, name: &str) -> Option<&'a str> {
    key.labels().find(|l| l.key() == name).map(|l| l.value())
}
impl metrics::Recorder for Rec {
    fn describe_counter(&self, _: metrics::KeyName, _: Option<metrics::Unit>, _: metrics::SharedString) {}
    fn describe_gauge(&self, _: metrics::KeyName, _: Option<metrics::Unit>, _: metrics::SharedString) {}
    fn describe_histogram(&self, _: metrics::KeyName, _: Option<metrics::Unit>, _: metrics::SharedString) {}
    fn register_counter(&self, key: &metrics::Key, _: &metrics::Metadata<'_>) -> metrics::Counter {
        match key.name() {
            "corro.sync.client.member" => {
                if let (Some(id), Some(s)) = (label(key, "id"), cur_sess()) {
                    s.events.lock().unwrap().push(Ev::Member(id.to_string()));
                    if let Some(p) = s.live_ids.iter().position(|x| x == id) {
                        // the future of live server p is in its last poll: let server p + 1 answer
                        s.gate.send_modify(|g| {
                            if *g < p + 1 {
                                *g = p + 1
                            }
                        });
                    }
                }
                metrics::Counter::noop()
            }
            "corro.sync.client.handshake.errors" => {
                if let (Some(id), Some(s)) = (label(key, "actor_id"), cur_sess()) {
                    s.events.lock().unwrap().push(Ev::HsErr(id.to_string()));
                }
                metrics::Counter::noop()
            }
            "corro.sync.client.req.sent" => match label(key, "actor_id") {
                Some(id) => metrics::Counter::from_arc(Arc::new(SentCounter(id.to_string()))),
                None => metrics::Counter::noop(),
            },
            _ => metrics::Counter::noop(),
        }
    }
    fn register_gauge(&self, _: &metrics::Key, _: &metrics::Metadata<'_>) -> metrics::Gauge {
        metrics::Gauge::noop()
    }
    fn register_histogram(&self, _: &metrics::Key, _: &metrics::Metadata<'_>) -> metrics::Histogram {
        metrics::Histogram::noop()
    }
}

// ---------------------------------------------------------------- the fake peers

#[derive(Clone)]
struct SlotCfg {
    idx: usize,
    mode: Mode,
    state: SyncStateV1,
    /// position among the `ok` peers
    live_pos: usize,
    sess: Arc<Sess>,
}

type Slot = Arc<Mutex<Option<SlotCfg>>>;

fn codec() -> LengthDelimitedCodec {
    LengthDelimitedCodec::builder().max_frame_length(100 * 1_024 * 1_024).new_codec()
}

fn frame(msg: &SyncMessage, out: &mut BytesMut) -> Result<(), String> {
    let v = msg.write_to_vec().map_err(|e| format!("encode: {e}"))?;
    codec().encode(Bytes::from(v), out).map_err(|e| format!("frame: {e}"))
}

async fn drain(framed: &mut FramedRead<quinn::RecvStream, LengthDelimitedCodec>) {
    // until the client finishes / drops its side; bounded so that a stuck stream cannot hold the run
    let _ = tokio::time::timeout(Duration::from_secs(20), async {
        while let Some(r) = framed.next().await {
            if r.is_err() {
                break;
            }
        }
    })
    .await;
}

async fn serve(cfg: &SlotCfg, clock: Timestamp, tx: &mut quinn::SendStream, rx: quinn::RecvStream) -> Result<(), String> {
    let sess = &cfg.sess;
    let mut framed = FramedRead::new(rx, codec());
    // the start payload
    match tokio::time::timeout(Duration::from_secs(10), framed.next()).await {
        Ok(Some(Ok(b))) => match BiPayload::read_from_buffer(&b) {
            Ok(BiPayload::V1 { data: BiPayloadV1::SyncStart { .. }, .. }) => {}
            Err(e) => return Err(format!("first frame is not a BiPayload: {e}")),
        },
        Ok(Some(Err(e))) => return Err(format!("reading the start payload: {e}")),
        Ok(None) => return Err("stream ended before the start payload".into()),
        Err(_) => {
            sess.hiccups.lock().unwrap().push(format!("server {}: no start payload within 10 s", cfg.idx));
            return Ok(());
        }
    }
    // the client's clock
    match tokio::time::timeout(Duration::from_secs(10), framed.next()).await {
        Ok(Some(Ok(mut b))) => match SyncMessage::from_buf(&mut b) {
            Ok(SyncMessage::V1(SyncMessageV1::Clock(_))) => {}
            Ok(_) => return Err("second frame is not a Clock".into()),
            Err(e) => return Err(format!("second frame does not decode: {e}")),
        },
        Ok(Some(Err(e))) => return Err(format!("reading the client's clock: {e}")),
        Ok(None) => return Err("stream ended before the client's clock".into()),
        Err(_) => {
            sess.hiccups.lock().unwrap().push(format!("server {}: no clock within 10 s", cfg.idx));
            return Ok(());
        }
    }
    match cfg.mode {
        Mode::Silent => {
            drain(&mut framed).await;
            Ok(())
        }
        Mode::Close => {
            let _ = tx.finish();
            drain(&mut framed).await;
            Ok(())
        }
        Mode::Reject => {
            let mut out = BytesMut::new();
            frame(&SyncMessage::V1(SyncMessageV1::Rejection(SyncRejectionV1::MaxConcurrencyReached)), &mut out)?;
            let _ = tx.write_all(&out).await;
            let _ = tx.finish();
            drain(&mut framed).await;
            Ok(())
        }
        Mode::Ok => {
            // answer only when the client has completed the handshakes of all live servers before this one
            let mut gate = sess.gate.subscribe();
            let pos = cfg.live_pos;
            match tokio::time::timeout(Duration::from_secs(10), gate.wait_for(|g| *g >= pos)).await {
                Ok(Ok(_)) => {}
                _ => {
                    sess.hiccups.lock().unwrap().push(format!("server {}: not released within 10 s", cfg.idx));
                    return Ok(());
                }
            }
            let mut out = BytesMut::new();
            frame(&SyncMessage::V1(SyncMessageV1::State(cfg.state.clone())), &mut out)?;
            frame(&SyncMessage::V1(SyncMessageV1::Clock(clock)), &mut out)?;
            if let Err(e) = tx.write_all(&out).await {
                sess.hiccups.lock().unwrap().push(format!("server {}: could not write state: {e}", cfg.idx));
                return Ok(());
            }
            let _ = tx.flush().await;
            // record every request until the client finishes its side
            loop {
                match tokio::time::timeout(Duration::from_secs(20), framed.next()).await {
                    Err(_) => {
                        sess.hiccups.lock().unwrap().push(format!("server {}: client did not finish the stream within 20 s", cfg.idx));
                        return Ok(());
                    }
                    Ok(None) => return Ok(()),
                    Ok(Some(Err(e))) => {
                        // also what a client that drops the stream without finishing looks like
                        sess.hiccups.lock().unwrap().push(format!("server {}: read error {e}", cfg.idx));
                        return Ok(());
                    }
                    Ok(Some(Ok(mut b))) => match SyncMessage::from_buf(&mut b) {
                        Ok(SyncMessage::V1(SyncMessageV1::Request(req))) => {
                            let m: Msg = req.into_iter().map(|(a, ns)| (unaid(&a), ns.into_iter().map(to_n).collect())).collect();
                            sess.recv[cfg.idx].lock().unwrap().push(m);
                        }
                        Ok(_) => return Err("a frame after the handshake is not a Request".into()),
                        Err(e) => return Err(format!("a frame after the handshake does not decode: {e}")),
                    },
                }
            }
        }
    }
}

async fn handle_stream(slot: Slot, clock: Arc<uhlc::HLC>, mut tx: quinn::SendStream, rx: quinn::RecvStream) {
    let cfg = slot.lock().unwrap().clone();
    let Some(cfg) = cfg else {
        let _ = tx.finish();
        return;
    };
    cfg.sess.streams[cfg.idx].fetch_add(1, Ordering::SeqCst);
    let ts = Timestamp::from(clock.new_timestamp());
    if let Err(e) = serve(&cfg, ts, &mut tx, rx).await {
        cfg.sess.anomalies.lock().unwrap().push(format!("server {}: {e}", cfg.idx));
    }
    let _ = tx.finish();
    cfg.sess.done.add_permits(1);
}

async fn accept_loop(ep: quinn::Endpoint, slot: Slot, clock: Arc<uhlc::HLC>) {
    while let Some(incoming) = ep.accept().await {
        let (slot, clock) = (slot.clone(), clock.clone());
        tokio::spawn(async move {
            let Ok(conn) = incoming.await else { return };
            while let Ok((tx, rx)) = conn.accept_bi().await {
                tokio::spawn(handle_stream(slot.clone(), clock.clone(), tx, rx));
            }
        });
    }
}

struct Ctx {
    rt: tokio::runtime::Runtime,
    agent: Agent,
    transport: Transport,
    _opts: AgentOptions,
    _trip_tx: tokio::sync::mpsc::Sender<()>,
    servers: Vec<(SocketAddr, Slot, quinn::Endpoint)>,
    _tmp: tempfile::TempDir,
}

fn ctx_cell() -> &'static Mutex<Option<Ctx>> {
    static CTX: OnceLock<Mutex<Option<Ctx>>> = OnceLock::new();
    CTX.get_or_init(|| Mutex::new(None))
}

fn init_ctx() -> Result<Ctx, String> {
    static ONCE: OnceLock<()> = OnceLock::new();
    ONCE.get_or_init(|| {
        let _ = metrics::set_global_recorder(Rec);
    });
    let rt = tokio::runtime::Builder::new_multi_thread().worker_threads(3).enable_all().build().map_err(|e| e.to_string())?;
    let tmp = tempfile::Builder::new().prefix("hx-c04-").tempdir().map_err(|e| e.to_string())?;
    let conf: Config = Config::builder()
        .api_addr("127.0.0.1:0".parse().unwrap())
        .gossip_addr("127.0.0.1:0".parse().unwrap())
        .admin_path(tmp.path().join("admin.sock").display().to_string())
        .db_path(tmp.path().join("corrosion.db").display().to_string())
        .build()
        .map_err(|e| e.to_string())?;
    let (tripwire, worker, trip_tx) = Tripwire::new_simple();
    let (agent, opts, servers) = rt.block_on(async move {
        tokio::spawn(worker);
        let (agent, opts) = setup(conf, tripwire).await.map_err(|e| format!("setup: {e:#}"))?;
        let g = GossipConfig {
            bind_addr: "127.0.0.1:0".parse().unwrap(),
            external_addr: None,
            client_addr: DEFAULT_GOSSIP_CLIENT_ADDR,
            bootstrap: vec![],
            tls: None,
            plaintext: true,
            max_mtu: None,
            idle_timeout_secs: 30,
            disable_gso: false,
        };
        let mut servers = vec![];
        for _ in 0..MAX_PEERS {
            let ep = gossip_server_endpoint(&g).await.map_err(|e| format!("fake server endpoint: {e:#}"))?;
            let addr = ep.local_addr().map_err(|e| e.to_string())?;
            let slot: Slot = Arc::new(Mutex::new(None));
            tokio::spawn(accept_loop(ep.clone(), slot.clone(), agent.clock().clone()));
            servers.push((addr, slot, ep));
        }
        Ok::<_, String>((agent, opts, servers))
    })?;
    let transport = opts.transport.clone();
    Ok(Ctx { rt, agent, transport, _opts: opts, _trip_tx: trip_tx, servers, _tmp: tmp })
}

fn drop_ctx() {
    if let Some(ctx) = ctx_cell().lock().unwrap().take() {
        let Ctx { rt, agent, transport, _opts, _trip_tx, servers, _tmp } = ctx;
        {
            let _g = rt.enter();
            for (_, _, ep) in &servers {
                ep.close(0u32.into(), b"");
            }
            drop(servers);
            drop(transport);
            drop(_opts);
            drop(agent);
        }
        rt.shutdown_timeout(Duration::from_secs(2));
        drop(_tmp);
    }
}

struct Raw {
    result_ok: bool,
    timed_out: bool,
    events: Vec<Ev>,
    recv: Vec<Vec<Msg>>,
    streams: Vec<usize>,
    anomalies: Vec<String>,
    hiccups: Vec<String>,
    all_done: bool,
}

fn run_once(ctx: &Ctx, our: SyncStateV1, peers: &[(Mode, St)]) -> Raw {
    let n = peers.len();
    let live_ids: Vec<String> = peers.iter().filter(|p| p.0 == Mode::Ok).map(|p| aid(p.1.actor).to_string()).collect();
    let (gate, _keep) = tokio::sync::watch::channel(0usize);
    let sess = Arc::new(Sess {
        gate,
        live_ids,
        events: Mutex::new(vec![]),
        recv: (0..n).map(|_| Mutex::new(vec![])).collect(),
        streams: (0..n).map(|_| AtomicUsize::new(0)).collect(),
        anomalies: Mutex::new(vec![]),
        hiccups: Mutex::new(vec![]),
        done: tokio::sync::Semaphore::new(0),
    });
    let mut live_pos = 0;
    for (i, (mode, st)) in peers.iter().enumerate() {
        *ctx.servers[i].1.lock().unwrap() = Some(SlotCfg { idx: i, mode: *mode, state: build(st), live_pos, sess: sess.clone() });
        if *mode == Mode::Ok {
            live_pos += 1;
        }
    }
    *cur().lock().unwrap() = Some(sess.clone());
    let members: Vec<(ActorId, SocketAddr)> = peers.iter().enumerate().map(|(i, p)| (aid(p.1.actor), ctx.servers[i].0)).collect();
    let (agent, transport) = (&ctx.agent, &ctx.transport);
    let s2 = sess.clone();
    let (res, all_done) = ctx.rt.block_on(async move {
        let res = tokio::time::timeout(Duration::from_secs(40), parallel_sync(agent, transport, members, our)).await;
        // every member got exactly one bi stream; its handler ends when the client has finished / dropped it
        let all_done = tokio::time::timeout(Duration::from_secs(25), s2.done.acquire_many(n as u32)).await.map(|r| r.is_ok()).unwrap_or(false);
        (res, all_done)
    });
    *cur().lock().unwrap() = None;
    for i in 0..n {
        *ctx.servers[i].1.lock().unwrap() = None;
    }
    Raw {
        result_ok: matches!(res, Ok(Ok(_))),
        timed_out: res.is_err(),
        events: sess.events.lock().unwrap().clone(),
        recv: sess.recv.iter().map(|m| m.lock().unwrap().clone()).collect(),
        streams: sess.streams.iter().map(|a| a.load(Ordering::SeqCst)).collect(),
        anomalies: sess.anomalies.lock().unwrap().clone(),
        hiccups: sess.hiccups.lock().unwrap().clone(),
        all_done,
    }
}

/// why this run cannot be used (the fake world did not behave as the op line says), if so
fn undecidable(raw: &Raw, peers: &[(Mode, St)]) -> Option<String> {
    if raw.timed_out {
        return Some("parallel_sync did not return within 40 s".into());
    }
    if !raw.all_done {
        return Some("a fake server's stream was still open 25 s after parallel_sync returned".into());
    }
    if let Some(h) = raw.hiccups.first() {
        return Some(h.clone());
    }
    let live: Vec<String> = peers.iter().filter(|p| p.0 == Mode::Ok).map(|p| aid(p.1.actor).to_string()).collect();
    let members: Vec<String> = raw.events.iter().filter_map(|e| if let Ev::Member(id) = e { Some(id.clone()) } else { None }).collect();
    if members != live {
        return Some("the handshakes did not complete for exactly the `ok` peers in members order".into());
    }
    None
}

type Sent = Vec<(u64, u64, N)>;

/// global sending order from the client's `req.sent` increments, matched against what each server received
fn global_order(raw: &Raw, peers: &[(Mode, St)], fails: &mut Vec<String>) -> Sent {
    let mut sent: Sent = vec![];
    let mut ptr = vec![0usize; peers.len()];
    let mut ok = true;
    for e in &raw.events {
        let Ev::Sent(id, len) = e else { continue };
        let Some(i) = peers.iter().position(|p| aid(p.1.actor).to_string() == *id) else {
            fails.push(format!("the client counted a request for {id}, which is not a member of the session"));
            ok = false;
            continue;
        };
        match raw.recv[i].get(ptr[i]) {
            Some(m) if m.len() == 1 && m[0].1.len() as u64 == *len => {
                for n in &m[0].1 {
                    sent.push((peers[i].1.actor, m[0].0, n.clone()));
                }
            }
            Some(m) => {
                fails.push(format!(
                    "server {}: message #{} has {} actor entries / {} needs, the client counted one entry with {len} needs",
                    peers[i].1.actor,
                    ptr[i],
                    m.len(),
                    m.iter().map(|x| x.1.len()).sum::<usize>()
                ));
                ok = false;
            }
            None => {
                fails.push(format!("server {}: the client counted more requests than arrived ({} arrived)", peers[i].1.actor, raw.recv[i].len()));
                ok = false;
            }
        }
        ptr[i] += 1;
    }
    for (i, p) in peers.iter().enumerate() {
        if ptr[i] < raw.recv[i].len() {
            fails.push(format!("server {}: {} request messages arrived, the client counted {}", p.1.actor, raw.recv[i].len(), ptr[i]));
            ok = false;
        }
    }
    if !ok {
        // fall back to server-by-server arrival order so that a line can still be printed
        sent.clear();
        for (i, p) in peers.iter().enumerate() {
            for m in &raw.recv[i] {
                for (a, ns) in m {
                    for n in ns {
                        sent.push((p.1.actor, *a, n.clone()));
                    }
                }
            }
        }
    }
    sent
}

fn to_ranges(ps: &BTreeSet<u64>) -> Ranges {
    let mut out: Ranges = vec![];
    for x in ps {
        match out.last_mut() {
            Some(r) if r.1 + 1 == *x => r.1 = *x,
            _ => out.push((*x, *x)),
        }
    }
    out
}

#[derive(Clone, Copy, PartialEq, Eq, Debug)]
enum Form {
    Seq,
    Act,
    Set,
}

/// (number of actors, queue length) of one server, from the real computed needs and the real `chunk_range`
fn queue_shape(avail: &BTreeMap<u64, Vec<N>>) -> (usize, usize) {
    let mut len = 0;
    for ns in avail.values() {
        for n in ns {
            len += match n {
                N::Full(lo, hi) => chunk_range_versions(CrsqlDbVersion(*lo)..=CrsqlDbVersion(*hi), chunk_k()).len(),
                _ => 1,
            };
        }
    }
    (avail.len(), len)
}

fn form_of(shapes: &[(usize, usize)]) -> Form {
    if shapes.iter().all(|s| s.0 <= 1) {
        Form::Seq
    } else if shapes.iter().all(|s| s.0 <= 1 || s.1 <= drain_d()) {
        Form::Act
    } else {
        Form::Set
    }
}

fn show_session(form: Form, peers: &[(Mode, St)], sent: &Sent) -> String {
    match form {
        Form::Seq => {
            let items: Vec<String> = sent.iter().map(|(s, a, n)| format!("{s}>{a}:{}", show_n(n))).collect();
            format!("seq {}", show_list(&items, ","))
        }
        Form::Act => {
            let mut srvs = vec![];
            for (_, p) in peers {
                let mut per: BTreeMap<u64, Vec<String>> = BTreeMap::new();
                for (s, a, n) in sent {
                    if *s == p.actor {
                        per.entry(*a).or_default().push(show_n(n));
                    }
                }
                if !per.is_empty() {
                    let es: Vec<String> = per.iter().map(|(a, ns)| format!("{a}:{}", ns.join(","))).collect();
                    srvs.push(format!("{}[{}]", p.actor, es.join(";")));
                }
            }
            format!("act {}", show_list(&srvs, "|"))
        }
        Form::Set => {
            let mut full: BTreeMap<u64, BTreeSet<u64>> = BTreeMap::new();
            let mut part: BTreeMap<u64, BTreeMap<u64, BTreeSet<u64>>> = BTreeMap::new();
            let mut actors: BTreeSet<u64> = BTreeSet::new();
            for (_, a, n) in sent {
                actors.insert(*a);
                match n {
                    N::Full(lo, hi) => full.entry(*a).or_default().extend(points(&[(*lo, *hi)])),
                    N::Part(v, rs) => part.entry(*a).or_default().entry(*v).or_default().extend(points(rs)),
                    N::Other => {}
                }
            }
            let es: Vec<String> = actors
                .iter()
                .map(|a| {
                    let mut items: Vec<String> = vec![];
                    if let Some(f) = full.get(a) {
                        items.extend(to_ranges(f).iter().map(|r| format!("F{}", show_range(*r))));
                    }
                    if let Some(pm) = part.get(a) {
                        for (v, ps) in pm {
                            items.push(format!("P{v}={}", to_ranges(ps).iter().map(|r| show_range(*r)).collect::<Vec<_>>().join("+")));
                        }
                    }
                    format!("{a}:{}", items.join(","))
                })
                .collect();
            format!("set {}", show_list(&es, ";"))
        }
    }
}

/// Order-independent property oracle on the real messages of one session.  `avail[i]` = what the real
/// `compute_available_needs(us, peer i)` returned (empty for a peer whose handshake failed).
fn session_oracle(peers: &[(Mode, St)], avail: &[BTreeMap<u64, Vec<N>>], raw: &Raw, sent: &Sent, tags: &mut Vec<String>) -> Vec<String> {
    let mut fails = vec![];
    // (o) shape of the messages as `parallel_sync` builds them
    for (i, p) in peers.iter().enumerate() {
        if raw.streams[i] != 1 {
            fails.push(format!("server {}: the client opened {} bi streams instead of one", p.1.actor, raw.streams[i]));
        }
        for m in &raw.recv[i] {
            if m.len() != 1 || m[0].1.is_empty() {
                fails.push(format!("server {}: a Request with {} actor entries / an empty need list", p.1.actor, m.len()));
            }
            if p.0 != Mode::Ok {
                fails.push(format!("server {}: got a Request although its handshake failed", p.1.actor));
            }
        }
    }
    // (i) nothing twice in a session, (iv) block size, well-formedness of each need
    let mut full_seen: BTreeMap<u64, BTreeSet<u64>> = BTreeMap::new();
    let mut part_seen: BTreeMap<(u64, u64), BTreeSet<u64>> = BTreeMap::new();
    for (s, a, n) in sent {
        match n {
            N::Full(lo, hi) => {
                if lo > hi {
                    fails.push(format!("server {s} actor {a}: backward Full {lo}-{hi}"));
                    continue;
                }
                if hi - lo > chunk_k() as u64 {
                    fails.push(format!("server {s} actor {a}: Full {lo}-{hi} is larger than one chunk_range(_, {}) block", chunk_k()));
                }
                let seen = full_seen.entry(*a).or_default();
                let mut dup = None;
                for x in *lo..=(*hi).min(ORACLE_MAX) {
                    if !seen.insert(x) && dup.is_none() {
                        dup = Some(x);
                    }
                }
                if let Some(x) = dup {
                    fails.push(format!("actor {a}: version {x} requested twice in one session (second time from server {s}, Full {lo}-{hi})"));
                }
            }
            N::Part(v, rs) => {
                if rs.is_empty() || rs.iter().any(|r| r.0 > r.1) {
                    fails.push(format!("server {s} actor {a}: Partial {v} with an empty or backward seq list"));
                }
                let seen = part_seen.entry((*a, *v)).or_default();
                let mut dup = None;
                for x in points(rs) {
                    if !seen.insert(x) && dup.is_none() {
                        dup = Some(x);
                    }
                }
                if let Some(x) = dup {
                    fails.push(format!("actor {a} version {v}: seq {x} requested twice in one session (second time from server {s})"));
                }
            }
            N::Other => fails.push(format!("server {s} actor {a}: unexpected need kind")),
        }
    }
    // (ii) union of the requests = union of the computed needs
    let mut full_want: BTreeMap<u64, BTreeSet<u64>> = BTreeMap::new();
    let mut part_want: BTreeMap<(u64, u64), BTreeSet<u64>> = BTreeMap::new();
    for av in avail {
        for (a, ns) in av {
            for n in ns {
                match n {
                    N::Full(lo, hi) => full_want.entry(*a).or_default().extend(points(&[(*lo, *hi)])),
                    N::Part(v, rs) => part_want.entry((*a, *v)).or_default().extend(points(rs)),
                    N::Other => {}
                }
            }
        }
    }
    part_want.retain(|_, s| !s.is_empty());
    part_seen.retain(|_, s| !s.is_empty());
    let actors: BTreeSet<u64> = full_want.keys().chain(full_seen.keys()).copied().collect();
    for a in actors {
        let e = BTreeSet::new();
        let (w, g) = (full_want.get(&a).unwrap_or(&e), full_seen.get(&a).unwrap_or(&e));
        if let Some(x) = w.difference(g).next() {
            fails.push(format!("actor {a}: version {x} is in the needs computed for some peer of the session but was requested from nobody"));
        }
        if let Some(x) = g.difference(w).next() {
            fails.push(format!("actor {a}: version {x} was requested but is in nobody's computed needs"));
        }
    }
    let keys: BTreeSet<(u64, u64)> = part_want.keys().chain(part_seen.keys()).copied().collect();
    for k in keys {
        let e = BTreeSet::new();
        let (w, g) = (part_want.get(&k).unwrap_or(&e), part_seen.get(&k).unwrap_or(&e));
        if let Some(x) = w.difference(g).next() {
            fails.push(format!("actor {} version {}: seq {x} is in the needs computed for some peer of the session but was requested from nobody", k.0, k.1));
        }
        if let Some(x) = g.difference(w).next() {
            fails.push(format!("actor {} version {}: seq {x} was requested but is in nobody's computed needs", k.0, k.1));
        }
    }
    // (iii) each server is only asked for (a part of) ONE need computed for that very server
    for (s, a, n) in sent {
        let Some(i) = peers.iter().position(|p| p.1.actor == *s) else { continue };
        let own: &[N] = avail[i].get(a).map(|v| v.as_slice()).unwrap_or(&[]);
        let within = match n {
            N::Full(lo, hi) => own.iter().any(|m| matches!(m, N::Full(l, h) if l <= lo && hi <= h)),
            N::Part(v, rs) => {
                let ps = points(rs);
                own.iter().any(|m| matches!(m, N::Part(w, ws) if w == v && ps.is_subset(&points(ws))))
            }
            N::Other => false,
        };
        if !within {
            fails.push(format!("server {s} was asked for actor {a} {} which is not within any need computed for that server", show_n(n)));
        }
    }
    // distribution
    let total_items: usize = avail.iter().map(|av| queue_shape(av).1).sum();
    let n_sent_items = raw.recv.iter().map(|r| r.len()).sum::<usize>();
    if n_sent_items < total_items {
        tags.push("session:some-item-fully-deduplicated".into());
    }
    if avail.iter().filter(|av| !av.is_empty()).count() >= 2 {
        tags.push("session:2+servers-with-needs".into());
    }
    if avail.iter().any(|av| queue_shape(av).1 > drain_d()) {
        tags.push("session:some-queue>d(several-rounds)".into());
    }
    if avail.iter().filter(|av| queue_shape(av).1 > drain_d()).count() >= 2 {
        tags.push("session:2+queues>d(interleaved-rounds)".into());
    }
    if raw.recv.iter().flatten().any(|m| m.len() == 1 && m[0].1.len() >= 2) {
        tags.push("session:chunk-split-by-dedup".into());
    }
    let shared_part = part_want.keys().any(|k| avail.iter().filter(|av| av.get(&k.0).map(|ns| ns.iter().any(|n| matches!(n, N::Part(v, _) if *v == k.1))).unwrap_or(false)).count() >= 2);
    if shared_part {
        tags.push("session:partial-available-from-2+servers".into());
    }
    fails
}

fn exec_session(toks: &[&str]) -> (String, bool, Vec<String>, Vec<String>, Option<String>) {
    let Some((us, peers)) = parse_session(toks) else {
        return ("bad-op".into(), false, vec![], vec![], None);
    };
    if !(all_forward(&us) && peers.iter().all(|p| all_forward(&p.1))) {
        return ("err backward-range".into(), false, vec!["session:backward-range".into()], vec![], None);
    }
    let mut tags: Vec<String> = vec![format!("session:peers:{}", peers.len())];
    for (m, _) in &peers {
        if *m != Mode::Ok {
            tags.push(format!("session:peer-{}", mode_name(*m)));
        }
    }
    let mut guard = ctx_cell().lock().unwrap();
    if guard.is_none() {
        match init_ctx() {
            Ok(c) => *guard = Some(c),
            Err(e) => return (String::new(), false, tags, vec![], Some(format!("setup:{}", e.chars().take(60).collect::<String>()))),
        }
    }
    let ctx = guard.as_ref().unwrap();
    let mut last_why = String::new();
    for _attempt in 0..3 {
        let Some(our) = build_ordered(&us) else {
            return (String::new(), false, tags, vec![], Some("our-partial-map-order".into()));
        };
        // the reference: the real compute_available_needs on the same objects, as sets per peer
        let avail: Vec<BTreeMap<u64, Vec<N>>> =
            peers.iter().map(|(m, p)| if *m == Mode::Ok { canon(our.compute_available_needs(&build(p))) } else { BTreeMap::new() }).collect();
        let raw = run_once(ctx, our, &peers);
        if let Some(why) = undecidable(&raw, &peers) {
            last_why = why;
            continue;
        }
        let any_live = peers.iter().any(|p| p.0 == Mode::Ok);
        let mut fails: Vec<String> = raw.anomalies.clone();
        if raw.result_ok != any_live {
            fails.push(format!("parallel_sync returned {} with {} peers completing the handshake", if raw.result_ok { "Ok" } else { "Err" }, if any_live { "some" } else { "no" }));
        }
        let sent = global_order(&raw, &peers, &mut fails);
        let shapes: Vec<(usize, usize)> = avail.iter().map(queue_shape).collect();
        let form = form_of(&shapes);
        tags.push(format!("session:form:{}", match form { Form::Seq => "seq", Form::Act => "act", Form::Set => "set" }));
        let small_ok = small(&us) && peers.iter().all(|p| small(&p.1));
        if small_ok {
            fails.extend(session_oracle(&peers, &avail, &raw, &sent, &mut tags));
        } else {
            tags.push("session:too-large(oracle-skipped)".into());
        }
        if wf(&us) && peers.iter().all(|p| wf(&p.1)) {
            tags.push("session:well-formed".into());
        } else {
            tags.push("session:not-well-formed".into());
        }
        let out = if !any_live { "err handshake".to_string() } else { show_session(form, &peers, &sent) };
        tags.sort();
        tags.dedup();
        return (out, !sent.is_empty(), tags, fails, None);
    }
    (String::new(), false, tags, vec![], Some(format!("session:{}", last_why.chars().take(80).collect::<String>())))
}

// ---------------------------------------------------------------- session generators

fn seqs_for(rng: &mut Rng) -> Ranges {
    let mut s = gen_sorted_ranges(rng, 0, 24, 4, 4);
    if s.is_empty() {
        s.push((rng.range(0, 3), rng.range(3, 9)));
    }
    s
}

/// one foreign actor's entry in a state: head, need ranges (each up to `max_len` long), partial versions out of
/// `pool` (and maybe one more), never overlapping the need
fn gen_actor_side(rng: &mut Rng, st: &mut St, a: u64, head: u64, max_need: u64, max_len: u64, pool: &[u64], p_num: u64, p_den: u64) {
    st.heads.insert(a, head);
    let need = gen_sorted_ranges(rng, 1, head, max_need, max_len);
    let mut pm: BTreeMap<u64, Ranges> = BTreeMap::new();
    let mut cands: Vec<u64> = pool.to_vec();
    if head >= 1 && rng.chance(1, 2) {
        cands.push(rng.range(1, head));
    }
    for v in cands {
        if pm.len() >= 5 || !rng.chance(p_num, p_den) {
            continue;
        }
        if v < 1 || v > head || need.iter().any(|r| r.0 <= v && v <= r.1) {
            continue;
        }
        pm.insert(v, seqs_for(rng));
    }
    if !need.is_empty() {
        st.need.insert(a, need);
    }
    if !pm.is_empty() {
        st.partial.insert(a, pm);
    }
}

fn gen_session(rng: &mut Rng) -> String {
    let mut us = St { actor: 1, ..Default::default() };
    let n_srv = match rng.below(20) {
        0..=1 => 1,
        2..=8 => 2,
        9..=15 => 3,
        _ => 4,
    } as usize;
    let mut srv_ids: Vec<u64> = vec![5, 6, 7, 8, 9];
    rng.shuffle(&mut srv_ids);
    let mut peers: Vec<(Mode, St)> = srv_ids.iter().take(n_srv).map(|id| (Mode::Ok, St { actor: *id, ..Default::default() })).collect();
    // kind of session: 0 = one foreign actor, long ranges (form seq); 1 = several actors, short queues
    // (form act, mostly); 2 = several actors, long ranges (form set)
    let kind = match rng.below(10) {
        0..=6 => 0,
        7..=8 => 1,
        _ => 2,
    };
    let actors: Vec<u64> = match kind {
        0 => vec![2],
        _ => {
            let mut ids = vec![2, 3, 4];
            rng.shuffle(&mut ids);
            ids.truncate(rng.range(2, 3) as usize);
            ids.sort();
            ids
        }
    };
    if rng.chance(1, 3) {
        us.heads.insert(1, rng.range(0, 9)); // our own versions
    }
    for a in &actors {
        let (hmax, max_len) = if kind == 1 { (9, 3) } else { (150, 45) };
        let base = rng.range(0, hmax);
        let known_us = !rng.chance(1, 6);
        // versions that tend to be partial on several sides
        let pool: Vec<u64> = (0..rng.range(0, 4)).map(|_| rng.range(1, base.max(1))).collect();
        if known_us {
            gen_actor_side(rng, &mut us, *a, base, if kind == 1 { 2 } else { 4 }, max_len, &pool, 4, 5);
        }
        for (_, p) in peers.iter_mut() {
            if kind != 0 && rng.chance(1, 4) {
                continue; // this peer does not know the actor
            }
            if rng.chance(1, 3) {
                p.heads.insert(1, rng.range(1, 12)); // the peer lists our own actor
            }
            let head = match rng.below(12) {
                0 => 0,
                1..=2 => base,
                3..=7 => base + rng.range(1, if kind == 1 { 6 } else { 170 }),
                8..=9 => base.saturating_sub(rng.range(0, if kind == 1 { 4 } else { 30 })),
                _ => rng.range(0, if kind == 1 { 12 } else { 320 }),
            };
            gen_actor_side(rng, p, *a, head, if kind == 1 { 2 } else { 3 }, max_len, &pool, 1, 3);
        }
    }
    // now and then a peer whose handshake fails at once (the others must cover what THEY can serve)
    if rng.chance(1, 7) {
        let i = rng.below(n_srv as u64) as usize;
        peers[i].0 = if rng.chance(1, 2) { Mode::Close } else { Mode::Reject };
    }
    enc_session(&us, &peers)
}

const ENUM_OURS: usize = 4;
const ENUM_PEER: usize = 7;
const ENUM_THIRD: usize = 3;

fn enum_our(i: usize) -> St {
    let mut us = St { actor: 1, ..Default::default() };
    match i {
        0 => {}
        1 => {
            us.heads.insert(2, 3);
        }
        2 => {
            us.heads.insert(2, 30);
            us.need.insert(2, vec![(4, 27)]);
        }
        _ => {
            us.heads.insert(2, 8);
            us.need.insert(2, vec![(2, 3)]);
            us.partial.insert(2, BTreeMap::from([(5, vec![(0, 1), (3, 3), (6, 6)]), (7, vec![(2, 4)])]));
        }
    }
    us
}

fn enum_peer(id: u64, i: usize) -> St {
    let mut p = St { actor: id, ..Default::default() };
    match i {
        0 => {
            p.heads.insert(2, 0);
        }
        1 => {
            p.heads.insert(2, 6);
        }
        2 => {
            p.heads.insert(2, 7);
            p.partial.insert(2, BTreeMap::from([(5, vec![(1, 4)])]));
        }
        3 => {
            p.heads.insert(2, 35);
        }
        4 => {
            p.heads.insert(2, 35);
            p.need.insert(2, vec![(10, 20)]);
            p.partial.insert(2, BTreeMap::from([(7, vec![(3, 3)])]));
        }
        5 => {
            p.heads.insert(2, 130);
        }
        _ => {
            p.heads.insert(2, 131);
            p.need.insert(2, vec![(50, 60)]);
            p.partial.insert(2, BTreeMap::from([(5, vec![(0, 0)])]));
        }
    }
    p
}

/// exhaustive small scope for the session: one foreign actor; 4 shapes of our state × 7 × 7 shapes of two
/// peers (head 0 / short / long queues of 1, 4 and 13-14 blocks; gaps; partials) × {no third peer, a third peer
/// with a long queue, a third peer whose handshake fails}
fn enum_session(i: usize) -> Option<String> {
    let total = ENUM_OURS * ENUM_PEER * ENUM_PEER * ENUM_THIRD;
    if i >= total {
        return None;
    }
    let (o, r) = (i % ENUM_OURS, i / ENUM_OURS);
    let (a, r) = (r % ENUM_PEER, r / ENUM_PEER);
    let (b, t) = (r % ENUM_PEER, r / ENUM_PEER);
    let mut peers = vec![(Mode::Ok, enum_peer(9, a)), (Mode::Ok, enum_peer(8, b))];
    match t {
        1 => peers.push((Mode::Ok, enum_peer(7, 5))),
        2 => peers.insert(1, (Mode::Close, enum_peer(7, 5))),
        _ => {}
    }
    Some(enc_session(&enum_our(o), &peers))
}

impl Prop for C04 {
    fn id(&self) -> &'static str {
        "C04"
    }
    fn rule(&self) -> &'static str {
        "one case = one pair (our sync state, peer's advertised state) given to the real compute_available_needs \
         (non-trivial iff at least one need was produced), or one sync session = our state + 1..4 fake peers' \
         advertised states given to the real parallel_sync (non-trivial iff at least one Request reached a \
         peer); distinct by hash of the op line"
    }
    fn default_cases(&self, tier: Tier) -> usize {
        match tier {
            // every sixth generated case is a session
            Tier::Quick => 24_000,
            Tier::Thorough => 360_000,
        }
    }
    fn enumerated_case(&self, tier: Tier, index: usize) -> Option<Vec<String>> {
        // exhaustive small scope: one foreign actor (2), peer head h <= H with every version held / needed / partial,
        // our side unknown or head h' <= H with every version held / needed / partial.  Our own actor (1) is always
        // among the peer's heads.
        // After those: the enumerated sessions (`enum_session`).
        let hmax: u64 = if tier == Tier::Thorough { 5 } else { 4 };
        let p: u64 = (0..=hmax).map(pow3).sum();
        let n_can = (p * (p + 1)) as usize;
        if index >= n_can {
            return enum_session(index - n_can).map(|s| vec![s]);
        }
        let idx = index as u64;
        let (pi, oi) = (idx / (p + 1), idx % (p + 1));
        let peer_status = decode_status(pi, hmax)?;
        let mut us = St { actor: 1, ..Default::default() };
        let mut peer = St { actor: 9, ..Default::default() };
        peer.heads.insert(1, 3);
        if idx % 2 == 0 {
            us.heads.insert(1, 3);
        }
        state_from_status(&mut peer, 2, &peer_status, idx % 5);
        if oi > 0 {
            let our_status = decode_status(oi - 1, hmax)?;
            state_from_status(&mut us, 2, &our_status, 3 + idx % 3);
        }
        Some(vec![format!("can {} {}", enc_state(&us), enc_state(&peer))])
    }
    fn gen_case(&self, rng: &mut Rng, _tier: Tier, index: usize) -> Vec<String> {
        if index % 6 == 5 {
            return vec![gen_session(rng)];
        }
        let our_id = rng.range(1, 4);
        let mut peer_id = rng.range(1, 9);
        if peer_id == our_id {
            peer_id = 9 + our_id;
        }
        let mut us = St { actor: our_id, ..Default::default() };
        let mut peer = St { actor: peer_id, ..Default::default() };
        let sloppy_case = rng.chance(1, 12);
        let backward_ok = sloppy_case && rng.chance(1, 4);
        // actor universe: up to 4 ids out of 1..=6, our own id and the peer's among the candidates
        let mut ids: Vec<u64> = vec![1, 2, 3, 4, 5, 6, peer_id];
        ids.sort();
        ids.dedup();
        rng.shuffle(&mut ids);
        let n_act = rng.range(1, 4) as usize;
        let mut actors: Vec<u64> = ids.into_iter().take(n_act).collect();
        if rng.chance(1, 2) && !actors.contains(&our_id) {
            actors.pop();
            actors.push(our_id); // the peer advertises a head for versions we authored
        }
        for a in actors {
            let small_heads = rng.chance(1, 2);
            let hmax = if small_heads { 8 } else { 30 };
            let base = rng.range(0, hmax);
            let (known_us, known_peer) = match rng.below(8) {
                0 => (true, false),
                1 | 2 => (false, true),
                _ => (true, true),
            };
            let head_of = |rng: &mut Rng| -> u64 {
                match rng.below(12) {
                    0 => 0,
                    1..=4 => base,
                    5..=7 => (base + rng.range(0, 6)).min(30),
                    8..=9 => base.saturating_sub(rng.range(0, 6)),
                    _ => rng.range(0, 30),
                }
            };
            // versions that tend to be partial on both sides
            let pool: Vec<u64> = (0..rng.range(0, 3)).map(|_| rng.range(1, base.max(1))).collect();
            if known_us {
                let h = head_of(rng);
                let sloppy = sloppy_case && rng.chance(1, 2);
                gen_side(rng, &mut us, a, h, &pool, sloppy, backward_ok);
            }
            if known_peer {
                let h = head_of(rng);
                let sloppy = sloppy_case && rng.chance(1, 2);
                gen_side(rng, &mut peer, a, h, &pool, sloppy, backward_ok);
            }
        }
        vec![format!("can {} {}", enc_state(&us), enc_state(&peer))]
    }
    fn exec_case(&self, ops: &[String]) -> CaseResult {
        let mut r = CaseResult::default();
        for op in ops {
            let toks: Vec<&str> = op.split_whitespace().collect();
            match toks.first().copied() {
                Some("can") if toks.len() == 9 => {
                    let (out, nt, tags, fails) = exec_can(&toks);
                    r.outputs.push(out);
                    r.nontrivial |= nt;
                    r.tags.extend(tags);
                    r.oracle_failures.extend(fails);
                }
                Some("session") => {
                    let (out, nt, tags, fails, inconclusive) = exec_session(&toks);
                    if inconclusive.is_some() {
                        r.inconclusive = inconclusive;
                    }
                    r.outputs.push(out);
                    r.nontrivial |= nt;
                    r.tags.extend(tags);
                    r.oracle_failures.extend(fails);
                }
                _ => r.outputs.push("bad-op".into()),
            }
        }
        r
    }
    fn end(&self) {
        drop_ctx();
    }
}
