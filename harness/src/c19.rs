//! C19 — the REAL `corrosion backup` / `corrosion restore` CLI (built from /repo's working tree at
//! the start of every run) driven on cr-sqlite databases grown with crkit; results opened again and
//! printed canonically (`crsql_changes` with resolved site ids, `crsql_site_id` as (ordinal, site)
//! pairs, row counts of the node-local tables), compared with the Lean model (`Corro.Backup`,
//! `Corro.Locks`) and judged by an independent oracle.
//!
//! Ops (nodes and snapshot slots are numbered 0..7; node `i` has site id `crkit::site_id(i)`):
//!   cw / co / cm                      grow databases (local writes, merges) exactly as `hx C01` does
//!   bulk <db> <n> <len>               one transaction inserting n rows with len-byte texts into t
//!   local <db> <m> <s|-> <cs|-> <cc|-> <dir>   node-local state: rows in __corro_members, __corro_subs,
//!                                     __corro_consul_services/_checks (`-` = no such table), files in subscriptions/
//!   mode <db> wal|delete              PRAGMA journal_mode
//!   mkempty <db> <dir>                a zero-length database file
//!   backup <src> <snap>               `corrosion backup`
//!   restore <snap> <dst> <no|self|actor:i>      `corrosion restore [--self-actor-id|--actor-id]`
//!   trace <snap> <dst> <keep>         the same under strace: prints the lock/copy program it executed
//!   race <snap> <dst> <keep> <n> <style>        the same with n reader PROCESSES on the destination
//!   timeout <snap> <dst> <keep> <slot>          the same while another process holds <slot>: 30 s lock time-out
//!   inspect <db> / inspects <snap>    canonical dump
//!   tag <word>                        no effect (labels pinned cases for known_findings.json)
use std::collections::BTreeMap;
use std::io::{BufRead, BufReader, Read, Write};
use std::path::{Path, PathBuf};
use std::process::{Child, Command, Stdio};

use klukai_types::api::SqliteValue;
use klukai_types::sqlite::CrConn;

use crate::crkit::*;
use crate::rng::Rng;
use crate::runner::{CaseResult, Prop, Tier};

pub struct C19;

const REPO: &str = "/repo";
const CORROSION: &str = "/repo/target/debug/corrosion";
const ENV_CHILD: &str = "HX_C19_CHILD";

// ------------------------------------------------------------------------------------------------
// child processes (fcntl locks are per process): readers and lock holders are this very binary,
// re-executed with ENV_CHILD set; `begin()` diverts into `child_main` before anything else happens.

fn digest(conn: &rusqlite::Connection, kind: &str) -> Result<String, String> {
    // every digest is ONE statement, hence one read transaction
    let sql = match kind {
        "qa" => "SELECT count(*) || ':' || coalesce(sum(length(a)),0) || ':' || coalesce(sum(b),0) FROM t",
        "qb" => "SELECT (SELECT count(*) || ':' || coalesce(sum(length(x)),0) FROM u) || '/' || (SELECT count(*) FROM k)",
        "qc" => "SELECT (SELECT count(*) || ':' || coalesce(sum(db_version),0) || ':' || coalesce(sum(site_id),0) || ':' || coalesce(sum(col_version),0) FROM t__crsql_clock) \
                 || '/' || (SELECT coalesce(group_concat(ordinal || '=' || hex(site_id), ','), '') FROM (SELECT ordinal, site_id FROM crsql_site_id ORDER BY ordinal))",
        "ic" => "PRAGMA integrity_check",
        _ => return Err("bad-kind".into()),
    };
    let res: rusqlite::Result<String> = (|| {
        let mut st = conn.prepare(sql)?;
        let mut rows = st.query([])?;
        let mut out = vec![];
        while let Some(r) = rows.next()? {
            let s: String = r.get(0)?;
            out.push(s);
        }
        Ok(out.join("+"))
    })();
    res.map_err(|e| match &e {
        rusqlite::Error::SqliteFailure(f, msg) => {
            let m: String = msg.clone().unwrap_or_default().chars().filter(|c| c.is_ascii_alphanumeric() || *c == '_').take(40).collect();
            match f.code {
                rusqlite::ErrorCode::Unknown => format!("Unknown_{m}"),
                c => format!("{c:?}"),
            }
        }
        other => format!("Other_{}", other.to_string().chars().filter(|c| c.is_ascii_alphanumeric()).take(30).collect::<String>()),
    })
}

fn pace() {
    // not synchronisation: keeps reader loops from monopolising the lock bytes
    let t = std::time::Instant::now();
    while t.elapsed() < std::time::Duration::from_micros(150) {
        std::hint::spin_loop();
    }
}

fn child_reader(path: &str, style: &str) -> ! {
    let alt = style.starts_with("alt");
    let mmap = style.ends_with("mmap");
    let tiny = style.ends_with("tiny");
    let out = std::io::stdout();
    let conn = match rusqlite::Connection::open_with_flags(
        path,
        rusqlite::OpenFlags::SQLITE_OPEN_READ_WRITE | rusqlite::OpenFlags::SQLITE_OPEN_NO_MUTEX,
    ) {
        Ok(c) => c,
        Err(e) => {
            println!("FATAL open {e}");
            std::process::exit(2);
        }
    };
    let _ = conn.busy_timeout(std::time::Duration::ZERO);
    if mmap {
        let _: rusqlite::Result<i64> = conn.query_row("PRAGMA mmap_size = 268435456", [], |r| r.get(0));
    }
    if tiny {
        // a reader with a very small page cache: most pages are re-read from the file every time
        let _ = conn.execute_batch("PRAGMA cache_size = 5;");
    }
    let mut counts: BTreeMap<String, u64> = BTreeMap::new();
    let mut rec = |phase: &str, kind: &str, r: Result<String, String>| {
        let key = match r {
            Ok(d) => format!("D {phase} {kind} {d}"),
            Err(e) => format!("E {phase} {kind} {e}"),
        };
        *counts.entry(key).or_default() += 1;
    };
    // the connection must have read the database (pages cached, WAL index known) before the restore starts
    let warm: &[&str] = if alt { &["qa"] } else { &["qa", "qb", "qc", "ic"] };
    for k in warm {
        let mut tries = 0;
        loop {
            let r = digest(&conn, k);
            let ok = r.is_ok();
            rec("d", k, r);
            tries += 1;
            if ok || tries > 2000 {
                break;
            }
            pace();
        }
    }
    {
        let mut o = out.lock();
        let _ = writeln!(o, "READY");
        let _ = o.flush();
    }
    // stop signal: the parent closes (or writes to) our stdin
    let stop = std::sync::Arc::new(std::sync::atomic::AtomicBool::new(false));
    {
        let stop = stop.clone();
        std::thread::spawn(move || {
            let mut s = String::new();
            let _ = std::io::stdin().read_line(&mut s);
            stop.store(true, std::sync::atomic::Ordering::SeqCst);
        });
    }
    let during: &[&str] = if alt { &["qa"] } else { &["qa", "qb", "qc", "qa", "qb", "qc", "ic"] };
    let mut i = 0usize;
    while !stop.load(std::sync::atomic::Ordering::SeqCst) {
        let k = during[i % during.len()];
        rec("d", k, digest(&conn, k));
        i += 1;
        pace();
    }
    // after the restore has returned: everything, twice
    for _round in 0..2 {
        for k in ["qa", "qb", "qc", "ic"] {
            let mut tries = 0;
            loop {
                let r = digest(&conn, k);
                let retry = matches!(&r, Err(e) if e == "DatabaseBusy" || e == "DatabaseLocked") && tries < 200;
                rec("p", k, r);
                if !retry {
                    break;
                }
                tries += 1;
                pace();
            }
        }
    }
    let mut o = out.lock();
    for (k, n) in &counts {
        let _ = writeln!(o, "{k} {n}");
    }
    let _ = writeln!(o, "DONE");
    let _ = o.flush();
    std::process::exit(0);
}

fn set_lock(f: &std::fs::File, start: i64, len: i64) -> bool {
    use std::os::fd::AsRawFd;
    let fl = libc::flock { l_type: libc::F_RDLCK as i16, l_whence: libc::SEEK_SET as i16, l_start: start, l_len: len, l_pid: 0 };
    (unsafe { libc::fcntl(f.as_raw_fd(), libc::F_SETLK, &fl) }) == 0
}

/// Holds shared locks the way an open SQLite connection of another process does (SHARED on the
/// database file; in WAL mode also DMS on the -shm file) plus a shared lock on the named slot,
/// until stdin is closed.
fn child_hold(db: &str, wal: bool, slot: &str) -> ! {
    let open = |p: &str| std::fs::OpenOptions::new().read(true).write(true).create(true).truncate(false).open(p);
    let (dbf, shmf) = match (open(db), if wal { open(&format!("{db}-shm")).map(Some) } else { Ok(None) }) {
        (Ok(a), Ok(b)) => (a, b),
        _ => {
            println!("FATAL open");
            std::process::exit(2);
        }
    };
    let find = |name: &str| SLOTS.iter().find(|s| s.0 == name).copied();
    let mut ok = set_lock(&dbf, 0x40000002, 510);
    if let Some(shm) = &shmf {
        ok &= set_lock(shm, 128, 1);
    }
    match find(slot) {
        Some((_, true, start, len)) => ok &= shmf.as_ref().map(|f| set_lock(f, start, len)).unwrap_or(false),
        Some((_, false, start, len)) => ok &= set_lock(&dbf, start, len),
        None => ok = false,
    }
    if !ok {
        println!("FATAL lock");
        std::process::exit(2);
    }
    println!("READY");
    let _ = std::io::stdout().flush();
    let mut s = String::new();
    let _ = std::io::stdin().read_line(&mut s);
    drop(shmf);
    drop(dbf);
    std::process::exit(0);
}

fn child_main(spec: &str) -> ! {
    let p: Vec<&str> = spec.split('|').collect();
    match p.as_slice() {
        ["reader", path, style] => child_reader(path, style),
        ["hold", path, wal, slot] => child_hold(path, *wal == "1", slot),
        _ => {
            println!("FATAL spec");
            std::process::exit(2)
        }
    }
}

struct Kid {
    child: Child,
    out: BufReader<std::process::ChildStdout>,
}

fn spawn_child(spec: &str, scratch: &Path) -> Result<Kid, String> {
    let exe = std::env::current_exe().map_err(|e| e.to_string())?;
    let mut child = Command::new(exe)
        .args(["C19", "--cases", "0", "--out"])
        .arg(scratch)
        .env(ENV_CHILD, spec)
        .stdin(Stdio::piped())
        .stdout(Stdio::piped())
        .stderr(Stdio::null())
        .spawn()
        .map_err(|e| e.to_string())?;
    let out = BufReader::new(child.stdout.take().unwrap());
    let mut k = Kid { child, out };
    // wait (blocking read, no sleeping) until it reports READY
    loop {
        let mut line = String::new();
        let n = k.out.read_line(&mut line).map_err(|e| e.to_string())?;
        if n == 0 {
            let _ = k.child.kill();
            let _ = k.child.wait();
            return Err("child ended before READY".into());
        }
        if line.trim() == "READY" {
            return Ok(k);
        }
        if line.starts_with("FATAL") {
            let _ = k.child.wait();
            return Err(line.trim().to_string());
        }
    }
}

impl Kid {
    /// closes the child's stdin (its stop signal) and collects the rest of its output
    fn finish(mut self) -> Vec<String> {
        drop(self.child.stdin.take());
        let mut lines = vec![];
        let mut s = String::new();
        let _ = self.out.read_to_string(&mut s);
        for l in s.lines() {
            lines.push(l.to_string());
        }
        let _ = self.child.wait();
        lines
    }
}

// ------------------------------------------------------------------------------------------------
// canonical view of a database file

#[derive(Clone, Debug, Default, PartialEq)]
struct Inspect {
    sites: Vec<(i64, String)>,
    members: i64,
    subs: Option<i64>,
    cs: Option<i64>,
    cc: Option<i64>,
    wal: bool,
    changes: Vec<String>,
    rows: Vec<String>,
    dbv: Vec<(String, i64)>,
}

fn site_name(id: &[u8]) -> String {
    let s = site_index(id);
    if s.starts_with('x') { "?".into() } else { s }
}

fn opt_show(o: Option<i64>) -> String {
    o.map(|n| n.to_string()).unwrap_or_else(|| "-".into())
}

impl Inspect {
    fn show(&self) -> String {
        let sites: Vec<String> = self.sites.iter().map(|(o, s)| format!("{o}:{s}")).collect();
        format!(
            "sites={} local=m{},s{},cs{},cc{} mode={} | {} | {}",
            if sites.is_empty() { "-".into() } else { sites.join(",") },
            self.members,
            opt_show(self.subs),
            opt_show(self.cs),
            opt_show(self.cc),
            if self.wal { "wal" } else { "delete" },
            if self.changes.is_empty() { "-".into() } else { self.changes.join(";") },
            if self.rows.is_empty() { "-".into() } else { self.rows.join(";") },
        )
    }
}

fn table_count(conn: &rusqlite::Connection, tbl: &str) -> rusqlite::Result<Option<i64>> {
    let exists: i64 = conn.query_row("SELECT count(*) FROM sqlite_schema WHERE type = 'table' AND name = ?", [tbl], |r| r.get(0))?;
    if exists == 0 {
        return Ok(None);
    }
    Ok(Some(conn.query_row(&format!("SELECT count(*) FROM \"{tbl}\""), [], |r| r.get(0))?))
}

static VIEW_N: std::sync::atomic::AtomicU64 = std::sync::atomic::AtomicU64::new(0);

/// Opens a COPY of the file (and of its WAL, if any): first without the extension (site table and
/// node-local tables exactly as the CLI left them), then with cr-sqlite for `crsql_changes`.
fn inspect_file(path: &Path, scratch: &Path) -> Result<Inspect, String> {
    let e = |x: rusqlite::Error| x.to_string();
    let mut hdr = [0u8; 100];
    {
        let mut f = std::fs::File::open(path).map_err(|x| x.to_string())?;
        f.read_exact(&mut hdr).map_err(|x| format!("short header: {x}"))?;
    }
    let n = VIEW_N.fetch_add(1, std::sync::atomic::Ordering::SeqCst);
    let view = scratch.join(format!("view{n}.sqlite"));
    std::fs::copy(path, &view).map_err(|x| x.to_string())?;
    let wal_src = PathBuf::from(format!("{}-wal", path.display()));
    let wal_dst = PathBuf::from(format!("{}-wal", view.display()));
    if wal_src.exists() {
        std::fs::copy(&wal_src, &wal_dst).map_err(|x| x.to_string())?;
    }
    let mut ins = Inspect { wal: hdr[18] == 2, ..Default::default() };
    let res: Result<(), String> = (|| {
        let conn = rusqlite::Connection::open(&view).map_err(e)?;
        {
            let mut st = conn.prepare("SELECT ordinal, site_id FROM crsql_site_id ORDER BY ordinal").map_err(e)?;
            let mut q = st.query([]).map_err(e)?;
            while let Some(r) = q.next().map_err(e)? {
                let o: i64 = r.get(0).map_err(e)?;
                let s: Vec<u8> = r.get(1).map_err(e)?;
                ins.sites.push((o, site_name(&s)));
            }
        }
        ins.members = table_count(&conn, "__corro_members").map_err(e)?.unwrap_or(-1);
        ins.subs = table_count(&conn, "__corro_subs").map_err(e)?;
        ins.cs = table_count(&conn, "__corro_consul_services").map_err(e)?;
        ins.cc = table_count(&conn, "__corro_consul_checks").map_err(e)?;
        {
            let mut st = conn.prepare("SELECT site_id, db_version FROM crsql_db_versions").map_err(e)?;
            let mut q = st.query([]).map_err(e)?;
            while let Some(r) = q.next().map_err(e)? {
                let s: Vec<u8> = r.get(0).map_err(e)?;
                ins.dbv.push((site_name(&s), r.get(1).map_err(e)?));
            }
            ins.dbv.sort();
        }
        // now as a cr-sqlite node would see it
        let conn = CrConn::init(conn).map_err(e)?;
        {
            let mut st = conn
                .prepare(r#"SELECT "table", pk, cid, val, col_version, cl, site_id, db_version, seq FROM crsql_changes"#)
                .map_err(e)?;
            let mut q = st.query([]).map_err(e)?;
            let mut chs: Vec<(String, String, String, String)> = vec![];
            while let Some(r) = q.next().map_err(e)? {
                let table: String = r.get(0).map_err(e)?;
                let pk: Vec<u8> = r.get(1).map_err(e)?;
                let cid: String = r.get(2).map_err(e)?;
                let val: SqliteValue = r.get(3).map_err(e)?;
                let colv: i64 = r.get(4).map_err(e)?;
                let cl: i64 = r.get(5).map_err(e)?;
                let site: Option<Vec<u8>> = r.get(6).map_err(e)?;
                let dbv: i64 = r.get(7).map_err(e)?;
                let seq: i64 = r.get(8).map_err(e)?;
                let pk = show_pk(&pk);
                let site = site.map(|s| site_name(&s)).unwrap_or_else(|| "?".into());
                let shown = format!("{table}/{pk}/{cid}={}@{colv}.{cl}.{site}.{dbv}.{seq}", show_val(&val));
                chs.push((table, pk, cid, shown));
            }
            chs.sort();
            ins.changes = chs.into_iter().map(|c| c.3).collect();
        }
        for tbl in ["k", "t", "u"] {
            let (pks, cols) = table_cols(tbl).unwrap();
            let all: Vec<&str> = pks.iter().chain(cols.iter()).copied().collect();
            let mut st = conn.prepare(&format!("SELECT {} FROM {tbl}", all.join(","))).map_err(e)?;
            let mut q = st.query([]).map_err(e)?;
            let mut trs = vec![];
            while let Some(r) = q.next().map_err(e)? {
                let mut pk = vec![];
                for i in 0..pks.len() {
                    pk.push(show_valref(r.get_ref(i).map_err(e)?));
                }
                let mut vs = vec![];
                for i in pks.len()..all.len() {
                    vs.push(show_valref(r.get_ref(i).map_err(e)?));
                }
                trs.push(format!("{tbl}/{}:{}", pk.join("+"), vs.join(",")));
            }
            trs.sort();
            ins.rows.extend(trs);
        }
        Ok(())
    })();
    for suffix in ["", "-wal", "-shm", "-journal"] {
        let _ = std::fs::remove_file(format!("{}{suffix}", view.display()));
    }
    res.map(|_| ins)
}

fn file_hash(path: &Path) -> String {
    match std::fs::read(path) {
        // an empty -wal file is what any SQLite connection that merely reads a WAL database leaves behind
        Ok(b) if b.is_empty() && path.to_string_lossy().ends_with("-wal") => "absent".into(),
        Ok(b) => format!("{}:{:016x}", b.len(), crate::util::fnv(&hex::encode(&b))),
        Err(_) => "absent".into(),
    }
}

// ------------------------------------------------------------------------------------------------
// the world of one case

#[derive(Clone, Copy, PartialEq, Debug)]
enum Kind {
    Grown,
    Empty,
    Frozen,
}

#[derive(Clone, Debug)]
struct SnapInfo {
    /// what the SOURCE database looked like when the backup was taken
    src: Inspect,
    /// a restore that keeps an actor id has already edited this file
    edited: bool,
}

struct World {
    dir: TmpDir,
    conns: BTreeMap<usize, CrConn>,
    kinds: BTreeMap<usize, Kind>,
    log: BTreeMap<(usize, i64), Vec<Chg>>,
    snaps: BTreeMap<usize, SnapInfo>,
    fails: Vec<String>,
    tags: Vec<String>,
    inconclusive: Option<String>,
    restored_ok: bool,
    authors: usize,
}

fn err_class(e: &rusqlite::Error) -> String {
    match e.sqlite_error_code() {
        Some(rusqlite::ErrorCode::ConstraintViolation) => "err constraint".into(),
        Some(c) => format!("err sqlite-{c:?}"),
        None => "err other".into(),
    }
}

fn show_chs(chs: &[Chg]) -> String {
    if chs.is_empty() { "-".into() } else { chs.iter().map(|c| c.show()).collect::<Vec<_>>().join(";") }
}

fn merge_into(conn: &mut CrConn, chs: &[Chg]) -> rusqlite::Result<usize> {
    let tx = conn.transaction()?;
    let mut n = 0;
    for c in chs {
        n += tx
            .prepare_cached(
                r#"INSERT INTO crsql_changes ("table", pk, cid, val, col_version, db_version, site_id, cl, seq)
                   VALUES (?, ?, ?, ?, ?, ?, ?, ?, ?)"#,
            )?
            .execute(rusqlite::params![c.table, c.pk_raw, c.cid, to_sql(&c.val_raw), c.colv, c.dbv, c.site_raw, c.cl, c.seq])?;
    }
    tx.commit()?;
    Ok(n)
}

fn parse_seqs(tok: &str) -> Option<(i64, i64)> {
    if tok == "all" {
        return Some((0, i64::MAX));
    }
    let (a, b) = tok.split_once('-')?;
    Some((a.parse().ok()?, b.parse().ok()?))
}

#[derive(Clone, Copy, PartialEq, Debug)]
enum Keep {
    No,
    SelfId,
    Actor(usize),
}

fn parse_keep(s: &str) -> Option<Keep> {
    match s {
        "no" => Some(Keep::No),
        "self" => Some(Keep::SelfId),
        _ => {
            let i = s.strip_prefix("actor:")?.parse::<usize>().ok()?;
            if i < 8 { Some(Keep::Actor(i)) } else { None }
        }
    }
}

/// lock byte ranges, as sqlite3_restore.rs / SQLite name them
const SLOTS: [(&str, bool, i64, i64); 12] = [
    ("db.PENDING", false, 0x40000000, 1),
    ("db.RESERVED", false, 0x40000001, 1),
    ("db.SHARED", false, 0x40000002, 510),
    ("shm.WRITE", true, 120, 1),
    ("shm.CKPT", true, 121, 1),
    ("shm.RECOVER", true, 122, 1),
    ("shm.READ0", true, 123, 1),
    ("shm.READ1", true, 124, 1),
    ("shm.READ2", true, 125, 1),
    ("shm.READ3", true, 126, 1),
    ("shm.READ4", true, 127, 1),
    ("shm.DMS", true, 128, 1),
];

enum How<'a> {
    Plain,
    Trace,
    Race(usize, &'a str),
    Timeout(&'a str),
}

struct CliOut {
    ok: bool,
    stderr: String,
}

impl World {
    fn new() -> Self {
        World {
            dir: TmpDir::new("c19"),
            conns: BTreeMap::new(),
            kinds: BTreeMap::new(),
            log: BTreeMap::new(),
            snaps: BTreeMap::new(),
            fails: vec![],
            tags: vec![],
            inconclusive: None,
            restored_ok: false,
            authors: 0,
        }
    }
    fn node_dir(&self, i: usize) -> PathBuf {
        self.dir.path().join(format!("n{i}"))
    }
    fn db_path(&self, i: usize) -> PathBuf {
        self.node_dir(i).join(format!("db{i}.sqlite"))
    }
    fn subs_dir(&self, i: usize) -> PathBuf {
        self.node_dir(i).join("subs")
    }
    fn cfg_path(&self, i: usize) -> PathBuf {
        self.node_dir(i).join("config.toml")
    }
    fn snap_path(&self, k: usize) -> PathBuf {
        self.dir.path().join(format!("snap{k}.sqlite"))
    }
    fn scratch(&self) -> PathBuf {
        let p = self.dir.path().join("scratch");
        let _ = std::fs::create_dir_all(&p);
        p
    }
    fn ensure_node(&self, i: usize) {
        let d = self.node_dir(i);
        let _ = std::fs::create_dir_all(&d);
        let cfg = format!(
            "[db]\npath = \"{}\"\nsubscriptions_path = \"{}\"\n[api]\naddr = \"127.0.0.1:0\"\n[gossip]\naddr = \"127.0.0.1:0\"\n[admin]\npath = \"{}\"\n",
            self.db_path(i).display(),
            self.subs_dir(i).display(),
            d.join("admin.sock").display()
        );
        let _ = std::fs::write(self.cfg_path(i), cfg);
    }
    fn set_subs_dir(&self, i: usize, n: usize) {
        let d = self.subs_dir(i);
        let _ = std::fs::remove_dir_all(&d);
        if n > 0 {
            let _ = std::fs::create_dir_all(&d);
            for j in 0..n {
                let _ = std::fs::write(d.join(format!("sub{j}.sqlite")), b"x");
            }
        }
    }
    fn count_subs_dir(&self, i: usize) -> usize {
        std::fs::read_dir(self.subs_dir(i)).map(|rd| rd.count()).unwrap_or(0)
    }
    /// the growable database of node i (created on first use)
    fn db(&mut self, i: usize) -> Option<&mut CrConn> {
        match self.kinds.get(&i) {
            None => {
                self.ensure_node(i);
                let c = open_plain_db(&self.node_dir(i), i).expect("open db");
                self.conns.insert(i, c);
                self.kinds.insert(i, Kind::Grown);
            }
            Some(Kind::Grown) => {}
            Some(_) => return None,
        }
        self.conns.get_mut(&i)
    }

    fn local_write(&mut self, db: usize, stmts: Vec<String>, list: bool) -> String {
        let Some(conn) = self.db(db) else { return "err frozen".into() };
        let before: i64 = conn.query_row("SELECT crsql_db_version()", [], |r| r.get(0)).unwrap();
        let res: rusqlite::Result<()> = (|| {
            let tx = conn.transaction()?;
            for s in &stmts {
                let (sql, params) = match stmt_sql(s) {
                    Some(x) => x,
                    None => return Err(rusqlite::Error::InvalidQuery),
                };
                tx.execute(&sql, rusqlite::params_from_iter(params))?;
            }
            tx.commit()
        })();
        match res {
            Err(rusqlite::Error::InvalidQuery) => "bad-op".into(),
            Err(e) => err_class(&e),
            Ok(()) => {
                let after: i64 = conn.query_row("SELECT crsql_db_version()", [], |r| r.get(0)).unwrap();
                if after == before {
                    return "noop".into();
                }
                let site = site_id(db).to_vec();
                let mut chs = read_changes(conn, "WHERE site_id = ? AND db_version = ? ORDER BY seq", &[&site, &after]).unwrap();
                chs.sort_by_key(|c| c.seq);
                let out = if list { format!("ok v={after} {}", show_chs(&chs)) } else { format!("ok v={after}") };
                self.log.insert((db, after), chs);
                out
            }
        }
    }

    fn set_local(&mut self, i: usize, m: usize, s: Option<usize>, cs: Option<usize>, cc: Option<usize>, dir: usize) -> String {
        let Some(conn) = self.db(i) else { return "err frozen".into() };
        let r: rusqlite::Result<()> = (|| {
            conn.execute("DELETE FROM __corro_members", [])?;
            for j in 0..m {
                conn.execute(
                    "INSERT INTO __corro_members (actor_id, address, foca_state, rtt_min) VALUES (?, ?, '{}', 1)",
                    rusqlite::params![vec![(100 + j) as u8; 16], format!("10.0.0.{j}:1")],
                )?;
            }
            conn.execute_batch("DROP TABLE IF EXISTS __corro_subs; DROP TABLE IF EXISTS __corro_consul_services; DROP TABLE IF EXISTS __corro_consul_checks;")?;
            if let Some(n) = s {
                conn.execute_batch("CREATE TABLE __corro_subs (id TEXT NOT NULL PRIMARY KEY, sql TEXT NOT NULL);")?;
                for j in 0..n {
                    conn.execute("INSERT INTO __corro_subs (id, sql) VALUES (?, 'SELECT 1')", [format!("s{j}")])?;
                }
            }
            for (tbl, cnt) in [("__corro_consul_services", cs), ("__corro_consul_checks", cc)] {
                if let Some(n) = cnt {
                    conn.execute_batch(&format!("CREATE TABLE {tbl} (id TEXT NOT NULL PRIMARY KEY, hash BLOB NOT NULL);"))?;
                    for j in 0..n {
                        conn.execute(&format!("INSERT INTO {tbl} (id, hash) VALUES (?, x'00')"), [format!("c{j}")])?;
                    }
                }
            }
            Ok(())
        })();
        if let Err(e) = r {
            return err_class(&e);
        }
        self.set_subs_dir(i, dir);
        "ok".into()
    }

    fn run_cli(&self, args: &[String], strace_prefix: Option<&Path>) -> CliOut {
        let mut cmd = match strace_prefix {
            Some(p) => {
                let mut c = Command::new("strace");
                c.args(["-f", "-ff", "-s", "0", "-o"]).arg(p).args([
                    "-e",
                    "trace=openat,open,fcntl,read,pread64,unlink,unlinkat,copy_file_range,sendfile,splice,write,pwrite64,ftruncate,fsync,fdatasync,close",
                    CORROSION,
                ]);
                c
            }
            None => Command::new(CORROSION),
        };
        cmd.args(args).env_remove(ENV_CHILD).env("RUST_LOG", "info").env("NO_COLOR", "1").stdin(Stdio::null());
        match cmd.output() {
            Ok(o) => CliOut { ok: o.status.success(), stderr: format!("{}{}", String::from_utf8_lossy(&o.stdout), String::from_utf8_lossy(&o.stderr)) },
            Err(e) => CliOut { ok: false, stderr: format!("spawn failed: {e}") },
        }
    }

    fn node_file_path(&self, i: usize) -> Option<PathBuf> {
        match self.kinds.get(&i) {
            Some(Kind::Grown) | Some(Kind::Frozen) => Some(self.db_path(i)),
            _ => None,
        }
    }

    fn inspect_node(&self, i: usize) -> Result<Option<Inspect>, String> {
        match self.node_file_path(i) {
            Some(p) => inspect_file(&p, &self.scratch()).map(Some),
            None => Ok(None),
        }
    }

    fn backup(&mut self, src: usize, snap: usize) -> String {
        if self.snaps.contains_key(&snap) {
            return "err exists".into();
        }
        let src_ins = match self.inspect_node(src) {
            Ok(Some(i)) => i,
            Ok(None) => return "err no-db".into(),
            Err(e) => {
                self.fails.push(format!("cannot read source database before backup: {e}"));
                return "err inspect".into();
            }
        };
        self.ensure_node(src);
        let path = self.snap_path(snap);
        let out = self.run_cli(&["-c".into(), self.cfg_path(src).display().to_string(), "backup".into(), path.display().to_string()], None);
        if !out.ok {
            // a raw VACUUM INTO copy may have been left behind: the slot stays free
            for suffix in ["", "-wal", "-shm", "-journal"] {
                let _ = std::fs::remove_file(format!("{}{suffix}", path.display()));
            }
            if src_ins.sites.iter().any(|(o, _)| *o == 0) {
                self.fails.push(format!("backup of a database that has a row for itself failed: {}", last_line(&out.stderr)));
            }
            return "err backup".into();
        }
        // oracle on the snapshot itself
        match inspect_file(&path, &self.scratch()) {
            Ok(b) => {
                if b.changes != src_ins.changes {
                    self.fails.push(format!("backup: crsql_changes of the snapshot differ from the source's: {}", first_diff(&src_ins.changes, &b.changes)));
                }
                if b.rows != src_ins.rows {
                    self.fails.push("backup: replicated rows of the snapshot differ from the source's".into());
                }
                if b.dbv != src_ins.dbv {
                    self.fails.push("backup: crsql_db_versions of the snapshot differ from the source's".into());
                }
                if b.sites.iter().any(|(o, _)| *o == 0) {
                    self.fails.push("backup: ordinal 0 is not vacated in the snapshot".into());
                }
                self.check_local_empty("backup", &b, &src_ins);
                if !b.wal {
                    self.fails.push("backup: snapshot is not in WAL mode".into());
                }
            }
            Err(e) => self.fails.push(format!("backup: the snapshot cannot be opened: {e}")),
        }
        let authors: std::collections::BTreeSet<&str> =
            src_ins.changes.iter().filter_map(|c| c.rsplit_once('@').and_then(|(_, k)| k.split('.').nth(2))).collect();
        self.authors = self.authors.max(authors.len());
        self.snaps.insert(snap, SnapInfo { src: src_ins, edited: false });
        "ok".into()
    }

    fn check_local_empty(&mut self, what: &str, got: &Inspect, src: &Inspect) {
        if got.members != 0 {
            self.fails.push(format!("{what}: {} membership rows of the source leaked", got.members));
        }
        if got.subs.unwrap_or(0) != 0 {
            self.fails.push(format!("{what}: {} subscription rows of the source leaked", got.subs.unwrap_or(0)));
        }
        // `consul sync` creates both tables together; a lone checks table is not a state the code produces
        let paired = !(src.cc.is_some() && src.cs.is_none());
        if paired && (got.cs.is_some() || got.cc.is_some()) {
            self.fails.push(format!("{what}: consul hash tables of the source leaked"));
        }
    }

    fn restore(&mut self, snap: usize, dst: usize, keep: Keep, how: How) -> String {
        let Some(info) = self.snaps.get(&snap).cloned() else { return "err no-snapshot".into() };
        let needs_db = matches!(how, How::Race(..) | How::Timeout(_));
        if needs_db && self.node_file_path(dst).is_none() {
            return "err no-db".into();
        }
        self.ensure_node(dst);
        let dst_path = self.db_path(dst);
        let snap_path = self.snap_path(snap);
        // destination before
        let before = match self.inspect_node(dst) {
            Ok(b) => b,
            Err(e) => {
                self.fails.push(format!("cannot read destination before restore: {e}"));
                None
            }
        };
        let dst_self: Option<String> = before.as_ref().and_then(|b| b.sites.iter().find(|(o, _)| *o == 0).map(|(_, s)| s.clone()));
        let dst_was_wal = before.as_ref().map(|b| b.wal);
        let kept: Option<String> = match keep {
            Keep::No => None,
            Keep::SelfId => dst_self.clone(),
            Keep::Actor(i) => Some(i.to_string()),
        };
        let mut args: Vec<String> = vec!["-c".into(), self.cfg_path(dst).display().to_string(), "restore".into(), snap_path.display().to_string()];
        match keep {
            Keep::No => {}
            Keep::SelfId => args.push("--self-actor-id".into()),
            Keep::Actor(i) => {
                args.push("--actor-id".into());
                args.push(uuid::Uuid::from_bytes(site_id(i)).to_string());
            }
        }

        // ---- concurrency set-up
        let mut readers: Vec<Kid> = vec![];
        let mut holder: Option<Kid> = None;
        let mut old_digests: BTreeMap<&str, String> = BTreeMap::new();
        if let How::Race(n, style) = &how {
            // old digests through a connection of our own, before anybody else looks
            if let Ok(c) = rusqlite::Connection::open_with_flags(&dst_path, rusqlite::OpenFlags::SQLITE_OPEN_READ_WRITE) {
                for k in ["qa", "qb", "qc", "ic"] {
                    if let Ok(d) = digest(&c, k) {
                        old_digests.insert(k, d);
                    }
                }
            }
            for _ in 0..*n {
                match spawn_child(&format!("reader|{}|{style}", dst_path.display()), &self.scratch()) {
                    Ok(k) => readers.push(k),
                    Err(e) => {
                        self.inconclusive = Some(format!("reader-spawn:{e}"));
                    }
                }
            }
        }
        if let How::Timeout(slot) = &how {
            // our own connection must be gone first: the last connection to close deletes the -shm file
            self.conns.remove(&dst);
            let wal = dst_was_wal == Some(true);
            match spawn_child(&format!("hold|{}|{}|{slot}", dst_path.display(), wal as u8), &self.scratch()) {
                Ok(k) => holder = Some(k),
                Err(e) => self.inconclusive = Some(format!("holder-spawn:{e}")),
            }
        }
        // our own connection goes away now (with readers attached the WAL stays as it is)
        self.conns.remove(&dst);
        let hash_before = (file_hash(&dst_path), file_hash(Path::new(&format!("{}-wal", dst_path.display()))));
        let dir_before = self.count_subs_dir(dst);

        // ---- the real thing
        let strace_prefix = self.scratch().join(format!("strace-{snap}-{dst}"));
        let out = match how {
            How::Trace => self.run_cli(&args, Some(&strace_prefix)),
            _ => self.run_cli(&args, None),
        };

        let reader_lines: Vec<Vec<String>> = readers.into_iter().map(|k| k.finish()).collect();
        if std::env::var("HX_C19_DEBUG").is_ok() {
            for (i, l) in reader_lines.iter().enumerate() {
                eprintln!("reader {i}: {}", l.join(" | "));
            }
        }
        let hash_after = (file_hash(&dst_path), file_hash(Path::new(&format!("{}-wal", dst_path.display()))));
        if let Some(h) = holder {
            let _ = h.finish();
        }

        // ---- classify
        let result = if out.ok {
            "ok".to_string()
        } else if out.stderr.contains("acquiring lock timed out") {
            "err lock-timeout".to_string()
        } else if out.stderr.contains("no such table: crsql_site_id") || out.stderr.contains("Query returned no rows") {
            "err no-self".to_string()
        } else if matches!(how, How::Trace) && (out.stderr.contains("PTRACE") || out.stderr.contains("ptrace") || out.stderr.contains("spawn failed")) {
            self.inconclusive = Some("strace-unavailable".into());
            "err other".to_string()
        } else {
            self.tags.push(format!("restore-error:{}", last_line(&out.stderr).chars().take(60).collect::<String>()));
            "err other".to_string()
        };

        // what is there now
        let exists_len = std::fs::metadata(&dst_path).map(|m| m.len()).ok();
        if out.ok {
            self.kinds.insert(dst, Kind::Frozen);
        } else if self.kinds.get(&dst).is_none() && exists_len == Some(0) {
            self.kinds.insert(dst, Kind::Empty);
        }

        if !out.ok {
            // "either fails leaving it untouched": database file and WAL byte-identical
            let created_empty = hash_before.0 == "absent" && exists_len == Some(0);
            if hash_after != hash_before && !created_empty {
                self.fails.push(format!("restore failed ({result}) but the destination database file changed"));
            }
            if result == "err no-self" && self.count_subs_dir(dst) != dir_before {
                self.fails.push("restore refused (no self actor id) but the subscriptions directory changed".into());
            }
            if result == "err no-self" && kept.is_some() {
                self.fails.push("restore --self-actor-id refused although the destination has an ordinal-0 row".into());
            }
            if result == "err other" && self.inconclusive.is_none() {
                self.fails.push(format!("restore failed unexpectedly: {}", last_line(&out.stderr)));
            }
            if let How::Timeout(_) = how {
                if result != "err lock-timeout" {
                    self.fails.push(format!("a conflicting lock was held for the whole run but restore answered `{result}`"));
                }
            }
            if matches!(how, How::Race(..)) && result == "err lock-timeout" {
                self.inconclusive = Some("readers-starved-the-restore".into());
            }
            // the snapshot file may have been edited before the copy was attempted
            if result == "err lock-timeout" && keep != Keep::No {
                if let Some(s) = self.snaps.get_mut(&snap) {
                    s.edited = true;
                }
            }
            return result;
        }
        if let How::Timeout(_) = how {
            self.fails.push("a conflicting lock was held for the whole run but restore succeeded".into());
        }
        self.restored_ok = true;

        // ---- oracle on the restored database
        match inspect_file(&dst_path, &self.scratch()) {
            Err(e) => self.fails.push(format!("restored database cannot be opened: {e}")),
            Ok(got) => {
                if info.edited {
                    self.tags.push("snapshot-file-reused-after-edit".into());
                } else if got.changes != info.src.changes {
                    self.fails.push(format!(
                        "restored crsql_changes (with site ids) differ from the source's: {}",
                        first_diff(&info.src.changes, &got.changes)
                    ));
                }
                if got.rows != info.src.rows {
                    self.fails.push("restored replicated rows differ from the source's".into());
                }
                if got.dbv != info.src.dbv {
                    self.fails.push("restored crsql_db_versions differ from the source's".into());
                }
                let zero = got.sites.iter().find(|(o, _)| *o == 0).map(|(_, s)| s.clone());
                match (&kept, keep) {
                    (_, Keep::No) => {
                        if zero.is_some() && !info.edited {
                            self.fails.push("restore without an actor id left somebody on ordinal 0".into());
                        }
                    }
                    (Some(a), _) => {
                        if zero.as_ref() != Some(a) {
                            self.fails.push(format!("ordinal 0 of the restored database is {zero:?}, the kept actor id is {a}"));
                        }
                    }
                    (None, _) => self.fails.push("restore --self-actor-id succeeded without a destination actor id".into()),
                }
                self.check_local_empty("restore", &got, &info.src);
                let mut seen = std::collections::BTreeSet::new();
                for (_, s) in &got.sites {
                    if !seen.insert(s.clone()) {
                        self.fails.push(format!("site {s} appears twice in crsql_site_id of the restored database"));
                    }
                }
            }
        }
        if self.count_subs_dir(dst) != 0 {
            self.fails.push("the destination's subscriptions directory was not wiped".into());
        }
        if keep != Keep::No {
            if let Some(s) = self.snaps.get_mut(&snap) {
                s.edited = true;
            }
        }

        // ---- readers: every successful read is entirely old or entirely new
        if let How::Race(n, style) = &how {
            let mut new_digests: BTreeMap<&str, String> = BTreeMap::new();
            if let Ok(c) = rusqlite::Connection::open_with_flags(&snap_path, rusqlite::OpenFlags::SQLITE_OPEN_READ_ONLY) {
                for k in ["qa", "qb", "qc", "ic"] {
                    if let Ok(d) = digest(&c, k) {
                        new_digests.insert(k, d);
                    }
                }
            }
            if let Ok(c) = rusqlite::Connection::open_with_flags(&dst_path, rusqlite::OpenFlags::SQLITE_OPEN_READ_WRITE) {
                for k in ["qa", "qb", "qc", "ic"] {
                    let d = digest(&c, k);
                    if d.as_ref().ok() != new_digests.get(k) {
                        self.fails.push(format!("after the restore the destination answers {k}={d:?}, the snapshot {:?}", new_digests.get(k)));
                    }
                }
            }
            if old_digests.len() != 4 || new_digests.len() != 4 {
                self.inconclusive = Some("digests-unavailable".into());
            }
            if old_digests.get("qa") == new_digests.get("qa") {
                self.tags.push("race-old-equals-new".into());
            }
            if reader_lines.len() != *n {
                self.inconclusive.get_or_insert("reader-missing".into());
            }
            let mut total_ok = 0u64;
            let mut refused = 0u64;
            let mut saw_old = false;
            let mut saw_new = false;
            for (ri, lines) in reader_lines.iter().enumerate() {
                if lines.last().map(|s| s.as_str()) != Some("DONE") {
                    self.inconclusive.get_or_insert(format!("reader-{ri}-did-not-finish"));
                }
                for l in lines {
                    let p: Vec<&str> = l.split(' ').collect();
                    match p.as_slice() {
                        ["D", phase, kind, d, cnt] => {
                            let cnt: u64 = cnt.parse().unwrap_or(1);
                            total_ok += cnt;
                            let is_old = old_digests.get(kind).map(|x| x == d).unwrap_or(false);
                            let is_new = new_digests.get(kind).map(|x| x == d).unwrap_or(false);
                            saw_old |= is_old;
                            saw_new |= is_new;
                            if !is_old && !is_new {
                                self.fails.push(format!(
                                    "reader {ri} ({style}, phase {phase}) read {kind}={d} ({cnt}x): neither the old ({:?}) nor the new ({:?}) database",
                                    old_digests.get(kind),
                                    new_digests.get(kind)
                                ));
                            } else if *phase == "p" && is_old && !is_new {
                                self.tags.push("race-stale-old-after-restore".into());
                            }
                        }
                        ["E", phase, kind, code, cnt] => {
                            let cnt: u64 = cnt.parse().unwrap_or(1);
                            refused += cnt;
                            let benign = ["DatabaseBusy", "DatabaseLocked", "FileLockingProtocolFailed", "SchemaChanged"].contains(code);
                            if !benign {
                                self.fails.push(format!("reader {ri} ({style}, phase {phase}) {kind} failed with {code} ({cnt}x): not a refusal, its view of the database is corrupt"));
                            } else if *phase == "p" {
                                self.tags.push(format!("race-post-{code}"));
                            }
                        }
                        _ => {}
                    }
                }
            }
            self.tags.push(format!("race-reads:{}", bucket(total_ok)));
            self.tags.push(format!("race-refused:{}", bucket(refused)));
            if saw_old && saw_new {
                self.tags.push("race-saw-old-and-new".into());
            }
            self.tags.push(format!("race-dst-{}", if dst_was_wal == Some(true) { "wal" } else { "delete" }));
        }
        if let How::Trace = how {
            return match self.read_trace(&strace_prefix, &snap_path, &dst_path, dst_was_wal) {
                Ok(p) => format!("ok {p}"),
                Err(e) => {
                    self.inconclusive = Some(format!("strace:{e}"));
                    "ok".into()
                }
            };
        }
        result
    }

    /// Turns the syscall trace of the restore into the step names of `Corro.Locks.restoreProg`, and
    /// checks (independently of the model) that every change to the destination happens under the
    /// full lock set of its journal mode.
    fn read_trace(&mut self, prefix: &Path, snap: &Path, dst: &Path, dst_was_wal: Option<bool>) -> Result<String, String> {
        let dirp = prefix.parent().unwrap();
        let stem = prefix.file_name().unwrap().to_string_lossy().to_string();
        let snap_s = snap.display().to_string();
        let dst_s = dst.display().to_string();
        let mut chosen: Option<Vec<String>> = None;
        for e in std::fs::read_dir(dirp).map_err(|e| e.to_string())? {
            let p = e.map_err(|e| e.to_string())?.path();
            if !p.file_name().unwrap().to_string_lossy().starts_with(&format!("{stem}.")) {
                continue;
            }
            let text = std::fs::read_to_string(&p).unwrap_or_default();
            let _ = std::fs::remove_file(&p);
            let lines: Vec<String> = text.lines().map(|s| s.to_string()).collect();
            if let Some(pos) = lines.iter().rposition(|l| l.starts_with("openat(") && l.contains(&format!("\"{snap_s}\"")) && l.contains("O_RDONLY")) {
                chosen = Some(lines[pos..].to_vec());
            }
        }
        let lines = chosen.ok_or("no-restore-in-trace")?;
        let ret = |l: &str| -> Option<i64> { l.rsplit_once(" = ").and_then(|(_, r)| r.split_whitespace().next().and_then(|x| x.parse().ok())) };
        let fd_arg = |l: &str| -> Option<i64> { l.split_once('(').and_then(|(_, r)| r.split(|c| c == ',' || c == ')').next().and_then(|x| x.trim().parse().ok())) };
        let src_fd = ret(&lines[0]).ok_or("src-fd")?;
        let (mut dst_fd, mut shm_fd) = (-1i64, -1i64);
        let mut steps: Vec<String> = vec![];
        let push = |steps: &mut Vec<String>, s: &str| {
            if steps.last().map(|x| x.as_str()) != Some(s) {
                steps.push(s.to_string());
            }
        };
        for l in &lines[1..] {
            let name = l.split('(').next().unwrap_or("");
            match name {
                "openat" | "open" => {
                    if l.contains(&format!("\"{dst_s}\"")) {
                        dst_fd = ret(l).unwrap_or(-1);
                    } else if l.contains(&format!("\"{dst_s}-shm\"")) {
                        shm_fd = ret(l).unwrap_or(-1);
                    } else if l.contains(&format!("\"{dst_s}-wal\"")) && l.contains("O_TRUNC") {
                        push(&mut steps, "truncwal");
                    }
                }
                "fcntl" if l.contains("F_SETLK") => {
                    let fd = fd_arg(l).unwrap_or(-2);
                    if (fd == dst_fd || fd == shm_fd) && ret(l) == Some(0) {
                        let get = |key: &str| -> Option<i64> {
                            l.split_once(key).and_then(|(_, r)| r.split(|c| c == ',' || c == '}').next().and_then(|x| x.trim().parse().ok()))
                        };
                        let start = get("l_start=").unwrap_or(-1);
                        let len = get("l_len=").unwrap_or(-1);
                        let shm = fd == shm_fd;
                        let slot = SLOTS
                            .iter()
                            .find(|s| s.1 == shm && s.2 == start && s.3 == len)
                            .map(|s| s.0.to_string())
                            .unwrap_or_else(|| format!("{}.?{start}+{len}", if shm { "shm" } else { "db" }));
                        if l.contains("F_UNLCK") {
                            steps.push(format!("unlock:{slot}"));
                        } else if l.contains("F_RDLCK") {
                            steps.push(format!("lock:{slot}:r"));
                        } else if l.contains("F_WRLCK") {
                            steps.push(format!("lock:{slot}:w"));
                        }
                    }
                }
                "read" | "pread64" => {
                    if fd_arg(l) == Some(dst_fd) && dst_fd >= 0 {
                        push(&mut steps, "readhdr");
                    }
                }
                "unlink" | "unlinkat" => {
                    if l.contains(&format!("\"{dst_s}-journal\"")) {
                        push(&mut steps, "rmjournal");
                    }
                }
                "copy_file_range" | "sendfile" | "splice" => {
                    if l.contains(&format!("{dst_fd}")) && dst_fd >= 0 && l.contains(&format!("{src_fd}")) {
                        push(&mut steps, "copy");
                    }
                }
                "write" | "ftruncate" | "fsync" | "fdatasync" => {
                    if fd_arg(l) == Some(dst_fd) && dst_fd >= 0 {
                        push(&mut steps, "copy");
                    }
                }
                "pwrite64" => {
                    if fd_arg(l) == Some(shm_fd) && shm_fd >= 0 {
                        push(&mut steps, "zeroshm");
                    } else if fd_arg(l) == Some(dst_fd) && dst_fd >= 0 {
                        push(&mut steps, "copy");
                    }
                }
                "close" => {
                    let fd = fd_arg(l);
                    if (fd == Some(dst_fd) && dst_fd >= 0) || (fd == Some(shm_fd) && shm_fd >= 0) {
                        push(&mut steps, "close");
                        if fd == Some(dst_fd) {
                            break;
                        }
                    }
                }
                _ => {}
            }
        }
        // independent oracle: changes only under the full lock set
        if let Some(wal) = dst_was_wal {
            let need: Vec<&str> = if wal {
                vec!["shm.WRITE", "shm.CKPT", "shm.RECOVER", "shm.READ0", "shm.READ1", "shm.READ2", "shm.READ3", "shm.READ4"]
            } else {
                vec!["db.RESERVED", "db.PENDING", "db.SHARED"]
            };
            let mut held: BTreeMap<String, String> = BTreeMap::new();
            for s in &steps {
                let p: Vec<&str> = s.split(':').collect();
                match p.as_slice() {
                    ["lock", slot, k] => {
                        held.insert(slot.to_string(), k.to_string());
                    }
                    ["unlock", slot] => {
                        held.remove(*slot);
                    }
                    ["close"] => held.clear(),
                    [m] if ["rmjournal", "truncwal", "copy", "zeroshm"].contains(m) => {
                        let missing: Vec<&&str> = need.iter().filter(|n| held.get(**n).map(|k| k.as_str()) != Some("w")).collect();
                        if !missing.is_empty() {
                            self.fails.push(format!("the restore performed `{m}` on a live destination without holding {missing:?} exclusively"));
                            break;
                        }
                    }
                    _ => {}
                }
            }
            if !steps.iter().any(|s| s == "copy") {
                self.fails.push("the trace of a successful restore contains no copy".into());
            }
        }
        Ok(if steps.is_empty() { "-".into() } else { steps.join(",") })
    }
}

fn bucket(n: u64) -> &'static str {
    match n {
        0 => "0",
        1..=9 => "1-9",
        10..=99 => "10-99",
        100..=999 => "100-999",
        _ => "1000+",
    }
}

fn last_line(s: &str) -> String {
    s.lines().rev().find(|l| !l.trim().is_empty()).unwrap_or("").trim().to_string()
}

fn first_diff(want: &[String], got: &[String]) -> String {
    for w in want {
        if !got.contains(w) {
            return format!("source has `{w}`, restored has {:?}", got.iter().find(|g| g.split('=').next() == w.split('=').next()));
        }
    }
    for g in got {
        if !want.contains(g) {
            return format!("restored has extra `{g}`");
        }
    }
    "order differs".into()
}

fn exec_op(w: &mut World, toks: &[&str]) -> String {
    let pu = |s: &str| s.parse::<usize>().ok().filter(|x| *x < 8);
    let opt = |s: &str| -> Option<Option<usize>> { if s == "-" { Some(None) } else { s.parse::<usize>().ok().map(Some) } };
    match toks {
        ["cw", db, stmts] => match pu(db) {
            Some(db) => w.local_write(db, stmts.split(';').map(|s| s.to_string()).collect(), true),
            None => "bad-op".into(),
        },
        ["bulk", db, n, len] => {
            let (Some(db), Ok(n), Ok(len)) = (pu(db), n.parse::<usize>(), len.parse::<usize>()) else { return "bad-op".into() };
            if n == 0 || n > 2000 || len > 4000 {
                return "bad-op".into();
            }
            let stmts: Vec<String> = (0..n)
                .map(|j| format!("ins:t:i{}:a=t{},b=i{j}", 1000 + j, hex::encode(vec![(0x61 + j % 26) as u8; len])))
                .collect();
            w.local_write(db, stmts, false)
        }
        ["cm", dst, from, site, ver, seqs] => {
            let (Some(dst), Some(from), Some(site), Ok(ver), Some((lo, hi))) = (pu(dst), pu(from), pu(site), ver.parse::<i64>(), parse_seqs(seqs)) else {
                return "bad-op".into();
            };
            if w.db(dst).is_none() || w.db(from).is_none() {
                return "err frozen".into();
            }
            let sid = site_id(site).to_vec();
            let chs = read_changes(w.db(from).unwrap(), "WHERE site_id = ? AND db_version = ? AND seq BETWEEN ? AND ? ORDER BY seq", &[&sid, &ver, &lo, &hi]).unwrap();
            match merge_into(w.db(dst).unwrap(), &chs) {
                Ok(_) => format!("ok n={} | {}", chs.len(), dump_db(w.db(dst).unwrap()).unwrap()),
                Err(e) => err_class(&e),
            }
        }
        ["co", dst, site, ver, seqs] => {
            let (Some(dst), Some(site), Ok(ver), Some((lo, hi))) = (pu(dst), pu(site), ver.parse::<i64>(), parse_seqs(seqs)) else {
                return "bad-op".into();
            };
            if w.db(dst).is_none() {
                return "err frozen".into();
            }
            let chs: Vec<Chg> = match w.log.get(&(site, ver)) {
                Some(l) => l.iter().filter(|c| c.seq >= lo && c.seq <= hi).cloned().collect(),
                None => return "err no-such-version".into(),
            };
            match merge_into(w.db(dst).unwrap(), &chs) {
                Ok(_) => format!("ok n={} | {}", chs.len(), dump_db(w.db(dst).unwrap()).unwrap()),
                Err(e) => err_class(&e),
            }
        }
        ["local", db, m, s, cs, cc, dir] => {
            let (Some(db), Ok(m), Some(s), Some(cs), Some(cc), Ok(dir)) = (pu(db), m.parse::<usize>(), opt(s), opt(cs), opt(cc), dir.parse::<usize>()) else {
                return "bad-op".into();
            };
            w.set_local(db, m, s, cs, cc, dir)
        }
        ["mode", db, m] => {
            let Some(db) = pu(db) else { return "bad-op".into() };
            if *m != "wal" && *m != "delete" {
                return "bad-op".into();
            }
            let Some(conn) = w.db(db) else { return "err frozen".into() };
            let got: rusqlite::Result<String> = conn.query_row(&format!("PRAGMA journal_mode = {m}"), [], |r| r.get(0));
            match got {
                Ok(g) if g == *m => "ok".into(),
                Ok(g) => format!("err mode-{g}"),
                Err(e) => err_class(&e),
            }
        }
        ["mkempty", db, dir] => {
            let (Some(db), Ok(dir)) = (pu(db), dir.parse::<usize>()) else { return "bad-op".into() };
            if w.kinds.contains_key(&db) {
                return "err exists".into();
            }
            w.ensure_node(db);
            let _ = std::fs::write(w.db_path(db), b"");
            w.set_subs_dir(db, dir);
            w.kinds.insert(db, Kind::Empty);
            "ok".into()
        }
        ["backup", src, snap] => match (pu(src), pu(snap)) {
            (Some(s), Some(k)) => w.backup(s, k),
            _ => "bad-op".into(),
        },
        ["restore", snap, dst, keep] => match (pu(snap), pu(dst), parse_keep(keep)) {
            (Some(k), Some(d), Some(keep)) => w.restore(k, d, keep, How::Plain),
            _ => "bad-op".into(),
        },
        ["trace", snap, dst, keep] => match (pu(snap), pu(dst), parse_keep(keep)) {
            (Some(k), Some(d), Some(keep)) => w.restore(k, d, keep, How::Trace),
            _ => "bad-op".into(),
        },
        ["race", snap, dst, keep, n, style] => match (pu(snap), pu(dst), parse_keep(keep), n.parse::<usize>()) {
            (Some(k), Some(d), Some(keep), Ok(n)) if (1..=4).contains(&n) && ["plain", "mmap", "alt", "altmmap", "tiny", "alttiny"].contains(style) => {
                w.restore(k, d, keep, How::Race(n, style))
            }
            _ => "bad-op".into(),
        },
        ["timeout", snap, dst, keep, slot] => match (pu(snap), pu(dst), parse_keep(keep)) {
            (Some(k), Some(d), Some(keep)) => {
                if !w.snaps.contains_key(&k) {
                    return "err no-snapshot".into();
                }
                let wal = match w.inspect_node(d) {
                    Ok(Some(i)) => i.wal,
                    _ => return "err no-db".into(),
                };
                let wanted: &[&str] = if wal {
                    &["shm.WRITE", "shm.CKPT", "shm.RECOVER", "shm.READ0", "shm.READ1", "shm.READ2", "shm.READ3", "shm.READ4"]
                } else {
                    &["db.RESERVED", "db.PENDING", "db.SHARED"]
                };
                if !wanted.contains(slot) {
                    return "bad-op".into();
                }
                w.restore(k, d, keep, How::Timeout(slot))
            }
            _ => "bad-op".into(),
        },
        ["inspect", db] => {
            let Some(db) = pu(db) else { return "bad-op".into() };
            let dir = w.count_subs_dir(db);
            match w.kinds.get(&db) {
                None => format!("absent dir={dir}"),
                Some(Kind::Empty) => format!("empty dir={dir}"),
                Some(_) => match w.inspect_node(db) {
                    Ok(Some(i)) => format!("dir={dir} {}", i.show()),
                    Ok(None) => "?".into(),
                    Err(e) => {
                        w.fails.push(format!("database of node {db} cannot be opened: {e}"));
                        "err inspect".into()
                    }
                },
            }
        }
        ["tag", _word] => "ok".into(),
        ["inspects", snap] => {
            let Some(k) = pu(snap) else { return "bad-op".into() };
            if !w.snaps.contains_key(&k) {
                return "err no-snapshot".into();
            }
            match inspect_file(&w.snap_path(k), &w.scratch()) {
                Ok(i) => i.show(),
                Err(e) => {
                    w.fails.push(format!("snapshot {k} cannot be opened: {e}"));
                    "err inspect".into()
                }
            }
        }
        _ => "bad-op".into(),
    }
}

// ------------------------------------------------------------------------------------------------
// generator

fn gen_val(rng: &mut Rng, col: &str) -> String {
    match col {
        "b" => match rng.below(6) {
            0 => "n".into(),
            _ => format!("i{}", rng.range(0, 3)),
        },
        _ => match rng.below(8) {
            0 => "n".into(),
            1 => "t".into(),
            2 => format!("b{:02x}", rng.range(0x61, 0x63)),
            3 => format!("t{:02x}{:02x}", rng.range(0x61, 0x62), rng.range(0x61, 0x62)),
            _ => format!("t{:02x}", rng.range(0x61, 0x63)),
        },
    }
}

fn gen_pk(rng: &mut Rng, tbl: &str) -> String {
    match tbl {
        "u" => format!("i{}+t{:02x}", rng.range(1, 2), rng.range(0x61, 0x62)),
        _ => format!("i{}", rng.range(1, 4)),
    }
}

fn gen_stmt(rng: &mut Rng) -> String {
    let tbl = *rng.pick(&["t", "t", "t", "u", "k"]);
    let (_, cols) = table_cols(tbl).unwrap();
    let pk = gen_pk(rng, tbl);
    let kind = if cols.is_empty() { *rng.pick(&["ins", "ins", "del"]) } else { *rng.pick(&["ins", "ins", "ins", "upd", "upd", "del"]) };
    match kind {
        "del" => format!("del:{tbl}:{pk}"),
        _ => {
            let mut assigns = vec![];
            for c in cols {
                if rng.chance(2, 3) {
                    assigns.push(format!("{c}={}", gen_val(rng, c)));
                }
            }
            if kind == "upd" && assigns.is_empty() {
                assigns.push(format!("{}={}", cols[0], gen_val(rng, cols[0])));
            }
            format!("{kind}:{tbl}:{pk}:{}", if assigns.is_empty() { "-".into() } else { assigns.join(",") })
        }
    }
}

/// a history on `ndb` databases that leaves changes by several authors (and deletions) everywhere
fn gen_growth(rng: &mut Rng, ndb: usize, nops: u64, ops: &mut Vec<String>) {
    let mut vers: Vec<i64> = vec![0; ndb];
    for step in 0..nops {
        match rng.below(10) {
            0..=4 => {
                let db = if (step as usize) < ndb { step as usize } else { rng.below(ndb as u64) as usize };
                let n = if rng.chance(1, 2) { rng.range(2, 4) } else { 1 };
                let st: Vec<String> = (0..n).map(|_| gen_stmt(rng)).collect();
                ops.push(format!("cw {db} {}", st.join(";")));
                vers[db] += 1;
            }
            5..=7 => {
                let site = rng.below(ndb as u64) as usize;
                if vers[site] == 0 {
                    continue;
                }
                let dst = rng.below(ndb as u64) as usize;
                let ver = rng.range(1, vers[site] as u64);
                let seqs = if rng.chance(1, 5) { let a = rng.range(0, 2); format!("{a}-{}", a + rng.range(0, 2)) } else { "all".into() };
                if dst != site {
                    ops.push(format!("co {dst} {site} {ver} {seqs}"));
                }
            }
            _ => {
                let site = rng.below(ndb as u64) as usize;
                if vers[site] == 0 {
                    continue;
                }
                let from = rng.below(ndb as u64) as usize;
                let dst = rng.below(ndb as u64) as usize;
                let ver = rng.range(1, vers[site] as u64);
                if dst != from && dst != site {
                    ops.push(format!("cm {dst} {from} {site} {ver} all"));
                }
            }
        }
    }
    // make sure the first database has heard of everybody
    for s in 1..ndb {
        for v in 1..=vers[s].min(3) {
            if rng.chance(3, 4) {
                ops.push(format!("co 0 {s} {v} all"));
            }
        }
    }
}

fn gen_local(rng: &mut Rng, db: usize) -> String {
    let (cs, cc) = match rng.below(8) {
        0..=3 => ("-".to_string(), "-".to_string()),
        4..=6 => (rng.range(0, 3).to_string(), rng.range(0, 3).to_string()),
        _ => ("-".to_string(), rng.range(1, 2).to_string()), // a lone checks table: correspondence only
    };
    let subs = if rng.chance(1, 2) { "-".to_string() } else { rng.range(0, 3).to_string() };
    format!("local {db} {} {subs} {cs} {cc} {}", rng.range(0, 4), rng.range(0, 3))
}

/// Schema cookie (number of schema changes on top of crkit's template) of a database after its one
/// `local` op, resp. of the snapshot `backup` makes of it (`VACUUM INTO` adds one, every dropped consul
/// table one).  SQLite validates a connection's cached schema by this number only, so a reader whose
/// database is replaced by one with the SAME cookie keeps using the old root pages: reported to the
/// coordinator as a hazard of restoring under live readers; generated races keep the cookies different.
fn schema_cookie_after(local: Option<&str>, snapshot: bool) -> u64 {
    let (mut s, mut cs, mut cc) = (false, false, false);
    if let Some(l) = local {
        let t: Vec<&str> = l.split_whitespace().collect();
        if t.len() == 7 {
            s = t[3] != "-";
            cs = t[4] != "-";
            cc = t[5] != "-";
        }
    }
    let creates = s as u64 + cs as u64 + cc as u64;
    if !snapshot {
        return creates;
    }
    creates + 1 + if cs { 1 + cc as u64 } else { 0 }
}

fn gen_keep(rng: &mut Rng, ndb: usize) -> String {
    match rng.below(6) {
        0 | 1 => "no".into(),
        2 | 3 => "self".into(),
        4 => format!("actor:{}", rng.below(ndb as u64)),
        _ => format!("actor:{}", rng.range(ndb as u64, 7)),
    }
}

fn scenario(src_wal: bool, dst_kind: usize, keep: &str) -> Vec<String> {
    // fixed small history: node 0 writes, deletes, hears from 1 and 2; node 1 is another actor's database
    let mut ops: Vec<String> = vec![
        "cw 0 ins:t:i1:a=t61,b=i1;ins:t:i2:a=t62;ins:u:i1+t61:x=t78;ins:k:i1:-".into(),
        "cw 1 ins:t:i3:a=t63,b=i2;ins:k:i2:-".into(),
        "cw 2 ins:t:i4:a=b64;upd:t:i4:b=i3".into(),
        "co 0 1 1 all".into(),
        "co 0 2 1 all".into(),
        "cw 0 del:t:i2;upd:t:i3:a=t7a".into(),
        "cw 1 ins:t:i5:a=t65".into(),
        "co 1 0 1 0-1".into(),
        "local 0 3 2 1 2 2".into(),
        "local 1 1 - - - 3".into(),
        format!("mode 0 {}", if src_wal { "wal" } else { "delete" }),
        "inspect 0".into(),
        "backup 0 0".into(),
        "inspects 0".into(),
    ];
    let dst = match dst_kind {
        0 => 5, // absent
        1 => {
            ops.push("mkempty 5 2".into());
            5
        }
        2 => 1, // another actor's database, WAL
        3 => {
            ops.push("mode 1 delete".into());
            1
        }
        _ => 0, // the source itself
    };
    ops.push(format!("restore 0 {dst} {keep}"));
    ops.push(format!("inspect {dst}"));
    ops.push("inspects 0".into());
    ops
}

impl Prop for C19 {
    fn id(&self) -> &'static str {
        "C19"
    }
    fn rule(&self) -> &'static str {
        "one case = a history of local writes, deletions and merges on 2-4 real cr-sqlite databases, then the real `corrosion backup` \
         and `corrosion restore` CLI (destination absent / empty / another actor's database / the source; with and without keeping an \
         actor id; plain, under strace, with reader processes, or against a held lock); non-trivial iff a restore succeeded and the \
         source held changes by at least two authors; distinct by hash of the op list"
    }
    fn default_cases(&self, tier: Tier) -> usize {
        match tier {
            Tier::Quick => 20,
            Tier::Thorough => 300,
        }
    }
    fn enumerated_case(&self, tier: Tier, index: usize) -> Option<Vec<String>> {
        // the scenario matrix: source journal mode x destination kind x kept actor
        let keeps = ["no", "self", "actor:1", "actor:6", "actor:0"];
        let mut all: Vec<Vec<String>> = vec![];
        for (si, src_wal) in [true, false].iter().enumerate() {
            for dst_kind in 0..5usize {
                for (ki, keep) in keeps.iter().enumerate() {
                    // quick: a covering third of the matrix
                    if tier == Tier::Quick && (si + dst_kind + ki) % 4 != 0 {
                        continue;
                    }
                    all.push(scenario(*src_wal, dst_kind, keep));
                }
            }
        }
        // lock programs, per journal mode of the destination
        for (mode, keep) in [("wal", "self"), ("delete", "no")] {
            let mut ops = scenario(true, 2, keep);
            ops.truncate(ops.len() - 3);
            ops.push(format!("mode 1 {mode}"));
            ops.push(format!("trace 0 1 {keep}"));
            ops.push("inspect 1".into());
            all.push(ops);
        }
        {
            let mut ops = scenario(false, 0, "no");
            ops.truncate(ops.len() - 3);
            ops.push("trace 0 5 no".into());
            ops.push("inspect 5".into());
            all.push(ops);
        }
        // a held lock: 30 s time-out, destination untouched
        // (`self` makes the CLI read the destination through SQLite first, which a foreign shared lock on
        // shm.WRITE of a fresh -shm would already refuse with SQLITE_PROTOCOL: that slot is tried without it)
        let timeouts: &[(&str, &str, &str)] = if tier == Tier::Quick {
            &[("wal", "shm.READ1", "self")]
        } else {
            &[("wal", "shm.READ1", "self"), ("wal", "shm.WRITE", "no"), ("wal", "shm.READ4", "actor:6"), ("delete", "db.SHARED", "self"), ("delete", "db.RESERVED", "no")]
        };
        for (mode, slot, keep) in timeouts {
            let mut ops = scenario(true, 2, keep);
            ops.truncate(ops.len() - 3);
            ops.push(format!("mode 1 {mode}"));
            ops.push(format!("timeout 0 1 {keep} {slot}"));
            ops.push("inspect 1".into());
            ops.push("inspects 0".into());
            all.push(ops);
        }
        all.get(index).cloned()
    }
    fn gen_case(&self, rng: &mut Rng, tier: Tier, _index: usize) -> Vec<String> {
        let ndb = rng.range(2, 4) as usize;
        let nops = if tier == Tier::Thorough { rng.range(6, 30) } else { rng.range(5, 16) };
        let mut ops = vec![];
        gen_growth(rng, ndb, nops, &mut ops);
        let src = rng.below(ndb as u64) as usize;
        let racy = rng.chance(1, 3);
        let other = (src + 1 + rng.below(ndb as u64 - 1) as usize) % ndb;
        let mut locals: Vec<Option<String>> = (0..ndb).map(|db| if rng.chance(2, 3) { Some(gen_local(rng, db)) } else { None }).collect();
        if racy {
            // Stay out of the region of the reported hazard (see `schema_cookie_after`): a reader whose cached
            // schema cookie equals the snapshot's keeps its cached root pages.  The pinned replay covers it.
            let snap_cookie = schema_cookie_after(locals[src].as_deref(), true);
            if schema_cookie_after(locals[other].as_deref(), false) == snap_cookie {
                locals[other] = None;
            }
        }
        for db in 0..ndb {
            if let Some(l) = &locals[db] {
                ops.push(l.clone());
            }
            if rng.chance(1, 2) {
                ops.push(format!("mode {db} {}", rng.pick(&["wal", "delete"])));
            }
        }
        if racy {
            // old and new database clearly differ in size (so do their digests and their page counts: a
            // rollback-journal reader validates its cache by change counter + page count + freelist)
            let (n1, l1) = (rng.range(50, 400), rng.range(20, 300));
            let (mut n2, mut l2) = (rng.range(50, 400), rng.range(20, 300));
            while (n1 * l1).abs_diff(n2 * l2) < 24_000 {
                n2 = rng.range(50, 400);
                l2 = rng.range(20, 300);
            }
            ops.push(format!("bulk {src} {n1} {l1}"));
            ops.push(format!("bulk {other} {n2} {l2}"));
        }
        ops.push(format!("inspect {src}"));
        ops.push(format!("backup {src} 0"));
        ops.push("inspects 0".into());
        let keep = gen_keep(rng, ndb);
        let dst = if racy {
            other
        } else {
            match rng.below(6) {
                0 => ndb, // absent
                1 => {
                    ops.push(format!("mkempty {ndb} {}", rng.range(0, 2)));
                    ndb
                }
                2 => src,
                _ => other,
            }
        };
        if racy {
            ops.push(format!("race 0 {dst} {keep} {} {}", rng.range(1, 3), rng.pick(&["plain", "mmap", "alt", "altmmap", "tiny", "alttiny"])));
        } else if rng.chance(1, 5) {
            ops.push(format!("trace 0 {dst} {keep}"));
        } else {
            ops.push(format!("restore 0 {dst} {keep}"));
        }
        ops.push(format!("inspect {dst}"));
        ops.push("inspects 0".into());
        // second generation / reuse
        match rng.below(5) {
            0 => {
                ops.push(format!("backup {dst} 1"));
                let d2 = (ndb + 1).min(7);
                ops.push(format!("restore 1 {d2} {}", gen_keep(rng, ndb)));
                ops.push(format!("inspect {d2}"));
            }
            1 => {
                let d2 = (ndb + 2).min(7);
                ops.push(format!("restore 0 {d2} {}", gen_keep(rng, ndb)));
                ops.push(format!("inspect {d2}"));
            }
            _ => {}
        }
        ops
    }
    fn exec_case(&self, ops: &[String]) -> CaseResult {
        let mut r = CaseResult::default();
        let mut w = World::new();
        for op in ops {
            let toks: Vec<&str> = op.split_whitespace().collect();
            let out = exec_op(&mut w, &toks);
            if out.starts_with("err") {
                r.tags.push(out.split(' ').take(2).collect::<Vec<_>>().join("-"));
            }
            r.outputs.push(out);
        }
        r.oracle_failures = std::mem::take(&mut w.fails);
        r.oracle_failures.dedup();
        r.tags.extend(std::mem::take(&mut w.tags));
        r.inconclusive = w.inconclusive.take();
        r.nontrivial = w.restored_ok && w.authors >= 2;
        w.conns.clear();
        r
    }
    fn begin(&self) {
        if let Ok(spec) = std::env::var(ENV_CHILD) {
            child_main(&spec);
        }
        // the CLI under test is built from /repo's working tree, every run
        let out = Command::new("cargo")
            .args(["build", "--offline", "-p", "klukai", "--bin", "corrosion"])
            .current_dir(REPO)
            .env_remove("RUSTFLAGS")
            .env_remove("CARGO_TARGET_DIR")
            .env_remove("CARGO_ENCODED_RUSTFLAGS")
            .output();
        match out {
            Ok(o) if o.status.success() => {}
            Ok(o) => {
                eprintln!("C19: `cargo build -p klukai --bin corrosion` failed in {REPO}:\n{}", String::from_utf8_lossy(&o.stderr));
                std::process::exit(4);
            }
            Err(e) => {
                eprintln!("C19: cannot run cargo: {e}");
                std::process::exit(4);
            }
        }
        if !Path::new(CORROSION).exists() {
            eprintln!("C19: {CORROSION} missing after the build");
            std::process::exit(4);
        }
    }
    fn end(&self) {
        cleanup_template();
    }
}
