use std::ops::RangeInclusive;

pub fn split_list(s: &str) -> Vec<&str> {
    if s == "-" || s.is_empty() { vec![] } else { s.split(',').collect() }
}

pub fn show_list<S: AsRef<str>>(xs: &[S], sep: &str) -> String {
    if xs.is_empty() {
        "-".to_string()
    } else {
        xs.iter().map(|s| s.as_ref()).collect::<Vec<_>>().join(sep)
    }
}

pub fn parse_range(s: &str) -> Option<(u64, u64)> {
    let (a, b) = s.split_once('-')?;
    Some((a.parse().ok()?, b.parse().ok()?))
}

pub fn parse_ranges(s: &str) -> Option<Vec<(u64, u64)>> {
    split_list(s).into_iter().map(parse_range).collect()
}

pub fn show_range(r: (u64, u64)) -> String {
    format!("{}-{}", r.0, r.1)
}

pub fn show_ranges(rs: &[(u64, u64)]) -> String {
    show_list(&rs.iter().map(|r| show_range(*r)).collect::<Vec<_>>(), ",")
}

pub fn show_nats(xs: &[u64]) -> String {
    show_list(&xs.iter().map(|x| x.to_string()).collect::<Vec<_>>(), ",")
}

pub fn parse_nats(s: &str) -> Option<Vec<u64>> {
    split_list(s).into_iter().map(|x| x.parse().ok()).collect()
}

pub fn rng_incl<T: Copy>(r: &RangeInclusive<T>) -> (T, T) {
    (*r.start(), *r.end())
}

/// FNV-1a, for counting distinct cases.
pub fn fnv(s: &str) -> u64 {
    let mut h: u64 = 0xcbf29ce484222325;
    for b in s.as_bytes() {
        h ^= *b as u64;
        h = h.wrapping_mul(0x100000001b3);
    }
    h
}
