//! Verification harness: generators, real-code executors and property oracles.
//! Every property module offers `gen_case` (op lines from one PRNG state) and `exec_case`
//! (runs the REAL implementation on op lines, returns canonical output lines + oracle verdicts).
//! One cargo feature per property module (so that work on one module cannot break the others).
pub mod rng;
pub mod runner;
pub mod util;
#[cfg(any(feature = "c01", feature = "c03", feature = "c05", feature = "c06", feature = "c07", feature = "c10", feature = "c11", feature = "c12", feature = "c13", feature = "c14", feature = "c16", feature = "c19"))]
pub mod crkit;
#[cfg(any(feature = "c01", feature = "c03", feature = "c05", feature = "c06", feature = "c07", feature = "c10"))]
pub mod cluster;

#[cfg(feature = "c01")]
pub mod c01;
#[cfg(feature = "c02")]
pub mod c02;
#[cfg(feature = "c03")]
pub mod c03;
#[cfg(feature = "c04")]
pub mod c04;
#[cfg(feature = "c05")]
pub mod c05;
#[cfg(feature = "c06")]
pub mod c06;
#[cfg(feature = "c07")]
pub mod c07;
#[cfg(feature = "c08")]
pub mod c08;
#[cfg(feature = "c09")]
pub mod c09;
#[cfg(feature = "c10")]
pub mod c10;
#[cfg(feature = "c11")]
pub mod c11;
#[cfg(feature = "c12")]
pub mod c12;
#[cfg(feature = "c13")]
pub mod c13;
#[cfg(feature = "c14")]
pub mod c14;
#[cfg(feature = "c15")]
pub mod c15;
#[cfg(feature = "c16")]
pub mod c16;
#[cfg(feature = "c17")]
pub mod c17;
#[cfg(feature = "c18")]
pub mod c18;
#[cfg(feature = "c19")]
pub mod c19;
#[cfg(feature = "c20")]
pub mod c20;

use runner::Prop;

pub fn prop_by_id(id: &str) -> Option<Box<dyn Prop>> {
    match id {
        #[cfg(feature = "c01")]
        "C01" => Some(Box::new(c01::C01)),
        #[cfg(feature = "c02")]
        "C02" => Some(Box::new(c02::C02)),
        #[cfg(feature = "c03")]
        "C03" => Some(Box::new(c03::C03)),
        #[cfg(feature = "c04")]
        "C04" => Some(Box::new(c04::C04)),
        #[cfg(feature = "c05")]
        "C05" => Some(Box::new(c05::C05)),
        #[cfg(feature = "c06")]
        "C06" => Some(Box::new(c06::C06)),
        #[cfg(feature = "c07")]
        "C07" => Some(Box::new(c07::C07)),
        #[cfg(feature = "c08")]
        "C08" => Some(Box::new(c08::C08)),
        #[cfg(feature = "c09")]
        "C09" => Some(Box::new(c09::C09)),
        #[cfg(feature = "c10")]
        "C10" => Some(Box::new(c10::C10)),
        #[cfg(feature = "c11")]
        "C11" => Some(Box::new(c11::C11)),
        #[cfg(feature = "c12")]
        "C12" => Some(Box::new(c12::C12)),
        #[cfg(feature = "c13")]
        "C13" => Some(Box::new(c13::C13)),
        #[cfg(feature = "c14")]
        "C14" => Some(Box::new(c14::C14)),
        #[cfg(feature = "c15")]
        "C15" => Some(Box::new(c15::C15)),
        #[cfg(feature = "c16")]
        "C16" => Some(Box::new(c16::C16)),
        #[cfg(feature = "c17")]
        "C17" => Some(Box::new(c17::C17)),
        #[cfg(feature = "c18")]
        "C18" => Some(Box::new(c18::C18)),
        #[cfg(feature = "c19")]
        "C19" => Some(Box::new(c19::C19)),
        #[cfg(feature = "c20")]
        "C20" => Some(Box::new(c20::C20)),
        _ => None,
    }
}
