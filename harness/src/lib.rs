//! Verification harness: generators, real-code executors and property oracles.
//! Every property module offers `gen_case` (op lines from one PRNG state) and `exec_case`
//! (runs the REAL implementation on op lines, returns canonical output lines + oracle verdicts).
pub mod rng;
pub mod runner;
pub mod util;

pub mod c08;

use runner::Prop;

pub fn prop_by_id(id: &str) -> Option<Box<dyn Prop>> {
    match id {
        "C08" => Some(Box::new(c08::C08)),
        _ => None,
    }
}
