//! C17 — the HTTP API enforces its token on every route; read endpoints cannot write.
//!
//! Two REAL agents are started in-process by `klukai_agent::agent::start_with_config` (which calls the
//! real `setup_http_api_handler` on a real TCP listener): one with `api.authorization = bearer-token`,
//! one without.  Every op is one raw HTTP/1.1 request over a fresh TCP connection; the canonical output is
//! what the authz middleware / the read gates did.  Independent oracle (no model involved): database
//! digest (every table of the agent's database file incl. `__corro_*`, cr-sqlite clock/bookkeeping tables,
//! `sqlite_master`, `PRAGMA schema_version`/`user_version`, `crsql_db_version()`, and the file list of the
//! agent's directory) taken through a separate read-only connection before and after each request.
//!
//! ops:  `req <cfg:token|none> <METHOD> <path> <hdr-shape>`      -> `pass` | `401` | `400-hdr`
//!       `query <cfg> <id> <class:r|w|e|v|u> <hex sql>`          -> `ran` | `refused` | `prep-error` | `not-run` | `ran|prep-error`
//!       `sub <cfg> <id> <class:s|n|x> <hex sql>`                -> `accepted` | `refused`
use std::collections::BTreeMap;
use std::net::SocketAddr;
use std::path::PathBuf;
use std::sync::atomic::{AtomicU64, Ordering};
use std::sync::{Arc, Mutex, OnceLock};
use std::time::Duration;

use klukai_agent::agent::start_with_config;
use klukai_types::agent::Agent;
use klukai_types::config::{AuthzConfig, Config};
use klukai_types::sqlite::CrConn;
use klukai_types::tripwire::Tripwire;
use rusqlite::types::ValueRef;
use rusqlite::{Connection, OpenFlags};
use tokio::io::{AsyncReadExt, AsyncWriteExt};
use tokio::net::TcpStream;

use crate::rng::Rng;
use crate::runner::{CaseResult, Prop, Tier};

pub struct C17;

// ---------------------------------------------------------------- constants shared with Driver/C17.lean

const TOKEN: &str = "c17-S3cr3t.Tok_en";
const TOKEN_UPPER: &str = "C17-S3CR3T.TOK_EN";
const TOKEN_LOWER: &str = "c17-s3cr3t.tok_en";
const WRONG: &str = "not-the-token";
const BASIC: &str = "Basic dXNlcjpjMTctUzNjcjN0LlRva19lbg==";

pub const SHAPES: &[&str] = &[
    "missing", "proxy-auth", "empty", "basic", "basic-token", "token-only", "scheme-only", "no-space", "tab-sep",
    "wrong", "prefix", "prefix1", "suffix", "case", "case-lower", "lowercase-scheme", "uppercase-scheme",
    "extra-space", "trailing-junk", "quoted", "token-twice", "comma-list", "non-ascii", "dup-wrong-correct",
    "dup-correct-wrong", "dup-basic-correct", "correct",
];
const METHODS: &[&str] = &["GET", "POST", "PUT", "DELETE", "PATCH"];
/// paths that are NOT routes: the router's fallback is wrapped by the same layers
const EXTRA_PATHS: &[&str] = &["/", "/v1/nope"];
const SUB_ID: &str = "00000000-0000-4000-8000-000000000000";

/// the request headers a shape stands for: (header name, raw value bytes), in order
fn shape_headers(shape: &str) -> Option<Vec<(&'static str, Vec<u8>)>> {
    let a = |v: String| Some(vec![("Authorization", v.into_bytes())]);
    match shape {
        "missing" => Some(vec![]),
        "proxy-auth" => Some(vec![("Proxy-Authorization", format!("Bearer {TOKEN}").into_bytes())]),
        "empty" => a(String::new()),
        "basic" => a(BASIC.to_string()),
        "basic-token" => a(format!("Basic {TOKEN}")),
        "token-only" => a(TOKEN.to_string()),
        "scheme-only" => a("Bearer".to_string()),
        "no-space" => a(format!("Bearer{TOKEN}")),
        "tab-sep" => a(format!("Bearer\t{TOKEN}")),
        "wrong" => a(format!("Bearer {WRONG}")),
        "prefix" => a(format!("Bearer {}", &TOKEN[..TOKEN.len() - 1])),
        "prefix1" => a(format!("Bearer {}", &TOKEN[..1])),
        "suffix" => a(format!("Bearer {TOKEN}x")),
        "case" => a(format!("Bearer {TOKEN_UPPER}")),
        "case-lower" => a(format!("Bearer {TOKEN_LOWER}")),
        "lowercase-scheme" => a(format!("bearer {TOKEN}")),
        "uppercase-scheme" => a(format!("BEARER {TOKEN}")),
        "extra-space" => a(format!("Bearer  {TOKEN}")),
        "trailing-junk" => a(format!("Bearer {TOKEN} x")),
        "quoted" => a(format!("Bearer \"{TOKEN}\"")),
        "token-twice" => a(format!("Bearer {TOKEN}{TOKEN}")),
        "comma-list" => a(format!("Bearer {WRONG}, Bearer {TOKEN}")),
        "non-ascii" => {
            let mut v = format!("Bearer {TOKEN}").into_bytes();
            v.push(0xE9);
            Some(vec![("Authorization", v)])
        }
        "dup-wrong-correct" => Some(vec![
            ("Authorization", format!("Bearer {WRONG}").into_bytes()),
            ("Authorization", format!("Bearer {TOKEN}").into_bytes()),
        ]),
        "dup-correct-wrong" => Some(vec![
            ("Authorization", format!("Bearer {TOKEN}").into_bytes()),
            ("Authorization", format!("Bearer {WRONG}").into_bytes()),
        ]),
        "dup-basic-correct" => Some(vec![
            ("Authorization", BASIC.as_bytes().to_vec()),
            ("Authorization", format!("Bearer {TOKEN}").into_bytes()),
        ]),
        "correct" => a(format!("Bearer {TOKEN}")),
        s => {
            let h = s.strip_prefix("raw:")?;
            if h.bytes().any(|b| !(b.is_ascii_digit() || (b'a'..=b'f').contains(&b))) {
                return None;
            }
            let bs = hex::decode(h).ok()?;
            let ok = !bs.is_empty()
                && bs.iter().all(|b| (32..127).contains(b) || *b >= 128)
                && bs[0] != 32
                && *bs.last().unwrap() != 32;
            if ok { Some(vec![("Authorization", bs)]) } else { None }
        }
    }
}

/// The property's own notion of "carries exactly that bearer token" (RFC 6750 `Bearer 1*SP token`, scheme
/// case-insensitive, the first Authorization field counts) -- written independently of the model.
fn spec_carries_token(headers: &[(&'static str, Vec<u8>)]) -> bool {
    let Some((_, v)) = headers.iter().find(|(n, _)| n.eq_ignore_ascii_case("authorization")) else { return false };
    let Ok(s) = std::str::from_utf8(v) else { return false };
    let Some((scheme, rest)) = s.split_once(' ') else { return false };
    scheme.eq_ignore_ascii_case("bearer") && rest.trim_start_matches(' ') == TOKEN
}

// ---------------------------------------------------------------- route table (regenerated Lean file)

fn routes() -> &'static Vec<(String, Vec<String>, bool)> {
    static R: OnceLock<Vec<(String, Vec<String>, bool)>> = OnceLock::new();
    R.get_or_init(|| {
        let p = concat!(env!("CARGO_MANIFEST_DIR"), "/../lean/Corro/Gen/Routes.lean");
        let text = std::fs::read_to_string(p).unwrap_or_else(|e| panic!("cannot read {p}: {e}"));
        let mut out = vec![];
        for l in text.lines() {
            let l = l.trim();
            if let Some(rest) = l.strip_prefix("⟨\"") {
                let (path, rest) = rest.split_once("\", [").expect("route line");
                let (ms, rest) = rest.split_once("], ").expect("route line");
                let methods = ms.split(',').map(|m| m.trim().trim_matches('"').to_string()).filter(|m| !m.is_empty()).collect();
                out.push((path.to_string(), methods, rest.starts_with("true")));
            }
        }
        assert!(!out.is_empty(), "no routes in {p}");
        out
    })
}

/// route pattern -> a concrete request path
fn concrete_path(pat: &str) -> String {
    pat.replace("{table}", "tests").replace("{id}", SUB_ID).replace(['{', '}', '*'], "")
}

fn all_paths() -> Vec<String> {
    let mut v: Vec<String> = routes().iter().map(|r| concrete_path(&r.0)).collect();
    v.extend(EXTRA_PATHS.iter().map(|s| s.to_string()));
    v
}

// ---------------------------------------------------------------- statement texts

#[derive(Clone)]
struct Stmt {
    id: String,
    sql: String,
    /// /v1/queries: r = prepares & readonly, w = prepares & not readonly, e = does not prepare,
    /// v = e or w depending on the pooled connection's state (printed as `not-run`),
    /// u = r or e depending on the pooled connection's state (printed as `ran|prep-error`)
    q: char,
    /// /v1/subscriptions: s = accepted, n = first command is not a SELECT / no parse, x = SELECT refused later
    s: char,
}

fn stmts() -> &'static Vec<Stmt> {
    static S: OnceLock<Vec<Stmt>> = OnceLock::new();
    S.get_or_init(build_stmts)
}

fn build_stmts() -> Vec<Stmt> {
    let mut v: Vec<Stmt> = vec![];
    let mut add = |cat: &str, sql: String, q: char, s: char| {
        let n = v.iter().filter(|x| x.id.starts_with(cat)).count();
        v.push(Stmt { id: format!("{cat}{n:02}"), sql, q, s });
    };
    // (table, pk column, a text column, an insert column list, an insert value list)
    let tables: [(&str, &str, &str, &str, &str); 6] = [
        ("tests", "id", "text", "(id, text)", "(990001, 'c17')"),
        ("tests2", "id", "text", "(id, text)", "(990002, 'c17')"),
        ("tests3", "id", "text2", "(id, text, num)", "(990003, 'c17', 7)"),
        ("testsblob", "id", "text", "(id, text)", "(x'c17c17', 'c17')"),
        ("testsbool", "id", "b", "(id, b)", "(990005, 1)"),
        ("wide", "id1", "id2", "(id1, id2, int)", "(x'c17a', 'c17', 3)"),
    ];
    // ---- DML on every user table
    for (t, pk, col, cols, vals) in tables {
        add("dml-", format!("INSERT INTO {t} {cols} VALUES {vals}"), 'w', 'n');
        add("dml-", format!("INSERT OR REPLACE INTO {t} {cols} VALUES {vals}"), 'w', 'n');
        add("dml-", format!("REPLACE INTO {t} {cols} VALUES {vals}"), 'w', 'n');
        add("dml-", format!("INSERT OR IGNORE INTO {t} {cols} VALUES {vals}"), 'w', 'n');
        add("dml-", format!("INSERT INTO {t} {cols} VALUES {vals} RETURNING *"), 'w', 'n');
        add("dml-", format!("INSERT INTO {t} {cols} VALUES {vals} ON CONFLICT DO NOTHING"), 'w', 'n');
        add("dml-", format!("INSERT INTO {t} SELECT * FROM {t}"), 'w', 'n');
        add("dml-", format!("UPDATE {t} SET {col} = 'pwned'"), 'w', 'n');
        add("dml-", format!("UPDATE {t} SET {col} = 'pwned' WHERE {pk} IS NOT NULL RETURNING {pk}"), 'w', 'n');
        add("dml-", format!("UPDATE OR IGNORE {t} SET {col} = {col} || 'x'"), 'w', 'n');
        add("dml-", format!("DELETE FROM {t}"), 'w', 'n');
        add("dml-", format!("DELETE FROM {t} WHERE {pk} IS NOT NULL"), 'w', 'n');
        add("dml-", format!("DELETE FROM {t} RETURNING *"), 'w', 'n');
        add("cte-", format!("WITH x AS (SELECT 1) DELETE FROM {t}"), 'w', 'n');
        add("cte-", format!("WITH x(a) AS (SELECT {pk} FROM {t}) UPDATE {t} SET {col} = 'cte' WHERE {pk} IN (SELECT a FROM x)"), 'w', 'n');
        add("cte-", format!("WITH x AS (SELECT * FROM {t}) INSERT INTO {t} SELECT * FROM x"), 'w', 'n');
        add("read-", format!("SELECT * FROM {t}"), 'r', 's');
        add("read-", format!("SELECT {pk}, {col} FROM {t} WHERE {pk} IS NOT NULL"), 'r', 's');
    }
    add("cte-", "WITH RECURSIVE c(n) AS (SELECT 1 UNION ALL SELECT n+1 FROM c WHERE n < 5) INSERT INTO tests (id, text) SELECT 991000 + n, 'rec' FROM c".into(), 'w', 'n');
    add("cte-", "WITH d AS (DELETE FROM tests RETURNING *) SELECT * FROM d".into(), 'e', 'n');
    add("cte-", "WITH x AS (SELECT 1) REPLACE INTO tests (id, text) VALUES (991100, 'cte')".into(), 'w', 'n');
    add("cte-", "SELECT * FROM (DELETE FROM tests RETURNING id)".into(), 'e', 'n');
    add("cte-", "WITH x AS (SELECT id FROM tests) SELECT * FROM x".into(), 'r', 'x');
    // ---- DML on bookkeeping / cr-sqlite internals
    for sql in [
        "DELETE FROM __corro_bookkeeping_gaps",
        "INSERT INTO __corro_bookkeeping_gaps (actor_id, start, end) VALUES (x'00000000000000000000000000000001', 1, 9)",
        "DELETE FROM __corro_members",
        "INSERT INTO __corro_members (actor_id, address, foca_state) VALUES (x'00000000000000000000000000000002', '127.0.0.1:1', '{}')",
        "UPDATE __corro_members SET address = '10.0.0.1:1'",
        "DELETE FROM __corro_state",
        "UPDATE __corro_state SET value = 'x'",
        "INSERT OR REPLACE INTO __corro_state (key, value) VALUES ('cluster_id', 7)",
        "DELETE FROM __corro_schema",
        "UPDATE __corro_schema SET sql = 'x'",
        "DELETE FROM __corro_buffered_changes",
        "DELETE FROM __corro_seq_bookkeeping",
        "INSERT INTO __corro_seq_bookkeeping (site_id, db_version, start_seq, end_seq, last_seq, ts) VALUES (x'00000000000000000000000000000001', 5, 0, 1, 9, 0)",
        "DELETE FROM crsql_db_versions",
        "UPDATE crsql_db_versions SET db_version = db_version + 100",
        "DELETE FROM crsql_site_id",
        "UPDATE crsql_site_id SET site_id = x'00000000000000000000000000000009' WHERE ordinal = 0",
        "DELETE FROM crsql_master",
        "INSERT OR REPLACE INTO crsql_master (key, value) VALUES ('config.merge-equal-values', 0)",
        "DELETE FROM crsql_tracked_peers",
        "DELETE FROM tests__crsql_clock",
        "UPDATE tests__crsql_clock SET col_version = col_version + 1",
        "DELETE FROM tests__crsql_pks",
    ] {
        add("book-", sql.into(), 'w', 'n');
    }
    // sqlite refuses to compile these (system tables are not writable / do not exist here)
    for sql in [
        "DELETE FROM __corro_sync_state",
        "DELETE FROM sqlite_sequence",
        "INSERT INTO sqlite_stat1 VALUES ('tests', NULL, '1')",
    ] {
        add("book-", sql.into(), 'e', 'n');
    }
    // Whether these compile depends on whether an earlier `PRAGMA writable_schema = ON` was served by the same
    // pooled read connection (connection state outlives the request): either "table sqlite_master may not be
    // modified" (prepare error) or a non-readonly statement.  Class v: not executed either way.
    for sql in [
        "INSERT INTO sqlite_master (type, name, tbl_name, rootpage, sql) VALUES ('table', 'zz', 'zz', 0, 'create table zz(a)')",
        "DELETE FROM sqlite_master",
        "UPDATE sqlite_schema SET sql = 'x'",
        "DELETE FROM sqlite_master WHERE name = 'tests'",
        "UPDATE sqlite_master SET rootpage = 0",
        // the cr-sqlite virtual table refreshes its table infos when compiled; on a pooled read connection that
        // saw schema changes this can fail ("Could not update table infos") instead of giving a non-readonly statement
        "INSERT INTO crsql_changes (\"table\", pk, cid, val, col_version, db_version, site_id, cl, seq) VALUES ('tests', x'010901', 'text', 'via-changes', 1, 1, x'00000000000000000000000000000003', 1, 0)",
        "DELETE FROM crsql_changes",
        "UPDATE crsql_changes SET val = 'x'",
    ] {
        add("book-", sql.into(), 'v', 'n');
    }
    // ---- DDL
    for sql in [
        "CREATE TABLE c17_t (a INTEGER PRIMARY KEY, b TEXT)",
        "CREATE TABLE IF NOT EXISTS c17_t (a INTEGER PRIMARY KEY, b TEXT)",
        "CREATE TABLE main.c17_t2 (a)",
        "CREATE TABLE c17_t3 AS SELECT * FROM tests",
        "CREATE TEMP TABLE c17_tmp (a)",
        "CREATE TEMPORARY TABLE c17_tmp2 AS SELECT * FROM tests",
        "CREATE TABLE temp.c17_tmp3 (a)",
        "CREATE INDEX c17_idx ON tests (text)",
        "CREATE UNIQUE INDEX IF NOT EXISTS c17_idx2 ON tests2 (text)",
        "CREATE VIEW c17_v AS SELECT * FROM tests",
        "CREATE TEMP VIEW c17_tv AS SELECT * FROM tests",
        "CREATE TRIGGER c17_trg AFTER INSERT ON tests BEGIN DELETE FROM tests2; END",
        "CREATE TEMP TRIGGER c17_ttrg AFTER INSERT ON tests BEGIN DELETE FROM tests2; END",
        "CREATE VIRTUAL TABLE c17_vt USING generate_series",
        "CREATE VIRTUAL TABLE temp.c17_vt2 USING generate_series",
        "DROP TABLE tests",
        "DROP TABLE IF EXISTS tests2",
        "DROP TABLE main.tests3",
        "DROP TABLE __corro_bookkeeping_gaps",
        "DROP TABLE crsql_master",
        "DROP TABLE tests__crsql_clock",
        "DROP TRIGGER IF EXISTS tests__crsql_itrig",
        "DROP TRIGGER tests__crsql_utrig",
        "DROP INDEX IF EXISTS corro_clock_tests_site_id_dbv",
        "ALTER TABLE tests RENAME TO tests_renamed",
        "ALTER TABLE tests ADD COLUMN c17_col TEXT",
        "ALTER TABLE tests3 DROP COLUMN num2",
        "ALTER TABLE tests RENAME COLUMN text TO text_renamed",
        "ALTER TABLE __corro_state ADD COLUMN c17 TEXT",
        "REINDEX",
        "ANALYZE",
        "ANALYZE tests",
        "ANALYZE main",
    ] {
        add("ddl-", sql.into(), 'w', 'n');
    }
    for sql in ["DROP TABLE c17_does_not_exist", "DROP VIEW c17_no_view", "ALTER TABLE c17_nope ADD COLUMN a", "CREATE TABLE tests (a)", "CREATE INDEX c17_i ON c17_nope (a)"] {
        add("ddl-", sql.into(), 'e', 'n');
    }
    // nothing to rebuild (WITHOUT ROWID table, no secondary index): compiles to a no-op, sqlite says readonly
    add("ddl-", "REINDEX tests".into(), 'r', 'n');
    add("ddl-", "DROP TABLE IF EXISTS c17_does_not_exist".into(), 'w', 'n');
    add("ddl-", "DROP VIEW IF EXISTS c17_no_view".into(), 'w', 'n');
    // ---- VACUUM / ATTACH / transaction control
    for sql in ["VACUUM", "VACUUM main", "VACUUM INTO '{DIR}/c17_vac.db'", "VACUUM main INTO '{DIR}/c17_vac2.db'", "BEGIN IMMEDIATE", "BEGIN EXCLUSIVE", "BEGIN IMMEDIATE TRANSACTION"] {
        add("vac-", sql.into(), 'w', 'n');
    }
    for sql in [
        "ATTACH DATABASE '{DIR}/c17_att.db' AS c17att",
        "ATTACH '{DIR}/c17_att2.db' AS c17att2",
        "ATTACH 'file:{DIR}/c17_att3.db?mode=rwc' AS c17att3",
        "ATTACH DATABASE ':memory:' AS c17mem",
        "ATTACH '' AS c17tmp",
        "ATTACH DATABASE '{DIR}/corrosion.db' AS c17self",
        "DETACH DATABASE c17mem",
        "DETACH main",
        "BEGIN",
        "BEGIN DEFERRED",
        "COMMIT",
        "END TRANSACTION",
        "ROLLBACK",
        "SAVEPOINT c17sp",
        "RELEASE c17sp",
        "ROLLBACK TO c17sp",
    ] {
        add("ctl-", sql.into(), 'r', 'n');
    }
    // ---- PRAGMAs
    for sql in [
        "PRAGMA user_version = 1717",
        "PRAGMA main.user_version = 1717",
        "PRAGMA application_id = 1717",
        "PRAGMA schema_version = 1717",
        "PRAGMA journal_mode = DELETE",
        "PRAGMA journal_mode = OFF",
        "PRAGMA journal_mode",
        "PRAGMA journal_mode = MEMORY",
        "PRAGMA main.journal_mode = TRUNCATE",
        "PRAGMA wal_checkpoint",
        "PRAGMA wal_checkpoint(TRUNCATE)",
        "PRAGMA wal_checkpoint(RESTART)",
        "PRAGMA incremental_vacuum",
        "PRAGMA incremental_vacuum(10)",
        "PRAGMA auto_vacuum = FULL",
        "PRAGMA auto_vacuum = INCREMENTAL",
        "PRAGMA default_cache_size = 10",
        "PRAGMA optimize",
        "PRAGMA optimize(0xfffe)",
    ] {
        add("prag-", sql.into(), 'w', 'n');
    }
    for sql in [
        "PRAGMA page_size = 512",
        "PRAGMA encoding = 'UTF-16'",
        "PRAGMA max_page_count = 1",
        "PRAGMA journal_size_limit = 0",
        "PRAGMA foreign_keys = ON",
        "PRAGMA writable_schema = ON",
        "PRAGMA writable_schema = RESET",
        "PRAGMA query_only = OFF",
        "PRAGMA query_only = 0",
        "PRAGMA locking_mode = NORMAL",
        "PRAGMA cache_size = 10",
        "PRAGMA secure_delete = ON",
        "PRAGMA mmap_size = 0",
        "PRAGMA trusted_schema = ON",
        "PRAGMA recursive_triggers = OFF",
        "PRAGMA ignore_check_constraints = ON",
        "PRAGMA defer_foreign_keys = ON",
        "PRAGMA legacy_alter_table = ON",
        "PRAGMA cell_size_check = ON",
        "PRAGMA read_uncommitted = 1",
        "PRAGMA reverse_unordered_selects = ON",
        "PRAGMA automatic_index = OFF",
        "PRAGMA busy_timeout = 1",
        "PRAGMA wal_autocheckpoint = 1",
        "PRAGMA cache_spill = 0",
        "PRAGMA soft_heap_limit = 1000000",
        "PRAGMA analysis_limit = 1",
        "PRAGMA shrink_memory",
        "PRAGMA user_version",
        "PRAGMA schema_version",
        "PRAGMA table_info(tests)",
        "PRAGMA integrity_check",
        "PRAGMA quick_check",
        "PRAGMA foreign_key_check",
        "PRAGMA database_list",
        "PRAGMA data_version",
        "PRAGMA freelist_count",
        "PRAGMA page_count",
    ] {
        add("prag-", sql.into(), 'r', 'n');
    }
    // "Safety level / temporary storage may not be changed inside a transaction": these compile unless an earlier
    // `BEGIN` / `SAVEPOINT` was served by the same pooled read connection and left it inside a transaction.
    // Class u: a flag-only statement either way.
    for sql in ["PRAGMA synchronous = OFF", "PRAGMA temp_store = FILE", "PRAGMA synchronous = FULL", "PRAGMA temp_store = MEMORY"] {
        add("prag-", sql.into(), 'u', 'n');
    }
    // ---- multi-statement / odd texts
    for (sql, q, s) in [
        ("SELECT 1; DELETE FROM tests", 'e', 'n'),
        ("SELECT * FROM tests; DELETE FROM tests", 'e', 'n'),
        ("SELECT * FROM tests; DROP TABLE tests;", 'e', 'n'),
        ("DELETE FROM tests; SELECT 1", 'e', 'n'),
        ("INSERT INTO tests (id, text) VALUES (992000, 'm'); INSERT INTO tests (id, text) VALUES (992001, 'm')", 'e', 'n'),
        ("BEGIN; DELETE FROM tests; COMMIT", 'e', 'n'),
        ("SELECT 1;; DELETE FROM tests", 'e', 'n'),
        ("SELECT 1; -- x\nDELETE FROM tests", 'e', 'n'),
        ("SELECT 1 /* ; */ ; UPDATE tests SET text = 'm'", 'e', 'n'),
        ("PRAGMA writable_schema = ON; DELETE FROM sqlite_master", 'e', 'n'),
        ("ATTACH ':memory:' AS m; CREATE TABLE m.t (a)", 'e', 'n'),
        ("SELECT 1;", 'r', 'x'),
        ("SELECT 1; ", 'r', 'x'),
        ("SELECT 1; -- trailing comment", 'r', 'x'),
        ("SELECT * FROM tests;", 'r', 's'),
        ("SELECT * FROM tests; -- DELETE FROM tests", 'r', 's'),
        ("SELECT * FROM tests /* ; DELETE FROM tests */", 'r', 's'),
        ("SELECT '; DELETE FROM tests' FROM tests", 'r', 's'),
        ("-- DELETE\nDELETE FROM tests", 'w', 'n'),
        ("/* SELECT */ DELETE FROM tests", 'w', 'n'),
        ("  \n\t DELETE FROM tests2", 'w', 'n'),
        ("dElEtE fRoM tests3", 'w', 'n'),
        // an empty text "prepares" to a null statement, for which `readonly()` answers true: runs as a no-op
        ("", 'r', 'n'),
        (";", 'r', 'n'),
        ("-- nothing", 'r', 'n'),
        ("SELEC 1", 'e', 'n'),
        ("DELETE", 'e', 'n'),
        ("EXPLAIN DELETE FROM tests", 'w', 'n'),
        ("EXPLAIN QUERY PLAN INSERT INTO tests (id, text) VALUES (1, 'x')", 'w', 'n'),
        ("EXPLAIN SELECT * FROM tests", 'r', 'n'),
    ] {
        add("multi-", sql.into(), q, s);
    }
    // ---- SELECTs that call functions with side effects (cr-sqlite, loaders); plain reads
    for (sql, q, s) in [
        ("SELECT crsql_as_crr('__corro_state')", 'r', 'x'),
        ("SELECT crsql_as_crr('sqlite_sequence')", 'r', 'x'),
        ("SELECT crsql_as_table('tests')", 'r', 'x'),
        ("SELECT crsql_begin_alter('tests')", 'r', 'x'),
        ("SELECT crsql_commit_alter('tests')", 'r', 'x'),
        ("SELECT crsql_finalize()", 'r', 'x'),
        ("SELECT crsql_config_set('merge-equal-values', 0)", 'r', 'x'),
        ("SELECT crsql_config_get('merge-equal-values')", 'r', 'x'),
        ("SELECT crsql_set_ts('1717')", 'r', 'x'),
        ("SELECT crsql_next_db_version()", 'r', 'x'),
        ("SELECT crsql_next_db_version(1717)", 'r', 'x'),
        ("SELECT crsql_increment_and_get_seq()", 'r', 'x'),
        ("SELECT crsql_get_seq()", 'r', 'x'),
        ("SELECT crsql_db_version()", 'r', 'x'),
        ("SELECT crsql_site_id()", 'r', 'x'),
        ("SELECT crsql_rows_impacted()", 'r', 'x'),
        ("SELECT crsql_sync_bit()", 'e', 'x'),
        ("SELECT crsql_sync_bit(1)", 'e', 'x'),
        ("SELECT crsql_internal_sync_bit(1)", 'r', 'x'),
        ("SELECT crsql_set_db_version(crsql_site_id(), 1717)", 'r', 'x'),
        ("SELECT crsql_fract_as_ordered('tests', 'text')", 'r', 'x'),
        ("SELECT crsql_automigrate('CREATE TABLE c17_auto (a primary key not null, b)')", 'r', 'x'),
        ("SELECT crsql_sha()", 'r', 'x'),
        ("SELECT load_extension('{DIR}/nope.so')", 'r', 'x'),
        ("SELECT load_extension('{DIR}/nope.so', 'sqlite3_x_init')", 'r', 'x'),
        ("SELECT writefile('{DIR}/c17_wf.txt', 'x')", 'e', 'x'),
        ("SELECT readfile('/etc/hostname')", 'e', 'x'),
        ("SELECT edit('x')", 'e', 'x'),
        ("SELECT fts3_tokenizer('simple')", 'r', 'x'),
        ("SELECT sqlite_version(), sqlite_source_id()", 'r', 'x'),
        ("SELECT randomblob(16), random()", 'r', 'x'),
        ("SELECT * FROM generate_series(1, 3)", 'r', 'x'),
        ("SELECT * FROM pragma_table_info('tests')", 'r', 'x'),
        ("SELECT * FROM pragma_database_list", 'r', 'x'),
        ("SELECT * FROM pragma_user_version", 'r', 'x'),
        ("SELECT * FROM pragma_journal_mode", 'r', 'x'),
        ("SELECT * FROM pragma_wal_checkpoint", 'e', 'x'),
        ("SELECT name FROM pragma_function_list WHERE name LIKE 'crsql%'", 'r', 'x'),
        ("SELECT * FROM crsql_changes", 'u', 'x'),
        ("SELECT * FROM sqlite_master", 'r', 'x'),
        ("SELECT * FROM __corro_members", 'r', 'x'),
        ("SELECT * FROM __corro_state", 'r', 'x'),
        ("SELECT * FROM crsql_master", 'r', 'x'),
        ("SELECT count(*) FROM tests", 'r', 's'),
        ("SELECT t.id, u.text FROM tests t JOIN tests2 u ON t.id = u.id", 'r', 's'),
        ("SELECT id FROM tests WHERE id IN (SELECT id FROM tests2)", 'r', 's'),
        ("SELECT id FROM tests UNION SELECT id FROM tests2", 'r', 's'),
        ("SELECT * FROM c17_nope", 'e', 'n'),
        ("VALUES (1), (2)", 'r', 'x'),
        // the same side-effect functions inside a query over a replicated table (what a subscription accepts)
        ("SELECT id, crsql_config_set('merge-equal-values', 0) FROM tests", 'r', 's'),
        ("SELECT id, crsql_as_crr('__corro_state') FROM tests", 'r', 's'),
        ("SELECT id, crsql_as_table('tests2') FROM tests", 'r', 's'),
        ("SELECT id, crsql_begin_alter('tests2') FROM tests", 'r', 's'),
        ("SELECT id, crsql_next_db_version(1717) FROM tests", 'r', 's'),
        ("SELECT id, crsql_set_db_version(crsql_site_id(), 1717) FROM tests", 'r', 's'),
        ("SELECT id, crsql_set_ts('1717') FROM tests", 'r', 's'),
        ("SELECT id, crsql_increment_and_get_seq() FROM tests", 'r', 's'),
        ("SELECT id, crsql_sync_bit(1) FROM tests", 'e', 'x'),
        ("SELECT id, crsql_finalize() FROM tests", 'r', 's'),
        ("SELECT id, load_extension('{DIR}/nope.so') FROM tests", 'r', 's'),
        ("SELECT id FROM tests WHERE crsql_config_set('merge-equal-values', 0) IS NOT NULL", 'r', 's'),
        ("SELECT id, (SELECT crsql_as_crr('__corro_members')) FROM tests", 'r', 's'),
    ] {
        add("fn-", sql.into(), q, s);
    }
    v
}

// ---------------------------------------------------------------- the world: runtime + two real agents

struct Node {
    #[allow(dead_code)]
    agent: Agent,
    addr: SocketAddr,
    dir: PathBuf,
    trip_tx: tokio::sync::mpsc::Sender<()>,
    digest_conn: Mutex<CrConn>,
}

struct World {
    with_token: Node,
    without: Node,
    tmp: PathBuf,
}

fn runtime() -> &'static tokio::runtime::Runtime {
    static RT: OnceLock<tokio::runtime::Runtime> = OnceLock::new();
    RT.get_or_init(|| {
        tokio::runtime::Builder::new_multi_thread().worker_threads(4).enable_all().build().expect("tokio runtime")
    })
}

static WORLD: Mutex<Option<Arc<World>>> = Mutex::new(None);
static COUNTER: AtomicU64 = AtomicU64::new(0);

async fn launch(dir: PathBuf, token: Option<&str>) -> Result<Node, String> {
    let e = |e: &dyn std::fmt::Display| e.to_string();
    let schema = dir.join("schema");
    std::fs::create_dir_all(&schema).map_err(|x| e(&x))?;
    std::fs::write(schema.join("tests.sql"), klukai_tests::TEST_SCHEMA).map_err(|x| e(&x))?;
    let mut conf: Config = Config::builder()
        .api_addr("127.0.0.1:0".parse().unwrap())
        .gossip_addr("127.0.0.1:0".parse().unwrap())
        .admin_path(dir.join("admin.sock").display().to_string())
        .db_path(dir.join("corrosion.db").display().to_string())
        .add_schema_path(schema.display().to_string())
        .build()
        .map_err(|x| e(&x))?;
    conf.api.authorization = token.map(|t| AuthzConfig::BearerToken(t.to_string()));
    let (tripwire, worker, trip_tx) = Tripwire::new_simple();
    tokio::spawn(worker);
    let (agent, _bookie, _transport, _handles) = start_with_config(conf, tripwire).await.map_err(|x| format!("{x:?}"))?;
    let addr = agent.api_addr();
    let conn = Connection::open_with_flags(dir.join("corrosion.db"), OpenFlags::SQLITE_OPEN_READ_ONLY | OpenFlags::SQLITE_OPEN_NO_MUTEX)
        .map_err(|x| e(&x))?;
    let conn = CrConn::init(conn).map_err(|x| e(&x))?;
    let node = Node { agent, addr, dir, trip_tx, digest_conn: Mutex::new(conn) };
    // seed rows through the real write endpoint, so that DELETE/UPDATE would be visible
    let seed = serde_json::json!([
        "INSERT INTO tests (id, text) VALUES (1, 'one'), (2, 'two'), (3, 'three')",
        "INSERT INTO tests2 (id, text) VALUES (1, 'uno'), (2, 'dos')",
        "INSERT INTO tests3 (id, text, text2, num, num2) VALUES (1, 'a', 'b', 1, 2)",
        "INSERT INTO testsblob (id, text) VALUES (x'0102', 'blob')",
        "INSERT INTO testsbool (id, b) VALUES (1, 1)",
        "INSERT INTO wide (id1, id2, int) VALUES (x'aa', 'k', 5)"
    ]);
    let hdrs = if token.is_some() { vec![("Authorization", format!("Bearer {TOKEN}").into_bytes())] } else { vec![] };
    let r = http(node.addr, "POST", "/v1/transactions", &hdrs, seed.to_string().as_bytes(), Read::Full).await?;
    if r.status != 200 {
        return Err(format!("seeding failed: {} {}", r.status, String::from_utf8_lossy(&r.body)));
    }
    Ok(node)
}

fn world() -> Arc<World> {
    let mut g = WORLD.lock().unwrap();
    if let Some(w) = g.as_ref() {
        return w.clone();
    }
    let base = PathBuf::from(concat!(env!("CARGO_MANIFEST_DIR"), "/target/tmp"));
    std::fs::create_dir_all(&base).expect("tmp base");
    let tmp = base.join(format!("c17-{}", std::process::id()));
    let _ = std::fs::remove_dir_all(&tmp);
    std::fs::create_dir_all(&tmp).expect("tmp dir");
    let (a, b) = (tmp.join("tok"), tmp.join("open"));
    let w = runtime().block_on(async {
        let with_token = launch(a, Some(TOKEN)).await.expect("agent with token");
        let without = launch(b, None).await.expect("agent without token");
        World { with_token, without, tmp }
    });
    let w = Arc::new(w);
    *g = Some(w.clone());
    w
}

// ---------------------------------------------------------------- raw HTTP/1.1 client

#[derive(Clone, Copy, PartialEq)]
enum Read {
    /// to EOF (`Connection: close`)
    Full,
    /// status line + headers only when the status is 200 (endless streams), else to EOF
    Head,
    /// to EOF or until the subscription's end-of-initial-query / error event
    Eoq,
}

struct Resp {
    status: u16,
    head: String,
    body: Vec<u8>,
    /// 200 on a subscription but neither an end-of-query nor an error event arrived
    silent: bool,
}

fn find(h: &[u8], n: &[u8]) -> Option<usize> {
    h.windows(n.len()).position(|w| w == n)
}

async fn http(addr: SocketAddr, method: &str, path: &str, headers: &[(&'static str, Vec<u8>)], body: &[u8], mode: Read) -> Result<Resp, String> {
    let fut = async {
        let mut s = TcpStream::connect(addr).await.map_err(|e| format!("connect: {e}"))?;
        let mut req: Vec<u8> = vec![];
        req.extend_from_slice(format!("{method} {path} HTTP/1.1\r\nHost: c17.test\r\nConnection: close\r\nContent-Type: application/json\r\nContent-Length: {}\r\n", body.len()).as_bytes());
        for (n, v) in headers {
            req.extend_from_slice(n.as_bytes());
            req.extend_from_slice(b": ");
            req.extend_from_slice(v);
            req.extend_from_slice(b"\r\n");
        }
        req.extend_from_slice(b"\r\n");
        req.extend_from_slice(body);
        s.write_all(&req).await.map_err(|e| format!("write: {e}"))?;
        let mut buf: Vec<u8> = vec![];
        let mut chunk = [0u8; 8192];
        let mut head_end = None;
        let mut silent = false;
        loop {
            if head_end.is_none() {
                head_end = find(&buf, b"\r\n\r\n").map(|i| i + 4);
            }
            if let Some(he) = head_end {
                let status_ok = buf.starts_with(b"HTTP/1.1 200");
                match mode {
                    Read::Head => {
                        if status_ok {
                            break;
                        }
                    }
                    Read::Eoq => {
                        if status_ok && (find(&buf[he..], b"\"eoq\"").is_some() || find(&buf[he..], b"\"error\"").is_some()) {
                            break;
                        }
                    }
                    Read::Full => {}
                }
            }
            // a subscription whose matcher died earlier stays registered: a later subscriber of the same SQL gets
            // 200 and then no event at all.  Bounded wait for the end-of-query event, then go on (tagged).
            let next = if mode == Read::Eoq && head_end.is_some() {
                match tokio::time::timeout(Duration::from_secs(8), s.read(&mut chunk)).await {
                    Ok(r) => r,
                    Err(_) => {
                        silent = true;
                        break;
                    }
                }
            } else {
                s.read(&mut chunk).await
            };
            match next {
                Ok(0) => break,
                Ok(n) => buf.extend_from_slice(&chunk[..n]),
                Err(e) => {
                    if head_end.is_some() { break } else { return Err(format!("read: {e}")) }
                }
            }
        }
        if buf.is_empty() {
            // connection closed without a single byte: the connection task died (handler panic)
            return Ok(Resp { status: 0, head: String::new(), body: vec![], silent: false });
        }
        let he = head_end.ok_or_else(|| format!("no response head in {} bytes", buf.len()))?;
        let line = buf.split(|b| *b == b'\r').next().unwrap_or(&[]);
        let line = String::from_utf8_lossy(line).to_string();
        let status: u16 = line.split(' ').nth(1).and_then(|x| x.parse().ok()).ok_or_else(|| format!("bad status line {line:?}"))?;
        Ok(Resp { status, head: String::from_utf8_lossy(&buf[..he]).to_ascii_lowercase(), body: buf[he..].to_vec(), silent })
    };
    match tokio::time::timeout(Duration::from_secs(60), fut).await {
        Ok(r) => r,
        Err(_) => Err("timeout".into()),
    }
}

// ---------------------------------------------------------------- database digest (separate read connection)

#[derive(PartialEq, Eq, Clone, Debug)]
struct Digest {
    tables: BTreeMap<String, (u64, u64)>,
    schema: u64,
    pragmas: (i64, i64),
    db_version: i64,
    files: Vec<String>,
}

fn fnv_step(h: &mut u64, bytes: &[u8]) {
    for b in bytes {
        *h ^= *b as u64;
        *h = h.wrapping_mul(0x100000001b3);
    }
}

fn digest(node: &Node) -> Result<Digest, String> {
    let conn = node.digest_conn.lock().unwrap();
    let e = |x: rusqlite::Error| x.to_string();
    let mut names: Vec<(String, String)> = vec![];
    let mut schema: u64 = 0xcbf29ce484222325;
    {
        let mut st = conn.prepare("SELECT type, name, tbl_name, coalesce(sql, '') FROM sqlite_master ORDER BY type, name").map_err(e)?;
        let mut rows = st.query([]).map_err(e)?;
        while let Some(r) = rows.next().map_err(e)? {
            let (ty, name, tbl, sql): (String, String, String, String) = (r.get(0).map_err(e)?, r.get(1).map_err(e)?, r.get(2).map_err(e)?, r.get(3).map_err(e)?);
            for s in [&ty, &name, &tbl, &sql] {
                fnv_step(&mut schema, s.as_bytes());
                fnv_step(&mut schema, &[0]);
            }
            if ty == "table" && !sql.to_ascii_uppercase().starts_with("CREATE VIRTUAL") {
                names.push((name, sql));
            }
        }
    }
    let mut tables = BTreeMap::new();
    for (name, _) in names {
        let mut st = conn.prepare(&format!("SELECT * FROM \"{}\"", name.replace('"', "\"\""))).map_err(e)?;
        let ncol = st.column_count();
        let mut rows = st.query([]).map_err(e)?;
        let (mut sum, mut count) = (0u64, 0u64);
        while let Some(r) = rows.next().map_err(e)? {
            let mut h: u64 = 0xcbf29ce484222325;
            for i in 0..ncol {
                match r.get_ref(i).map_err(e)? {
                    ValueRef::Null => fnv_step(&mut h, &[0]),
                    ValueRef::Integer(v) => { fnv_step(&mut h, &[1]); fnv_step(&mut h, &v.to_le_bytes()) }
                    ValueRef::Real(v) => { fnv_step(&mut h, &[2]); fnv_step(&mut h, &v.to_bits().to_le_bytes()) }
                    ValueRef::Text(v) => { fnv_step(&mut h, &[3]); fnv_step(&mut h, v); fnv_step(&mut h, &[0xff]) }
                    ValueRef::Blob(v) => { fnv_step(&mut h, &[4]); fnv_step(&mut h, v); fnv_step(&mut h, &[0xff]) }
                }
            }
            sum = sum.wrapping_add(h);
            count += 1;
        }
        tables.insert(name, (count, sum));
    }
    let uv: i64 = conn.query_row("PRAGMA user_version", [], |r| r.get(0)).map_err(e)?;
    let sv: i64 = conn.query_row("PRAGMA schema_version", [], |r| r.get(0)).map_err(e)?;
    let dbv: i64 = conn.query_row("SELECT crsql_db_version()", [], |r| r.get(0)).map_err(e)?;
    let mut files: Vec<String> = std::fs::read_dir(&node.dir)
        .map_err(|x| x.to_string())?
        .filter_map(|d| d.ok().map(|d| d.file_name().to_string_lossy().to_string()))
        .filter(|n| !n.ends_with("-wal") && !n.ends_with("-shm") && n != "subscriptions" && n != "updates")
        .collect();
    files.sort();
    Ok(Digest { tables, schema, pragmas: (uv, sv), db_version: dbv, files })
}

fn digest_diff(a: &Digest, b: &Digest) -> String {
    let mut d = vec![];
    for (k, v) in &b.tables {
        match a.tables.get(k) {
            None => d.push(format!("+table {k}")),
            Some(o) if o != v => d.push(format!("table {k}: {} rows -> {} rows{}", o.0, v.0, if o.0 == v.0 { " (content differs)" } else { "" })),
            _ => {}
        }
    }
    for k in a.tables.keys() {
        if !b.tables.contains_key(k) {
            d.push(format!("-table {k}"));
        }
    }
    if a.schema != b.schema { d.push("sqlite_master differs".into()) }
    if a.pragmas != b.pragmas { d.push(format!("user_version/schema_version {:?} -> {:?}", a.pragmas, b.pragmas)) }
    if a.db_version != b.db_version { d.push(format!("crsql_db_version {} -> {}", a.db_version, b.db_version)) }
    if a.files != b.files { d.push(format!("files {:?} -> {:?}", a.files, b.files)) }
    d.join("; ")
}

// ---------------------------------------------------------------- executing ops

fn is_write_endpoint(path: &str) -> bool {
    path == "/v1/transactions" || path == "/v1/migrations"
}

/// a body that WOULD change the database if the request got through to a write handler
fn body_for(path: &str) -> String {
    let n = COUNTER.fetch_add(1, Ordering::SeqCst);
    if path.starts_with("/v1/transactions") {
        serde_json::json!([format!("INSERT OR REPLACE INTO tests (id, text) VALUES (777001, 'c17-req-{n}')")]).to_string()
    } else if path.starts_with("/v1/migrations") {
        serde_json::json!([format!("CREATE TABLE c17_mig_{n} (id INTEGER NOT NULL PRIMARY KEY, v TEXT NOT NULL DEFAULT '');")]).to_string()
    } else if path.starts_with("/v1/table_stats") {
        serde_json::json!({"tables": ["tests", "tests2"]}).to_string()
    } else if path.starts_with("/v1/updates") {
        "null".to_string()
    } else {
        // queries, subscriptions and everything else: a statement that would delete if it were executed as-is
        serde_json::json!("DELETE FROM tests").to_string()
    }
}

struct OpOut {
    out: String,
    fails: Vec<String>,
    tags: Vec<String>,
    nontrivial: bool,
}

async fn exec_req(w: &World, toks: &[&str]) -> Result<OpOut, String> {
    let node = match toks[1] { "token" => &w.with_token, "none" => &w.without, _ => return Err("bad-op".into()) };
    let (method, path, shape) = (toks[2], toks[3], toks[4]);
    if method.is_empty() || !method.bytes().all(|b| b.is_ascii_uppercase()) || !path.starts_with('/') || !path.bytes().all(|b| (33..127).contains(&b)) {
        return Err("bad-op".into());
    }
    let headers = shape_headers(shape).ok_or("bad-op")?;
    let body = body_for(path);
    let before = digest(node)?;
    let will_stream = path.starts_with("/v1/updates") || path.starts_with("/v1/subscriptions");
    let resp = http(node.addr, method, path, &headers, body.as_bytes(), if will_stream { Read::Head } else { Read::Full }).await?;
    let after = digest(node)?;
    // the extractor's rejection: 400 with this text (a HEAD response has no body: its content-length tells)
    const REJECTION: &[u8] = b"invalid HTTP header (authorization)";
    let hdr_reject = resp.status == 400
        && (find(&resp.body, REJECTION).is_some()
            || (method == "HEAD" && resp.head.contains(&format!("content-length: {}\r\n", REJECTION.len())) && resp.head.contains("text/plain")));
    let out = if resp.status == 401 { "401" } else if hdr_reject { "400-hdr" } else { "pass" };
    // ---- oracle
    let mut fails = vec![];
    let token_configured = toks[1] == "token";
    let authorised = !token_configured || spec_carries_token(&headers);
    let req = format!("{method} {path} [{shape}] cfg={}", toks[1]);
    let changed = if before != after { format!(", database changed ({})", digest_diff(&before, &after)) } else { String::new() };
    if !authorised {
        if !(400..500).contains(&resp.status) || before != after {
            fails.push(format!("request without the configured token was not rejected cleanly: {req} -> status {}{changed}", resp.status));
        }
    } else if !(is_write_endpoint(path) && method == "POST") && before != after {
        fails.push(format!("request to a non-write endpoint changed the database: {req} -> status {}{changed}", resp.status));
    }
    let mut tags = vec![format!("req:{out}"), format!("status:{}", resp.status)];
    if !token_configured && resp.status == 400 && out == "400-hdr" {
        tags.push("unconfigured-node-rejects-malformed-authorization-header".into());
    }
    Ok(OpOut { out: out.into(), fails, tags, nontrivial: out != "pass" })
}

fn decode_sql(node: &Node, hexsql: &str) -> Result<String, String> {
    if hexsql.bytes().any(|b| !(b.is_ascii_digit() || (b'a'..=b'f').contains(&b))) {
        return Err("bad-op".into());
    }
    let bytes = hex::decode(hexsql).map_err(|_| "bad-op")?;
    let sql = String::from_utf8(bytes).map_err(|_| "bad-op")?;
    Ok(sql.replace("{DIR}", &node.dir.display().to_string()))
}

async fn exec_stmt(w: &World, toks: &[&str]) -> Result<OpOut, String> {
    let kind = toks[0];
    let node = match toks[1] { "token" => &w.with_token, "none" => &w.without, _ => return Err("bad-op".into()) };
    let cls = toks[3];
    let ok_cls = if kind == "query" { ["r", "w", "e", "v", "u"].contains(&cls) } else { ["s", "n", "x"].contains(&cls) };
    if !ok_cls {
        return Err("bad-op".into());
    }
    let sql = decode_sql(node, toks[4])?;
    let headers = if toks[1] == "token" { vec![("Authorization", format!("Bearer {TOKEN}").into_bytes())] } else { vec![] };
    let body = serde_json::to_string(&sql).unwrap();
    let before = digest(node)?;
    let (path, mode) = if kind == "query" { ("/v1/queries", Read::Full) } else { ("/v1/subscriptions", Read::Eoq) };
    let resp = http(node.addr, "POST", path, &headers, body.as_bytes(), mode).await?;
    let after = digest(node)?;
    if std::env::var_os("C17_DEBUG").is_some() {
        eprintln!("--- {kind} {sql:?}\n{}{}", resp.head, String::from_utf8_lossy(&resp.body));
    }
    let out = if kind == "query" {
        match resp.status {
            200 if cls == "u" => "ran|prep-error".to_string(),
            200 => "ran".to_string(),
            400 if cls == "v" => "not-run".to_string(),
            400 if cls == "u" && find(&resp.body, b"statement is not readonly").is_none() => "ran|prep-error".to_string(),
            400 if find(&resp.body, b"statement is not readonly").is_some() => "refused".to_string(),
            400 => "prep-error".to_string(),
            500 => "exec-error".to_string(),
            s => format!("status {s}"),
        }
    } else if resp.status == 200 { "accepted".to_string() } else if resp.status == 401 { "401".to_string() } else { "refused".to_string() };
    let mut fails = vec![];
    if before != after {
        fails.push(format!("statement submitted to {path} changed the node's database ({}): status {} sql {sql:?}", digest_diff(&before, &after), resp.status));
    }
    if resp.status == 401 {
        fails.push(format!("correct credentials were rejected on {path}"));
    }
    let mut tags = vec![format!("{kind}:{out}"), format!("stmt:{}", toks[2].split('-').next().unwrap_or("?"))];
    if resp.silent {
        tags.push("sub:accepted-but-silent(dead matcher still registered)".into());
    }
    if resp.status == 0 {
        tags.push(format!("{kind}:connection-dropped-without-response(handler-panic)"));
    }
    if kind == "query" && resp.status == 200 && find(&resp.body, b"\"error\"").is_some() {
        tags.push("query:ran-with-error-event".into());
    }
    let nontrivial = out == "refused" || out == "prep-error" || out == "not-run";
    Ok(OpOut { out, fails, tags, nontrivial })
}

// ---------------------------------------------------------------- generators

fn hexs(s: &str) -> String {
    hex::encode(s.as_bytes())
}

fn stmt_ops(cfg: &str, st: &Stmt, sql: &str) -> Vec<String> {
    vec![
        format!("query {cfg} {} {} {}", st.id, st.q, hexs(sql)),
        format!("sub {cfg} {} {} {}", st.id, st.s, hexs(sql)),
    ]
}

fn fuzz_header(rng: &mut Rng) -> String {
    let mut v: Vec<u8> = match rng.below(8) {
        0 => format!("Bearer {WRONG}"),
        1 => format!("bearer {TOKEN}"),
        2 => format!("Basic {TOKEN}"),
        3 => format!("Token {TOKEN}"),
        _ => format!("Bearer {TOKEN}"),
    }
    .into_bytes();
    let muts = rng.range(1, 3);
    for _ in 0..muts {
        let n = v.len();
        match rng.below(9) {
            0 if n > 1 => { v.remove(rng.below(n as u64) as usize); }
            1 => { let b = *rng.pick(b"abcXYZ019 -._~+/=\xe9"); v.insert(rng.below(n as u64 + 1) as usize, b); }
            2 if n > 0 => { let i = rng.below(n as u64) as usize; v[i] = if v[i].is_ascii_lowercase() { v[i].to_ascii_uppercase() } else { v[i].to_ascii_lowercase() }; }
            3 if n > 1 => { let i = rng.below(n as u64 - 1) as usize; v.swap(i, i + 1); }
            4 if n > 2 => { v.truncate(rng.range(1, n as u64 - 1) as usize); }
            5 => { if let Some(i) = v.iter().position(|b| *b == b' ') { let k = rng.range(1, 3); for _ in 0..k { v.insert(i, b' '); } } }
            6 => { v.extend_from_slice(TOKEN.as_bytes()); }
            7 if n > 7 => { v.drain(..rng.range(1, 7) as usize); }
            _ => { let i = rng.below(n as u64) as usize; v[i] = *rng.pick(b"abcdefghijklmnopqrstuvwxyzABCDEFGHIJKLMNOPQRSTUVWXYZ0123456789-._"); }
        }
    }
    while v.first() == Some(&b' ') { v.remove(0); }
    while v.last() == Some(&b' ') { v.pop(); }
    if v.is_empty() { v = b"x".to_vec(); }
    format!("raw:{}", hex::encode(v))
}

fn mutate_sql(rng: &mut Rng, st: &Stmt) -> String {
    let mut sql = st.sql.clone();
    let n = rng.range(1, 2);
    for _ in 0..n {
        match rng.below(6) {
            0 => sql = format!("  {sql}"),
            1 => sql = format!("\n\t{sql}"),
            2 => sql = format!("/* c17 */ {sql}"),
            3 => sql = format!("-- c17\n{sql}"),
            4 if st.s != 's' && !sql.contains("{DIR}") && !sql.contains('\'') && !sql.contains("__") => {
                sql = if rng.chance(1, 2) { sql.to_ascii_uppercase() } else { sql.to_ascii_lowercase() }
            }
            _ => {
                if !sql.trim_end().ends_with(';') && !sql.trim().is_empty() && !sql.contains("--") {
                    sql = format!("{sql};")
                }
            }
        }
    }
    sql
}

impl Prop for C17 {
    fn id(&self) -> &'static str {
        "C17"
    }
    fn rule(&self) -> &'static str {
        "one case = a few HTTP requests against the live listeners; non-trivial iff at least one request was rejected by the authz \
         middleware (401 / extractor 400) or one statement was refused by a read gate; distinct by hash of the op lines"
    }
    fn default_cases(&self, tier: Tier) -> usize {
        match tier {
            Tier::Quick => 150,
            Tier::Thorough => 2500,
        }
    }
    fn enumerated_case(&self, _tier: Tier, index: usize) -> Option<Vec<String>> {
        // exhaustive: (cfg, path, method) x every header shape
        let paths = all_paths();
        let per = METHODS.len() * 2;
        let n_req = paths.len() * per;
        if index < n_req {
            let path = &paths[index / per];
            let method = METHODS[(index % per) / 2];
            let cfg = if index % 2 == 0 { "token" } else { "none" };
            return Some(SHAPES.iter().map(|s| format!("req {cfg} {method} {path} {s}")).collect());
        }
        // every statement text through both read endpoints
        let i = index - n_req;
        let st = stmts().get(i)?;
        let cfg = if i % 3 == 2 { "none" } else { "token" };
        Some(stmt_ops(cfg, st, &st.sql))
    }
    fn gen_case(&self, rng: &mut Rng, _tier: Tier, _index: usize) -> Vec<String> {
        let mut ops = vec![];
        let n = rng.range(1, 4);
        let paths = all_paths();
        for _ in 0..n {
            if rng.chance(3, 5) {
                let cfg = if rng.chance(3, 4) { "token" } else { "none" };
                let method = if rng.chance(1, 12) { *rng.pick(&["HEAD", "OPTIONS", "TRACE"]) } else { *rng.pick(METHODS) };
                let path = rng.pick(&paths).clone();
                let shape = if rng.chance(1, 6) { rng.pick(SHAPES).to_string() } else { fuzz_header(rng) };
                ops.push(format!("req {cfg} {method} {path} {shape}"));
            } else {
                let st = rng.pick(stmts()).clone();
                let sql = mutate_sql(rng, &st);
                let cfg = if rng.chance(2, 3) { "token" } else { "none" };
                let both = stmt_ops(cfg, &st, &sql);
                match rng.below(3) {
                    0 => ops.push(both[0].clone()),
                    1 => ops.push(both[1].clone()),
                    _ => ops.extend(both),
                }
            }
        }
        ops
    }
    fn begin(&self) {
        let _ = world();
    }
    fn end(&self) {
        let w = WORLD.lock().unwrap().take();
        if let Some(w) = w {
            runtime().block_on(async {
                let _ = w.with_token.trip_tx.send(()).await;
                let _ = w.without.trip_tx.send(()).await;
                // the agents' own shutdown routine (waits for the counted tasks), bounded
                let _ = tokio::time::timeout(Duration::from_secs(5), klukai_types::spawn::wait_for_all_pending_handles()).await;
            });
            if std::env::var_os("C17_KEEP_TMP").is_none() {
                let _ = std::fs::remove_dir_all(&w.tmp);
            }
        }
    }
    fn exec_case(&self, ops: &[String]) -> CaseResult {
        let w = world();
        let mut r = CaseResult::default();
        runtime().block_on(async {
            for op in ops {
                let toks: Vec<&str> = op.split_whitespace().collect();
                let res = match toks.first().copied() {
                    Some("req") if toks.len() == 5 => exec_req(&w, &toks).await,
                    Some("query") | Some("sub") if toks.len() == 5 => exec_stmt(&w, &toks).await,
                    _ => Err("bad-op".into()),
                };
                match res {
                    Ok(o) => {
                        r.outputs.push(o.out);
                        r.oracle_failures.extend(o.fails);
                        r.tags.extend(o.tags);
                        r.nontrivial |= o.nontrivial;
                    }
                    Err(e) if e == "bad-op" => r.outputs.push(e),
                    Err(e) => {
                        r.outputs.push(format!("err {}", e.split(':').next().unwrap_or("io")));
                        r.tags.push(format!("io-error:{e}"));
                        r.inconclusive = Some(format!("http/digest error: {e}"));
                    }
                }
            }
        });
        r
    }
}
