//! C12 — attaching to / resuming a subscription never skips or repeats a change silently.
//!
//! A REAL agent (`setup`, `api_v1_db_schema`, `api_v1_transactions`) with one REAL subscription
//! (`SubsManager::get_or_insert` → `Matcher`).  The harness plays the pipe `process_sub_channel`
//! normally plays: it owns the matcher's `evt_rx` and the `broadcast::Sender`, so every op line decides
//! when matcher events reach the broadcast channel relative to the steps of the REAL `catch_up_sub`
//! (called directly; it is `pub`) which runs against a client channel of capacity 1 whose consumer is
//! gated by the harness (`hold` / `release`).  The same op lines drive the Lean model
//! `Corro.CatchUp` through `Driver/C12.lean`.
//!
//! Op lines (one canonical answer each):
//!   tag <text>                         → ok
//!   init <rows> <bcap>                 real agent, table `t` with <rows> rows, subscription `SELECT id, v FROM t`,
//!                                      broadcast channel of capacity <bcap> (a power of two)
//!   w ins|upd|del <n>                  one local transaction through `api_v1_transactions` changing n rows; waits
//!                                      until the matcher has sent and committed the events (they stay in the pipe)
//!   wblock <n>                         insert n ≥ 513 rows and do NOT drain `evt_rx`: the matcher blocks after 512
//!                                      sends, inside its transaction (events sent, log not committed)
//!   wpause ins|upd|del <n>             one local transaction changing n rows, 1 ≤ n ≤ 511, with the pause hook
//!                                      (`klukai_types::pubsub::verif_hooks`) armed: the matcher sends the n events
//!                                      (they go to the pipe) and stops right BEFORE `tx.commit()` of its batch
//!   commit                             drain `evt_rx` so that the blocked matcher finishes and commits / let the
//!                                      paused matcher commit; waits for the commit
//!   prune                              the `PurgeOldChanges` statement (text taken from the source) on the sub db
//!   pub <k>|all                        publish the next k pipe events on the broadcast channel
//!   sub <sid>                          `tx.subscribe()` only (receiver exists, catch-up not started)
//!   attach <sid> new|skip|from:<N> hold|free
//!   release <sid>                      open the client gate of a held subscriber, wait for the hand-over / the end
//!   recv <sid>                         everything the client received since the last recv
//!   client <from|-> <script>           the REAL client library (`CorrosionApiClient::subscribe` →
//!                                      `SubscriptionStream`) against a scripted HTTP body served by the harness
use std::collections::{BTreeMap, VecDeque};
use std::sync::{Arc, Mutex};
use std::time::{Duration, Instant};

use axum::Extension;
use bytes::Bytes;
use futures::StreamExt;
use klukai_agent::agent::{AgentOptions, setup};
use klukai_agent::api::public::pubsub::{SubParams, catch_up_sub};
use klukai_agent::api::public::{TimeoutParams, api_v1_db_schema, api_v1_transactions};
use klukai_types::agent::Agent;
use klukai_types::api::{ChangeId, ColumnName, ExecResult, QueryEvent, QueryEventMeta, RowId, SqliteValue, Statement, TableName};
use klukai_types::base::CrsqlDbVersion;
use klukai_types::broadcast::{BroadcastInput, BroadcastV1, ChangeV1, Changeset};
use klukai_types::change::Change;
use klukai_types::config::Config;
use klukai_types::pubsub::{ChangeType, Matcher, MatcherHandle, pack_columns, verif_hooks};
use klukai_types::tripwire::Tripwire;
use klukai_types::updates::{Handle, match_changes};
use tokio::sync::{Semaphore, broadcast, mpsc};

use crate::crkit::{TmpDir, show_val};
use crate::rng::Rng;
use crate::runner::{CaseResult, Prop, Tier};

pub struct C12;

const SCHEMA: &str = "CREATE TABLE t (id INTEGER NOT NULL PRIMARY KEY, v INTEGER NOT NULL DEFAULT 0);";
const SUB_SQL: &str = "SELECT id, v FROM t";
const LONG: Duration = Duration::from_secs(40);
/// capacity of the matcher's event channel (`SUB_EVENT_CHANNEL_CAP`)
const EVT_CAP: u64 = 512;
/// capacity of the catch-up queue and of the intermediate row channel in `catch_up_sub_*`
const QCAP: u64 = 10240;

/// the purge statement, taken from the source the harness is compiled against
fn purge_sql() -> Option<String> {
    let src = include_str!("/repo/crates/klukai-types/src/pubsub.rs");
    let at = src.find("\"DELETE FROM changes WHERE id <")?;
    let rest = &src[at + 1..];
    let end = rest.find('"')?;
    Some(rest[..end].to_string())
}

type Msg = (Bytes, QueryEventMeta);

#[derive(Clone, Debug, PartialEq)]
enum Itm {
    Cols,
    Row(u64, Vec<String>),
    Eoq(Option<u64>),
    Chg(u64),
    Err,
    Sentinel(u64),
    Bad(String),
}

#[derive(Default)]
struct ClientLog {
    items: Vec<Itm>,
    closed: bool,
}

#[derive(Clone, Copy, PartialEq, Debug)]
enum Mode {
    New,
    Skip,
    From(u64),
}

#[derive(Clone, Copy, PartialEq, Debug)]
enum SubState {
    Created,
    Held,
    Live,
    Ended,
}

struct SubC {
    sid: String,
    mode: Mode,
    state: SubState,
    brx: Option<broadcast::Receiver<Msg>>,
    published_at_sub: u64,
    /// the buffering task found the receiver lagged and ignores the channel until the hand-over
    stuck: bool,
    log: Arc<Mutex<ClientLog>>,
    gate: Arc<Semaphore>,
    printed: usize,
    closed_printed: bool,
    committed_at_attach: u64,
    pruned_at_attach: u64,
}

#[derive(Clone, Debug)]
struct Ev {
    kind: ChangeType,
    rowid: u64,
    cells: Vec<String>,
    id: u64,
}

/// The pause gate is one static of the process: whatever way a case ends, a matcher waiting at it is let go.
#[derive(Default)]
struct PauseGate {
    armed: bool,
}

impl Drop for PauseGate {
    fn drop(&mut self) {
        if self.armed {
            verif_hooks::release();
        }
    }
}

struct World {
    agent: Agent,
    _opts: AgentOptions,
    _tw: (Tripwire, klukai_types::tripwire::TripwireWorker<tokio_stream::wrappers::ReceiverStream<()>>, mpsc::Sender<()>),
    handle: MatcherHandle,
    evt_rx: mpsc::Receiver<QueryEvent>,
    pipe: VecDeque<QueryEvent>,
    btx: broadcast::Sender<Msg>,
    bcap: u64,
    sent: u64,
    committed: u64,
    published: u64,
    pruned: u64,
    taken: u64,
    rows: u64,
    pending_rows: u64,
    next_id: u64,
    blocked_rem: u64,
    /// the matcher waits at the pause point: `committed+1 ..= sent` are sent (in the pipe or beyond), not committed
    paused: bool,
    pause_gate: PauseGate,
    init_rows: BTreeMap<u64, Vec<String>>,
    history: Vec<Ev>,
    subs: Vec<SubC>,
    sentinel_no: u64,
    last_sentinel: Instant,
    fails: Vec<String>,
    tags: Vec<String>,
    matched_version: Arc<std::sync::atomic::AtomicU64>,
    /// 0 = first execution of the case, 1 = retry after a timeout
    attempt: u32,
    /// a receiver that should read does not: reported once, later waits of this case are skipped
    settle_broken: bool,
}

fn cells_of(vals: &[SqliteValue]) -> Vec<String> {
    vals.iter().map(show_val).collect()
}

async fn wait_until<F: FnMut() -> bool>(what: &str, mut cond: F) -> Result<(), String> {
    let t0 = Instant::now();
    let mut n = 0u32;
    loop {
        if cond() {
            return Ok(());
        }
        if t0.elapsed() > LONG {
            return Err(format!("timeout waiting for {what}"));
        }
        n += 1;
        if n < 50 {
            tokio::task::yield_now().await;
        } else {
            tokio::time::sleep(Duration::from_millis(1)).await;
        }
    }
}

fn to_bytes(ev: &QueryEvent) -> Msg {
    let mut v = serde_json::to_vec(ev).expect("event serialises");
    v.push(b'\n');
    (Bytes::from(v), ev.meta())
}

fn decode(msg: &Msg) -> Itm {
    let (b, meta) = msg;
    if let QueryEventMeta::Notify = meta {
        let s = String::from_utf8_lossy(b);
        return match s.trim().strip_prefix("sentinel ").and_then(|x| x.parse().ok()) {
            Some(n) => Itm::Sentinel(n),
            None => Itm::Bad(format!("notify meta with payload {s}")),
        };
    }
    let ev: QueryEvent = match serde_json::from_slice(&b[..b.len().saturating_sub(1)]) {
        Ok(e) => e,
        Err(e) => return Itm::Bad(format!("undecodable payload: {e}")),
    };
    match (ev, meta) {
        (QueryEvent::Columns(_), QueryEventMeta::Columns) => Itm::Cols,
        (QueryEvent::Row(r, cells), QueryEventMeta::Row(m)) if r == *m => Itm::Row(r.0, cells_of(&cells)),
        (QueryEvent::EndOfQuery { change_id, .. }, QueryEventMeta::EndOfQuery(m)) if change_id == *m => Itm::Eoq(change_id.map(|c| c.0)),
        (QueryEvent::Change(_, _, _, id), QueryEventMeta::Change(m)) if id == *m => Itm::Chg(id.0),
        (QueryEvent::Error(_), QueryEventMeta::Error) => Itm::Err,
        (ev, meta) => Itm::Bad(format!("payload {ev:?} does not match meta {meta:?}")),
    }
}

/// canonical text of a list of client items: `r<n>` `eoq:<id>` `c:<a>-<b>` `err` `closed`
fn show_items(items: &[Itm], closed: bool) -> String {
    let mut out: Vec<String> = vec![];
    let mut i = 0;
    while i < items.len() {
        match &items[i] {
            Itm::Cols => {
                let mut n = 0;
                while i + 1 < items.len() && matches!(items[i + 1], Itm::Row(..)) {
                    n += 1;
                    i += 1;
                }
                out.push(format!("r{n}"));
            }
            Itm::Row(..) => out.push("row".into()),
            Itm::Eoq(Some(s)) => out.push(format!("eoq:{s}")),
            Itm::Eoq(None) => out.push("eoq:none".into()),
            Itm::Chg(a) => {
                let mut b = *a;
                while i + 1 < items.len() && items[i + 1] == Itm::Chg(b + 1) {
                    b += 1;
                    i += 1;
                }
                out.push(if b == *a { format!("c:{a}") } else { format!("c:{a}-{b}") });
            }
            Itm::Err => out.push("err".into()),
            Itm::Sentinel(_) => {}
            Itm::Bad(_) => out.push("bad".into()),
        }
        i += 1;
    }
    if closed {
        out.push("closed".into());
    }
    if out.is_empty() { "-".into() } else { out.join(" ") }
}

async fn start_world(dir: &std::path::Path, rows: u64, bcap: u64, attempt: u32) -> Result<World, String> {
    let (tripwire, worker, tx) = Tripwire::new_simple();
    let conf = Config::builder()
        .db_path(dir.join("corrosion.db").display().to_string())
        .gossip_addr("127.0.0.1:0".parse().unwrap())
        .api_addr("127.0.0.1:0".parse().unwrap())
        .build()
        .map_err(|e| format!("config: {e}"))?;
    let (agent, mut opts) = setup(conf, tripwire.clone()).await.map_err(|e| format!("setup: {e}"))?;
    let (status, body) = api_v1_db_schema(Extension(agent.clone()), axum::Json(vec![SCHEMA.to_string()])).await;
    if !status.is_success() {
        return Err(format!("schema: {:?}", body.0.results));
    }
    // nobody gossips: what `broadcast_changes` hands to the (absent) broadcaster only tells the harness that every
    // chunk of a local version has been through `match_changes` (the chunk loop is sequential, the last chunk's
    // message is spawned after the last `match_changes` call)
    let (_dtx, drx) = klukai_types::channel::bounded(1, "c12_dummy");
    let mut rx_bcast = std::mem::replace(&mut opts.rx_bcast, drx);
    let matched_version = Arc::new(std::sync::atomic::AtomicU64::new(0));
    let mv = matched_version.clone();
    tokio::spawn(async move {
        while let Some(msg) = rx_bcast.recv().await {
            if let BroadcastInput::AddBroadcast(BroadcastV1::Change(ChangeV1 { changeset: Changeset::Full { version, seqs, last_seq, .. }, .. })) = msg {
                if *seqs.end() == last_seq {
                    mv.fetch_max(version.0, std::sync::atomic::Ordering::SeqCst);
                }
            }
        }
    });

    if rows > 0 {
        let sql = format!("INSERT INTO t (id, v) WITH RECURSIVE c(x) AS (SELECT 1 UNION ALL SELECT x+1 FROM c WHERE x < {rows}) SELECT x, 0 FROM c");
        let (status, resp) = api_v1_transactions(Extension(agent.clone()), axum::extract::Query(TimeoutParams { timeout: None }), axum::Json(vec![Statement::Simple(sql)])).await;
        if !status.is_success() {
            return Err(format!("initial rows: {:?}", resp.0.results));
        }
    }
    let (handle, created) = {
        let subs_path = agent.config().db.subscriptions_path();
        let schema = agent.schema().read();
        agent.subs_manager().get_or_insert(SUB_SQL, &subs_path, &schema, agent.pool(), tripwire.clone()).map_err(|e| format!("get_or_insert: {e}"))?
    };
    let mut evt_rx = created.ok_or("subscription already existed")?.evt_rx;
    // the matcher's own initial query: Columns, Row*, EndOfQuery{0}
    let mut init_rows = BTreeMap::new();
    let mut saw_cols = false;
    loop {
        let ev = tokio::time::timeout(LONG, evt_rx.recv()).await.map_err(|_| "timeout waiting for the initial query")?.ok_or("matcher event channel closed")?;
        match ev {
            QueryEvent::Columns(_) => saw_cols = true,
            QueryEvent::Row(r, cells) => {
                init_rows.insert(r.0, cells_of(&cells));
            }
            QueryEvent::EndOfQuery { change_id, .. } => {
                if change_id != Some(ChangeId(0)) {
                    return Err(format!("initial end of query carries {change_id:?}"));
                }
                break;
            }
            other => return Err(format!("unexpected initial event {other:?}")),
        }
    }
    if !saw_cols || init_rows.len() as u64 != rows {
        return Err(format!("initial query returned {} rows, expected {rows}", init_rows.len()));
    }
    // wait for the command loop (state Running)
    {
        let h2 = handle.clone();
        let conn = handle.pool().get().await.map_err(|e| e.to_string())?;
        tokio::time::timeout(LONG, tokio::task::spawn_blocking(move || h2.max_change_id(&conn).map(|_| ())))
            .await
            .map_err(|_| "timeout waiting for the matcher to run")?
            .map_err(|e| e.to_string())?
            .map_err(|e| e.to_string())?;
    }
    let (btx, _) = broadcast::channel::<Msg>(bcap as usize);
    Ok(World {
        agent,
        _opts: opts,
        _tw: (tripwire, worker, tx),
        handle,
        evt_rx,
        pipe: VecDeque::new(),
        btx,
        bcap,
        sent: 0,
        committed: 0,
        published: 0,
        pruned: 0,
        taken: 0,
        rows,
        pending_rows: rows,
        next_id: rows + 1,
        blocked_rem: 0,
        paused: false,
        pause_gate: PauseGate::default(),
        init_rows,
        history: vec![],
        subs: vec![],
        sentinel_no: 0,
        last_sentinel: Instant::now(),
        fails: vec![],
        tags: vec![],
        matched_version,
        attempt,
        settle_broken: false,
    })
}

impl World {
    fn take_available(&mut self) {
        while let Ok(ev) = self.evt_rx.try_recv() {
            self.record(ev);
        }
    }

    fn record(&mut self, ev: QueryEvent) {
        match &ev {
            QueryEvent::Change(kind, rowid, cells, id) => {
                self.taken += 1;
                if id.0 != self.taken {
                    self.fails.push(format!("matcher: event #{} carries change id {}", self.taken, id.0));
                }
                self.history.push(Ev { kind: *kind, rowid: rowid.0, cells: cells_of(cells), id: id.0 });
            }
            other => self.fails.push(format!("matcher: unexpected event {other:?}")),
        }
        self.pipe.push_back(ev);
    }

    async fn log_max(&self) -> Result<u64, String> {
        let conn = self.handle.pool().get().await.map_err(|e| e.to_string())?;
        tokio::task::block_in_place(|| conn.query_row("SELECT COALESCE(MAX(id),0) FROM changes", [], |r| r.get::<_, i64>(0)).map(|x| x as u64).map_err(|e| e.to_string()))
    }

    /// makes the matcher process what it has buffered now instead of at its 600 ms deadline: 1000 candidate
    /// keys that exist in no table (they select nothing)
    fn nudge(&self) {
        let fake: Vec<Change> = (0..1000i64)
            .map(|i| Change {
                table: TableName("t".into()),
                pk: pack_columns(&[SqliteValue::Integer(4_000_000_000 + i)]).expect("pack"),
                cid: ColumnName("v".into()),
                cl: 1,
                ..Default::default()
            })
            .collect();
        match_changes(self.agent.subs_manager(), &fake, CrsqlDbVersion(0));
    }

    async fn exec_write(&mut self, sql: String) -> Result<u64, String> {
        let (status, resp) =
            api_v1_transactions(Extension(self.agent.clone()), axum::extract::Query(TimeoutParams { timeout: None }), axum::Json(vec![Statement::Simple(sql)])).await;
        if !status.is_success() {
            return Err(format!("write failed: {:?}", resp.0.results));
        }
        let affected = match resp.0.results.first() {
            Some(ExecResult::Execute { rows_affected, .. }) => *rows_affected as u64,
            other => return Err(format!("write result {other:?}")),
        };
        if let Some(v) = resp.0.version {
            // all candidates of this version are in the matcher's buffer before anybody nudges it
            let mv = self.matched_version.clone();
            wait_until("broadcast_changes to hand every chunk to match_changes", || mv.load(std::sync::atomic::Ordering::SeqCst) >= v).await?;
        }
        Ok(affected)
    }

    /// waits until the matcher's watch shows `want_sent`; keeps nudging; drains `evt_rx` when `drain`
    async fn wait_sent(&mut self, want_sent: u64, drain: bool) -> Result<(), String> {
        let t0 = Instant::now();
        let mut last_nudge: Option<Instant> = None;
        loop {
            if drain {
                self.take_available();
            }
            if self.handle.last_change_id_sent().0 >= want_sent {
                break;
            }
            if t0.elapsed() > LONG {
                return Err(format!("timeout waiting for the matcher to send change {want_sent} (at {})", self.handle.last_change_id_sent().0));
            }
            if last_nudge.map(|t| t.elapsed() > Duration::from_millis(40)).unwrap_or(true) {
                self.nudge();
                last_nudge = Some(Instant::now());
            }
            tokio::time::sleep(Duration::from_millis(1)).await;
        }
        if self.handle.last_change_id_sent().0 != want_sent {
            return Err(format!("matcher sent change {} although only {want_sent} were expected", self.handle.last_change_id_sent().0));
        }
        Ok(())
    }

    async fn wait_committed(&mut self, want: u64) -> Result<(), String> {
        let t0 = Instant::now();
        loop {
            self.take_available();
            let m = self.log_max().await?;
            if m == want {
                break;
            }
            if m > want {
                return Err(format!("log is at {m}, expected {want}"));
            }
            if t0.elapsed() > LONG {
                return Err(format!("timeout waiting for the log to reach {want} (at {m})"));
            }
            tokio::time::sleep(Duration::from_millis(1)).await;
        }
        // every event is out of the channel
        let t0 = Instant::now();
        while self.taken < want {
            self.take_available();
            if t0.elapsed() > LONG {
                return Err(format!("timeout waiting for event {want} on the matcher channel (have {})", self.taken));
            }
            tokio::time::sleep(Duration::from_millis(1)).await;
        }
        Ok(())
    }

    async fn write(&mut self, kind: &str, n: u64) -> Result<String, String> {
        if self.blocked_rem > 0 || self.paused {
            return Err("bad-op".into());
        }
        let sql = match kind {
            "ins" => {
                if n == 0 {
                    return Err("bad-op".into());
                }
                let (a, b) = (self.next_id, self.next_id + n - 1);
                format!("INSERT INTO t (id, v) WITH RECURSIVE c(x) AS (SELECT {a} UNION ALL SELECT x+1 FROM c WHERE x < {b}) SELECT x, 0 FROM c")
            }
            "upd" => format!("UPDATE t SET v = v + 1 WHERE id IN (SELECT id FROM t ORDER BY id LIMIT {n})"),
            "del" => format!("DELETE FROM t WHERE id IN (SELECT id FROM t ORDER BY id LIMIT {n})"),
            _ => return Err("bad-op".into()),
        };
        let affected = self.exec_write(sql).await?;
        let want = self.sent + affected;
        if affected > 0 {
            self.wait_sent(want, true).await?;
            self.wait_committed(want).await?;
        }
        self.sent = want;
        self.committed = want;
        match kind {
            "ins" => {
                self.rows += affected;
                self.next_id += n;
            }
            "del" => self.rows -= affected.min(self.rows),
            _ => {}
        }
        self.pending_rows = self.rows;
        Ok(format!("ok ev={affected} sent={}", self.sent))
    }

    async fn wblock(&mut self, n: u64) -> Result<String, String> {
        if self.blocked_rem > 0 || self.paused || self.published != self.sent || n <= EVT_CAP || !self.pipe.is_empty() {
            return Err("bad-op".into());
        }
        self.take_available();
        if !self.pipe.is_empty() {
            return Err("matcher channel was not empty".into());
        }
        let (a, b) = (self.next_id, self.next_id + n - 1);
        let sql = format!("INSERT INTO t (id, v) WITH RECURSIVE c(x) AS (SELECT {a} UNION ALL SELECT x+1 FROM c WHERE x < {b}) SELECT x, 0 FROM c");
        let affected = self.exec_write(sql).await?;
        if affected != n {
            return Err(format!("insert affected {affected} rows, expected {n}"));
        }
        self.next_id += n;
        let want = self.sent + EVT_CAP;
        self.wait_sent(want, false).await?;
        // the matcher must now be blocked on its 513th send: the watch does not move
        tokio::time::sleep(Duration::from_millis(5)).await;
        if self.handle.last_change_id_sent().0 != want {
            return Err("matcher was not blocked by the full event channel".into());
        }
        let m = self.log_max().await?;
        if m != self.committed {
            self.fails.push(format!("matcher: log at {m} while the batch is still being sent (committed before: {})", self.committed));
        }
        self.sent = want;
        self.blocked_rem = n - EVT_CAP;
        self.pending_rows = self.rows + n;
        Ok(format!("ok sent={}", self.sent))
    }

    fn gate_is_paused() -> bool {
        verif_hooks::wait_until_paused(Duration::ZERO)
    }

    /// opens the gate for the matcher waiting at it and waits until it has gone through
    async fn let_matcher_pass(&mut self) -> Result<(), String> {
        verif_hooks::release();
        wait_until("the matcher to leave the pause point", || !Self::gate_is_paused()).await?;
        self.pause_gate.armed = false;
        Ok(())
    }

    /// Nothing is queued for the matcher and it is not inside a batch: the probe keys of earlier ops (`nudge`) have
    /// all been processed.  One more probe batch is sent with the gate armed; the batch that stops at the gate while
    /// the candidate channel is empty is the last one.
    async fn quiesce_matcher(&mut self) -> Result<(), String> {
        let tx = self.handle.changes_tx();
        let t0 = Instant::now();
        verif_hooks::arm();
        self.pause_gate.armed = true;
        self.nudge();
        loop {
            if t0.elapsed() > LONG {
                return Err("timeout waiting for the matcher to become idle".into());
            }
            if !tokio::task::block_in_place(|| verif_hooks::wait_until_paused(Duration::from_millis(50))) {
                continue;
            }
            let s = self.handle.last_change_id_sent().0;
            if s != self.sent {
                return Err(format!("matcher sent change {s} while it should be idle at {}", self.sent));
            }
            let empty = tx.capacity() == tx.max_capacity();
            self.let_matcher_pass().await?;
            if empty {
                return Ok(());
            }
            verif_hooks::arm();
            self.pause_gate.armed = true;
        }
    }

    /// `w` with the pause hook armed: the matcher sends the events of the batch and stops before its commit
    async fn wpause(&mut self, kind: &str, n: u64) -> Result<String, String> {
        if self.blocked_rem > 0 || self.paused || n == 0 || n >= EVT_CAP {
            return Err("bad-op".into());
        }
        let sql = match kind {
            "ins" => {
                let (a, b) = (self.next_id, self.next_id + n - 1);
                format!("INSERT INTO t (id, v) WITH RECURSIVE c(x) AS (SELECT {a} UNION ALL SELECT x+1 FROM c WHERE x < {b}) SELECT x, 0 FROM c")
            }
            // a transaction that changes nothing produces no batch to pause
            "upd" | "del" if self.rows == 0 => return Err("bad-op".into()),
            "upd" => format!("UPDATE t SET v = v + 1 WHERE id IN (SELECT id FROM t ORDER BY id LIMIT {n})"),
            "del" => format!("DELETE FROM t WHERE id IN (SELECT id FROM t ORDER BY id LIMIT {n})"),
            _ => return Err("bad-op".into()),
        };
        self.take_available();
        self.quiesce_matcher().await?;
        verif_hooks::arm();
        self.pause_gate.armed = true;
        let affected = self.exec_write(sql).await?;
        if affected == 0 || affected > n {
            return Err(format!("write affected {affected} rows, expected 1..={n}"));
        }
        let want = self.sent + affected;
        // the candidates are with the matcher; it handles them when the probe keys arrive (or at its deadline) and
        // stops at the gate: all events sent, nothing committed
        let t0 = Instant::now();
        let mut last_nudge: Option<Instant> = None;
        loop {
            if last_nudge.map(|t| t.elapsed() > Duration::from_millis(40)).unwrap_or(true) {
                self.nudge();
                last_nudge = Some(Instant::now());
            }
            if tokio::task::block_in_place(|| verif_hooks::wait_until_paused(Duration::from_millis(20))) {
                break;
            }
            if t0.elapsed() > LONG {
                return Err("timeout waiting for the matcher to reach the pause point".into());
            }
        }
        let s = self.handle.last_change_id_sent().0;
        if s != want {
            // the matcher's 600 ms deadline fell between two chunks of the transaction: not the schedule asked for
            return Err(format!("timeout: the matcher paused after change {s}, the batch should end at {want}"));
        }
        let t0 = Instant::now();
        while self.taken < want {
            self.take_available();
            if t0.elapsed() > LONG {
                return Err(format!("timeout waiting for event {want} on the matcher channel (have {})", self.taken));
            }
            tokio::task::yield_now().await;
        }
        let m = self.log_max().await?;
        if m != self.committed {
            self.fails.push(format!("matcher: log at {m} while the batch is sent and not committed (committed before: {})", self.committed));
        }
        self.sent = want;
        self.paused = true;
        match kind {
            "ins" => {
                self.pending_rows = self.rows + affected;
                self.next_id += n;
            }
            "del" => self.pending_rows = self.rows - affected.min(self.rows),
            _ => self.pending_rows = self.rows,
        }
        Ok(format!("ok ev={affected} sent={}", self.sent))
    }

    async fn commit(&mut self) -> Result<String, String> {
        if self.paused {
            let m = self.log_max().await?;
            if m != self.committed || !Self::gate_is_paused() {
                return Err(format!("the matcher did not stay at the pause point (log at {m}, committed before: {})", self.committed));
            }
            self.let_matcher_pass().await?;
            let want = self.sent;
            self.wait_committed(want).await?;
            self.committed = want;
            self.paused = false;
            self.rows = self.pending_rows;
            return Ok(format!("ok sent={}", self.sent));
        }
        if self.blocked_rem == 0 {
            return Err("bad-op".into());
        }
        let want = self.sent + self.blocked_rem;
        self.wait_sent(want, true).await?;
        self.wait_committed(want).await?;
        self.sent = want;
        self.committed = want;
        self.blocked_rem = 0;
        self.rows = self.pending_rows;
        Ok(format!("ok sent={}", self.sent))
    }

    async fn prune(&mut self) -> Result<String, String> {
        // (the paused matcher holds the write lock of the subscription database)
        if self.blocked_rem > 0 || self.paused {
            return Err("bad-op".into());
        }
        let sql = purge_sql().ok_or("the purge statement was not found in klukai-types/src/pubsub.rs")?;
        let path = Matcher::sub_db_path(&self.agent.config().db.subscriptions_path(), self.handle.id());
        let pruned = tokio::task::block_in_place(|| -> Result<u64, String> {
            let conn = rusqlite::Connection::open(path.as_std_path()).map_err(|e| e.to_string())?;
            conn.busy_timeout(Duration::from_secs(20)).map_err(|e| e.to_string())?;
            conn.execute(&sql, []).map_err(|e| format!("purge: {e}"))?;
            conn.query_row("SELECT COALESCE(MIN(id) - 1, 0) FROM changes", [], |r| r.get::<_, i64>(0)).map(|x| x as u64).map_err(|e| e.to_string())
        })?;
        self.pruned = pruned;
        Ok(format!("ok pruned={pruned}"))
    }

    fn idle_receivers(&self) -> bool {
        self.subs.iter().any(|s| s.state == SubState::Created || (s.stuck && s.state == SubState::Held))
    }

    /// every receiver that reads has read everything published so far
    async fn settle(&mut self) -> Result<(), String> {
        if self.idle_receivers() || self.settle_broken {
            return Ok(());
        }
        static SLOW: std::sync::atomic::AtomicU32 = std::sync::atomic::AtomicU32::new(0);
        let btx = self.btx.clone();
        // once this has timed out twice in this process the wait is shortened (every such case would time out)
        let deadline = if SLOW.load(std::sync::atomic::Ordering::SeqCst) >= 2 { Duration::from_secs(1) } else { LONG };
        let t0 = Instant::now();
        while btx.len() != 0 {
            if t0.elapsed() > deadline {
                SLOW.fetch_add(1, std::sync::atomic::Ordering::SeqCst);
                if self.attempt == 0 {
                    return Err("timeout waiting for the broadcast receivers to read what was published".into());
                }
                // second attempt: this is an observation about the code, not about the machine
                let held: Vec<String> = self.subs.iter().filter(|s| s.state == SubState::Held).map(|s| s.sid.clone()).collect();
                let n = btx.len();
                self.settle_broken = true;
                self.fails.push(format!(
                    "buffering: {} published event(s) were not taken from the broadcast channel within {:?} although every receiver should be reading (held readers: {}): a subscriber is not buffering live events during its catch-up read",
                    n, deadline, held.join(",")
                ));
                return Ok(());
            }
            tokio::time::sleep(Duration::from_millis(1)).await;
        }
        for _ in 0..3 {
            tokio::task::yield_now().await;
        }
        Ok(())
    }

    async fn publish(&mut self, k: Option<u64>) -> Result<String, String> {
        if self.blocked_rem == 0 {
            self.take_available();
        }
        let avail = self.sent - self.published;
        let k = match k {
            Some(k) => k.min(avail),
            None => {
                if self.blocked_rem > 0 {
                    return Err("bad-op".into());
                }
                avail
            }
        };
        if self.blocked_rem > 0 && k >= self.blocked_rem {
            return Err("bad-op".into());
        }
        // more than the channel holds while somebody reads it: whether that receiver lags is a race
        if k > self.bcap && self.subs.iter().any(|s| (s.state == SubState::Held && !s.stuck) || s.state == SubState::Live) {
            return Err("bad-op".into());
        }
        // events not yet taken from the matcher's channel
        let t0 = Instant::now();
        while (self.pipe.len() as u64) < k {
            match tokio::time::timeout(LONG.saturating_sub(t0.elapsed()), self.evt_rx.recv()).await {
                Ok(Some(ev)) => self.record(ev),
                Ok(None) => return Err("matcher event channel closed".into()),
                Err(_) => return Err("timeout waiting for matcher events".into()),
            }
        }
        if self.blocked_rem > 0 && k > 0 {
            // the blocked matcher sends one more event for each one taken
            let want = self.sent + k;
            let h = self.handle.clone();
            wait_until("the blocked matcher to send the next events", || h.last_change_id_sent().0 >= want).await?;
            tokio::time::sleep(Duration::from_millis(2)).await;
            if self.handle.last_change_id_sent().0 != want {
                return Err(format!("blocked matcher sent up to {} instead of {want}", self.handle.last_change_id_sent().0));
            }
            self.sent = want;
            self.blocked_rem -= k;
        }
        for _ in 0..k {
            let ev = self.pipe.pop_front().expect("pipe");
            let _ = self.btx.send(to_bytes(&ev));
            self.published += 1;
        }
        self.settle().await?;
        Ok(format!("ok published={} sent={}", self.published, self.sent))
    }

    fn find(&self, sid: &str) -> Option<usize> {
        self.subs.iter().position(|s| s.sid == sid)
    }

    fn new_sub(&self, sid: &str) -> SubC {
        SubC {
            sid: sid.to_string(),
            mode: Mode::New,
            state: SubState::Created,
            brx: Some(self.btx.subscribe()),
            published_at_sub: self.published,
            stuck: false,
            log: Arc::new(Mutex::new(ClientLog::default())),
            gate: Arc::new(Semaphore::new(0)),
            printed: 0,
            closed_printed: false,
            committed_at_attach: 0,
            pruned_at_attach: 0,
        }
    }

    async fn attach(&mut self, sid: &str, mode: Mode, hold: bool) -> Result<String, String> {
        let idx = match self.find(sid) {
            Some(i) if self.subs[i].state == SubState::Created => i,
            Some(_) => return Err("bad-op".into()),
            None => {
                let s = self.new_sub(sid);
                self.subs.push(s);
                self.subs.len() - 1
            }
        };
        let permits = if hold {
            match mode {
                Mode::New if self.rows_committed() >= 2 && self.rows_committed() + 2 <= QCAP + 2 + 100_000 => 2,
                Mode::From(n) if self.committed.saturating_sub(n.max(self.pruned)) >= 3 => 1,
                _ => {
                    if self.subs[idx].published_at_sub == self.published && self.subs[idx].brx.is_some() && self.find(sid) == Some(self.subs.len() - 1) {
                        // created by this op: forget it again
                    }
                    return Err("bad-op".into());
                }
            }
        } else {
            Semaphore::MAX_PERMITS / 2
        };
        let params: SubParams = match mode {
            Mode::New => serde_json::from_str("{}"),
            Mode::Skip => serde_json::from_str(r#"{"skip_rows":true}"#),
            Mode::From(n) => serde_json::from_str(&format!(r#"{{"from":{n}}}"#)),
        }
        .map_err(|e| format!("SubParams: {e}"))?;
        if self.paused {
            self.tags.push("attach-while-matcher-paused".into());
            // every uncommitted event was broadcast before this receiver existed: it has nothing to buffer
            if self.published == self.sent && self.subs[idx].published_at_sub == self.published {
                self.tags.push("attach-between-send-and-commit".into());
            }
        }
        let (ctx, mut crx) = mpsc::channel::<Msg>(1);
        let brx = self.subs[idx].brx.take().ok_or("receiver already used")?;
        let stuck = self.published - self.subs[idx].published_at_sub > self.bcap;
        {
            let s = &mut self.subs[idx];
            s.mode = mode;
            s.stuck = stuck;
            s.committed_at_attach = self.committed;
            s.pruned_at_attach = self.pruned;
            s.gate.add_permits(permits);
        }
        let log = self.subs[idx].log.clone();
        let gate = self.subs[idx].gate.clone();
        tokio::spawn(async move {
            loop {
                match gate.acquire().await {
                    Ok(p) => p.forget(),
                    Err(_) => return,
                }
                match crx.recv().await {
                    Some(msg) => log.lock().unwrap().items.push(decode(&msg)),
                    None => {
                        log.lock().unwrap().closed = true;
                        return;
                    }
                }
            }
        });
        tokio::spawn(catch_up_sub(self.handle.clone(), params, brx, ctx));
        if hold {
            let log = self.subs[idx].log.clone();
            wait_until("the first items of the catch-up read", || log.lock().unwrap().items.len() >= permits).await?;
            self.subs[idx].state = SubState::Held;
            self.settle().await?;
            Ok("ok held".into())
        } else {
            self.subs[idx].state = SubState::Held;
            self.await_live(idx).await
        }
    }

    fn rows_committed(&self) -> u64 {
        self.rows
    }

    fn send_sentinel(&mut self) -> u64 {
        self.sentinel_no += 1;
        let _ = self.btx.send((Bytes::from(format!("sentinel {}\n", self.sentinel_no)), QueryEventMeta::Notify));
        self.last_sentinel = Instant::now();
        self.sentinel_no
    }

    /// after the gate is open: wait until `forward_sub_to_sender` runs (a probe message that the buffering task
    /// ignores comes out at the client) or the stream ended
    async fn await_live(&mut self, idx: usize) -> Result<String, String> {
        let t0 = Instant::now();
        let first = self.sentinel_no + 1;
        loop {
            {
                let l = self.subs[idx].log.lock().unwrap();
                if l.closed {
                    drop(l);
                    self.subs[idx].state = SubState::Ended;
                    return Ok("ok ended".into());
                }
                if l.items.iter().any(|i| matches!(i, Itm::Sentinel(n) if *n >= first)) {
                    drop(l);
                    self.subs[idx].state = SubState::Live;
                    self.subs[idx].stuck = false;
                    return Ok("ok live".into());
                }
            }
            if t0.elapsed() > LONG {
                return Err(format!("timeout waiting for the hand-over of {}", self.subs[idx].sid));
            }
            // normally only into an empty channel (a probe must not push a lagging receiver further behind); if
            // somebody never empties it the probe is sent anyway after a while
            if (self.btx.len() == 0 || self.settle_broken || t0.elapsed() > Duration::from_secs(3)) && self.last_sentinel.elapsed() > Duration::from_millis(4) {
                self.send_sentinel();
            }
            tokio::time::sleep(Duration::from_millis(1)).await;
        }
    }

    async fn release(&mut self, sid: &str) -> Result<String, String> {
        let idx = self.find(sid).filter(|i| self.subs[*i].state == SubState::Held).ok_or("bad-op")?;
        if self.paused {
            self.tags.push("release-while-matcher-paused".into());
        }
        self.subs[idx].gate.add_permits(Semaphore::MAX_PERMITS / 2);
        self.await_live(idx).await
    }

    async fn recv(&mut self, sid: &str) -> Result<String, String> {
        let idx = self.find(sid).ok_or("bad-op")?;
        match self.subs[idx].state {
            SubState::Created => return Err("bad-op".into()),
            SubState::Held => return Ok("held".into()),
            SubState::Live => {
                // everything published so far has been forwarded once a fresh probe comes out
                let t0 = Instant::now();
                let idle = self.idle_receivers();
                let mut probe: Option<u64> = None;
                loop {
                    {
                        let l = self.subs[idx].log.lock().unwrap();
                        if l.closed {
                            drop(l);
                            self.subs[idx].state = SubState::Ended;
                            break;
                        }
                        if let Some(p) = probe {
                            if l.items.iter().any(|i| matches!(i, Itm::Sentinel(n) if *n >= p)) {
                                break;
                            }
                        }
                    }
                    if t0.elapsed() > LONG {
                        return Err(format!("timeout waiting for the probe on {sid}"));
                    }
                    if (idle || self.btx.len() == 0 || self.settle_broken || t0.elapsed() > Duration::from_secs(3)) && self.last_sentinel.elapsed() > Duration::from_millis(4) {
                        let n = self.send_sentinel();
                        if probe.is_none() {
                            probe = Some(n);
                        }
                    }
                    tokio::time::sleep(Duration::from_millis(1)).await;
                }
            }
            SubState::Ended => {}
        }
        let s = &mut self.subs[idx];
        let l = s.log.lock().unwrap();
        let closed_now = l.closed && s.state == SubState::Ended && !s.closed_printed;
        if closed_now {
            s.closed_printed = true;
        }
        // up to the probe only (later items belong to the next recv)
        let new: Vec<Itm> = l.items[s.printed..].iter().filter(|i| !matches!(i, Itm::Sentinel(_))).cloned().collect();
        s.printed = l.items.len();
        Ok(show_items(&new, closed_now))
    }

    // ------------------------------------------------------------ the property, on what the clients received
    fn oracle(&mut self) {
        let quiet = self.published == self.sent && self.blocked_rem == 0;
        for s in &self.subs {
            if s.state == SubState::Created {
                continue;
            }
            let l = s.log.lock().unwrap();
            let items: Vec<Itm> = l.items.iter().filter(|i| !matches!(i, Itm::Sentinel(_))).cloned().collect();
            let closed = l.closed;
            drop(l);
            let sid = &s.sid;
            for i in &items {
                if let Itm::Bad(why) = i {
                    self.fails.push(format!("stream: sub {sid}: {why}"));
                }
            }
            let mut pos = 0;
            let mut base: Option<u64> = None;
            let mut outside = false;
            // resume point beyond the head of the log: outside the property's quantifier too
            let mut beyond = false;
            match s.mode {
                Mode::New => {
                    if items.is_empty() {
                        continue;
                    }
                    if items[0] != Itm::Cols {
                        self.fails.push(format!("snapshot: sub {sid}: first item is {:?}, not the columns", items[0]));
                    }
                    pos = 1;
                    let mut rows: BTreeMap<u64, Vec<String>> = BTreeMap::new();
                    while pos < items.len() {
                        if let Itm::Row(r, c) = &items[pos] {
                            if rows.insert(*r, c.clone()).is_some() {
                                self.fails.push(format!("snapshot: sub {sid}: row {r} sent twice"));
                            }
                            pos += 1;
                        } else {
                            break;
                        }
                    }
                    match items.get(pos) {
                        Some(Itm::Eoq(Some(sv))) => {
                            base = Some(*sv);
                            pos += 1;
                            // the rows must be the state after exactly the changes 1..=s
                            let mut want = self.init_rows.clone();
                            for e in self.history.iter().filter(|e| e.id <= *sv) {
                                match e.kind {
                                    ChangeType::Delete => {
                                        want.remove(&e.rowid);
                                    }
                                    _ => {
                                        want.insert(e.rowid, e.cells.clone());
                                    }
                                }
                            }
                            if (self.history.len() as u64) < *sv {
                                self.fails.push(format!("snapshot: sub {sid}: end of query carries change id {sv}, beyond the {} changes emitted", self.history.len()));
                            } else if want != rows {
                                self.fails.push(format!(
                                    "snapshot: sub {sid}: the rows are not the query result after change {sv} ({} rows sent, {} expected): rows and change id come from different states",
                                    rows.len(),
                                    want.len()
                                ));
                            }
                        }
                        Some(Itm::Err) | None => {}
                        Some(other) => self.fails.push(format!("snapshot: sub {sid}: {other:?} where the end of query was expected")),
                    }
                }
                Mode::Skip => base = Some(s.committed_at_attach),
                Mode::From(n) => {
                    base = Some(n);
                    outside = n < s.pruned_at_attach;
                    beyond = n > s.committed_at_attach;
                }
            }
            let mut last = base;
            let mut first_change = true;
            let mut ended = false;
            let (mut dups, mut gaps) = (0u32, 0u32);
            while pos < items.len() {
                match &items[pos] {
                    Itm::Chg(k) => {
                        if ended {
                            self.fails.push(format!("stream: sub {sid}: change {k} after the error event"));
                        } else if let Some(l) = last {
                            if *k != l + 1 {
                                if beyond && *k <= l {
                                    // the client claimed ids that did not exist yet
                                } else if first_change && outside {
                                    // F14: resume point older than the retained log (outside the property's quantifier)
                                } else if *k <= l {
                                    dups += 1;
                                    if dups == 1 { self.fails.push(format!(
                                        "handover-duplicate: sub {sid} ({:?}): change {k} delivered after change {l} (already delivered or covered by the snapshot / resume point)",
                                        s.mode
                                    )); }
                                } else {
                                    gaps += 1;
                                    if gaps == 1 { self.fails.push(format!("gap: sub {sid} ({:?}): change {k} follows {l}: changes {}..{} were skipped and the stream continued", s.mode, l + 1, k - 1)); }
                                }
                            }
                            last = Some((*k).max(l));
                        }
                        first_change = false;
                    }
                    Itm::Err => ended = true,
                    Itm::Bad(_) => {}
                    other => self.fails.push(format!("stream: sub {sid}: unexpected {other:?} after the snapshot part")),
                }
                pos += 1;
            }
            if ended && s.state == SubState::Ended && !closed {
                self.fails.push(format!("stream: sub {sid}: error event without closing the stream"));
            }
            // nothing skipped at the end: a live stream has delivered everything that was published
            if s.state == SubState::Live && quiet && !ended && !closed {
                if let (Some(b), Some(l)) = (base, last) {
                    let want = self.sent.max(b);
                    if l != want && !(outside && first_change) {
                        self.fails.push(format!("gap: sub {sid} ({:?}): live stream is at change {l} although {want} changes were published", s.mode));
                    }
                }
            }
        }
    }
}

// ------------------------------------------------------------------------------------------------
// client library part
// ------------------------------------------------------------------------------------------------

#[derive(Clone, Debug, PartialEq)]
enum Scr {
    Cols,
    Row,
    Eoq(Option<u64>),
    Chg(u64),
    Drop,
}

fn parse_script(s: &str) -> Option<Vec<Scr>> {
    crate::util::split_list(s)
        .into_iter()
        .map(|t| match t {
            "cols" => Some(Scr::Cols),
            "row" => Some(Scr::Row),
            "eoqn" => Some(Scr::Eoq(None)),
            "drop" => Some(Scr::Drop),
            _ => {
                if let Some(x) = t.strip_prefix("eoq:") {
                    x.parse().ok().map(|v| Scr::Eoq(Some(v)))
                } else if let Some(x) = t.strip_prefix("c:") {
                    x.parse().ok().map(Scr::Chg)
                } else {
                    None
                }
            }
        })
        .collect()
}

struct Served {
    segments: VecDeque<Vec<Scr>>,
    resumes: Vec<String>,
}

fn scr_line(s: &Scr) -> Vec<u8> {
    let ev: QueryEvent = match s {
        Scr::Cols => QueryEvent::Columns(vec![ColumnName("id".into()), ColumnName("v".into())]),
        Scr::Row => QueryEvent::Row(RowId(1), vec![SqliteValue::Integer(1), SqliteValue::Integer(0)]),
        Scr::Eoq(c) => QueryEvent::EndOfQuery { time: 0.0, change_id: c.map(ChangeId) },
        Scr::Chg(k) => QueryEvent::Change(ChangeType::Update, RowId(1), vec![SqliteValue::Integer(1), SqliteValue::Integer(*k as i64)], ChangeId(*k)),
        Scr::Drop => unreachable!(),
    };
    let mut v = serde_json::to_vec(&ev).unwrap();
    v.push(b'\n');
    v
}

fn body_of(seg: Vec<Scr>, dropped: bool) -> axum::body::Body {
    let mut chunks: Vec<Result<Bytes, std::io::Error>> = seg.iter().map(|s| Ok(Bytes::from(scr_line(s)))).collect();
    let n_ok = chunks.len();
    if dropped {
        chunks.push(Err(std::io::Error::new(std::io::ErrorKind::ConnectionReset, "scripted drop")));
    }
    axum::body::Body::from_stream(futures::stream::iter(chunks.into_iter().enumerate()).then(move |(i, c)| async move {
        // one frame per event; everything written is flushed before the connection is cut
        if i >= n_ok {
            tokio::time::sleep(Duration::from_millis(40)).await;
        } else {
            tokio::task::yield_now().await;
        }
        c
    }))
}

async fn run_client(from: Option<u64>, script: Vec<Scr>) -> Result<String, String> {
    use axum::response::IntoResponse;
    // split into segments at `drop`
    let mut segments: VecDeque<(Vec<Scr>, bool)> = VecDeque::new();
    let mut cur = vec![];
    for s in script {
        if s == Scr::Drop {
            segments.push_back((std::mem::take(&mut cur), true));
        } else {
            cur.push(s);
        }
    }
    segments.push_back((cur, false));
    let state = Arc::new(Mutex::new((segments, Vec::<String>::new())));
    let id = uuid::Uuid::from_u128(0xC12);
    let st1 = state.clone();
    let st2 = state.clone();
    let app = axum::Router::new()
        .route(
            "/v1/subscriptions",
            axum::routing::post(move || {
                let st = st1.clone();
                async move {
                    let seg = st.lock().unwrap().0.pop_front();
                    let (seg, dropped) = seg.unwrap_or((vec![], false));
                    ([("corro-query-id", id.to_string())], body_of(seg, dropped)).into_response()
                }
            }),
        )
        .route(
            "/v1/subscriptions/{id}",
            axum::routing::get(move |axum::extract::RawQuery(q): axum::extract::RawQuery| {
                let st = st2.clone();
                async move {
                    let mut g = st.lock().unwrap();
                    g.1.push(q.unwrap_or_default());
                    let (seg, dropped) = g.0.pop_front().unwrap_or((vec![], false));
                    drop(g);
                    ([("corro-query-id", id.to_string())], body_of(seg, dropped)).into_response()
                }
            }),
        );
    let listener = tokio::net::TcpListener::bind("127.0.0.1:0").await.map_err(|e| e.to_string())?;
    let addr = listener.local_addr().map_err(|e| e.to_string())?;
    let server = tokio::spawn(async move {
        let _ = axum::serve(listener, app).await;
    });
    let client = klukai_client::CorrosionApiClient::new(addr);
    let mut stream = client
        .subscribe(&Statement::Simple(SUB_SQL.into()), false, from.map(ChangeId))
        .await
        .map_err(|e| format!("client subscribe: {e}"))?;
    let mut out: Vec<String> = vec![];
    let t0 = Instant::now();
    loop {
        let left = LONG.checked_sub(t0.elapsed()).ok_or("timeout reading the client stream")?;
        let item = tokio::time::timeout(left, stream.next()).await.map_err(|_| "timeout reading the client stream")?;
        match item {
            None => {
                out.push("end".into());
                break;
            }
            Some(Ok(QueryEvent::Columns(_))) => out.push("cols".into()),
            Some(Ok(QueryEvent::Row(..))) => out.push("row".into()),
            Some(Ok(QueryEvent::EndOfQuery { change_id, .. })) => out.push(match change_id {
                Some(c) => format!("eoq:{}", c.0),
                None => "eoqn".into(),
            }),
            Some(Ok(QueryEvent::Change(_, _, _, id))) => out.push(format!("ok:{}", id.0)),
            Some(Ok(QueryEvent::Error(_))) => out.push("errev".into()),
            Some(Err(klukai_client::sub::SubscriptionError::MissedChange { expected, got })) => out.push(format!("missed:{}:{}", expected.0, got.0)),
            Some(Err(klukai_client::sub::SubscriptionError::UnfinishedQuery)) => {
                out.push("unfinished".into());
                break;
            }
            Some(Err(klukai_client::sub::SubscriptionError::MaxRetryAttempts)) => {
                out.push("maxretry".into());
                break;
            }
            Some(Err(e)) => {
                out.push(format!("error:{}", e.to_string().replace(' ', "_").chars().take(40).collect::<String>()));
                break;
            }
        }
        if out.len() > 10_000 {
            return Err("client stream does not end".into());
        }
    }
    server.abort();
    let resumes = state.lock().unwrap().1.clone();
    let rs: Vec<String> = resumes.iter().map(|q| q.replace('&', ";")).collect();
    Ok(format!("{} | resume={}", out.join(" "), if rs.is_empty() { "-".to_string() } else { rs.join(",") }))
}

// ------------------------------------------------------------------------------------------------
// one case
// ------------------------------------------------------------------------------------------------

struct Outcome {
    outputs: Vec<String>,
    fails: Vec<String>,
    tags: Vec<String>,
    nontrivial: bool,
}

fn parse_mode(s: &str) -> Option<Mode> {
    match s {
        "new" => Some(Mode::New),
        "skip" => Some(Mode::Skip),
        _ => s.strip_prefix("from:").and_then(|n| n.parse().ok()).map(Mode::From),
    }
}

async fn run_case(ops: &[String], dir: &std::path::Path, attempt: u32) -> Result<Outcome, String> {
    let mut w: Option<World> = None;
    let mut outputs = vec![];
    let mut tags: Vec<String> = vec![];
    let mut fails: Vec<String> = vec![];
    let mut nontrivial = false;
    let timing = std::env::var("HX_TIMING").is_ok();
    for op in ops {
        let t_op = Instant::now();
        let toks: Vec<&str> = op.split_whitespace().collect();
        let r: Result<String, String> = match (toks.as_slice(), w.as_mut()) {
            (["tag", ..], _) => Ok("ok".into()),
            (["init", rows, bcap], None) => match (rows.parse::<u64>(), bcap.parse::<u64>()) {
                (Ok(rows), Ok(bcap)) if bcap >= 1 && bcap.is_power_of_two() && rows <= 20_000 => match start_world(dir, rows, bcap, attempt).await {
                    Ok(world) => {
                        w = Some(world);
                        Ok(format!("ok r{rows} eoq:0"))
                    }
                    Err(e) => Err(e),
                },
                _ => Err("bad-op".into()),
            },
            (["client", from, script], _) => {
                let from = if *from == "-" { Some(None) } else { from.parse::<u64>().ok().map(Some) };
                match (from, parse_script(script)) {
                    (Some(from), Some(sc)) => {
                        nontrivial = true;
                        tags.push("client".into());
                        if sc.contains(&Scr::Drop) {
                            tags.push("client-resume".into());
                        }
                        run_client(from, sc).await
                    }
                    _ => Err("bad-op".into()),
                }
            }
            (["w", kind, n], Some(w)) => match n.parse::<u64>() {
                Ok(n) if n <= 30_000 => w.write(kind, n).await,
                _ => Err("bad-op".into()),
            },
            (["wblock", n], Some(w)) => match n.parse::<u64>() {
                Ok(n) if n <= 2_000 => w.wblock(n).await,
                _ => Err("bad-op".into()),
            },
            (["wpause", kind, n], Some(w)) => match n.parse::<u64>() {
                Ok(n) if n >= 1 && n < EVT_CAP => w.wpause(kind, n).await,
                _ => Err("bad-op".into()),
            },
            (["commit"], Some(w)) => w.commit().await,
            (["prune"], Some(w)) => w.prune().await,
            (["pub", k], Some(w)) => {
                if *k == "all" {
                    w.publish(None).await
                } else {
                    match k.parse::<u64>() {
                        Ok(k) => w.publish(Some(k)).await,
                        Err(_) => Err("bad-op".into()),
                    }
                }
            }
            (["sub", sid], Some(w)) => {
                if w.find(sid).is_some() {
                    Err("bad-op".into())
                } else {
                    let s = w.new_sub(sid);
                    w.subs.push(s);
                    Ok("ok".into())
                }
            }
            (["attach", sid, mode, how], Some(w)) if *how == "hold" || *how == "free" => match parse_mode(mode) {
                Some(m) => {
                    // a failed precondition must not leave a receiver behind
                    let existed = w.find(sid).is_some();
                    let r = w.attach(sid, m, *how == "hold").await;
                    if matches!(&r, Err(e) if e == "bad-op") && !existed {
                        if let Some(i) = w.find(sid) {
                            w.subs.remove(i);
                        }
                    }
                    r
                }
                None => Err("bad-op".into()),
            },
            (["release", sid], Some(w)) => w.release(sid).await,
            (["recv", sid], Some(w)) => w.recv(sid).await,
            _ => Err("bad-op".into()),
        };
        if timing {
            eprintln!("{:>6} ms  {}", t_op.elapsed().as_millis(), op.chars().take(60).collect::<String>());
        }
        match r {
            Ok(o) => outputs.push(o),
            Err(e) if e == "bad-op" => outputs.push("bad-op".into()),
            Err(e) => return Err(format!("at op `{op}`: {e}")),
        }
    }
    if let Some(mut w) = w {
        w.oracle();
        nontrivial |= w.subs.iter().any(|s| s.state != SubState::Created) && w.sent > 0;
        for s in &w.subs {
            tags.push(match s.mode {
                Mode::New => "attach-new".into(),
                Mode::Skip => "attach-skip".into(),
                Mode::From(n) if n < s.pruned_at_attach => "attach-from-outside-log".into(),
                Mode::From(n) if n > s.committed_at_attach => "attach-from-beyond-head".into(),
                Mode::From(_) => "attach-from".into(),
            });
            if s.stuck {
                tags.push("lagged-receiver".into());
            }
            let l = s.log.lock().unwrap();
            if l.items.contains(&Itm::Err) {
                tags.push("ended-with-error".into());
            }
        }
        if w.subs.len() >= 2 {
            tags.push("several-subscribers".into());
        }
        tags.extend(std::mem::take(&mut w.tags));
        fails.extend(std::mem::take(&mut w.fails));
        if w.paused {
            w.let_matcher_pass().await?;
        }
        // stop the matcher
        if let Some(h) = w.agent.subs_manager().remove(&w.handle.id()) {
            h.cleanup().await;
        }
    }
    for op in ops {
        let k = op.split_whitespace().next().unwrap_or("");
        if k == "wblock" {
            tags.push("uncommitted-batch".into());
        }
        if k == "wpause" {
            tags.push("paused-batch".into());
        }
        if k == "prune" {
            tags.push("prune".into());
        }
        if op.ends_with(" hold") {
            tags.push("hold".into());
        }
    }
    Ok(Outcome { outputs, fails, tags, nontrivial })
}

impl Prop for C12 {
    fn id(&self) -> &'static str {
        "C12"
    }
    fn rule(&self) -> &'static str {
        "one case = one schedule: a history of matcher batches (sent/committed/uncommitted, incl. small batches held between send and commit), pipe deliveries and purges interleaved \
         with the attach/hold/release of 1-3 subscribers through the real catch_up_sub, or one scripted stream through the real client \
         library; non-trivial iff a subscriber attached to a subscription that produced at least one change (or a client script ran); \
         distinct by hash of the op list"
    }
    fn default_cases(&self, tier: Tier) -> usize {
        match tier {
            Tier::Quick => 150,
            Tier::Thorough => 3000,
        }
    }
    fn gen_case(&self, rng: &mut Rng, tier: Tier, index: usize) -> Vec<String> {
        gen_case(rng, tier, index)
    }
    fn enumerated_case(&self, tier: Tier, index: usize) -> Option<Vec<String>> {
        enumerated(tier, index)
    }
    fn exec_case(&self, ops: &[String]) -> CaseResult {
        let mut res = CaseResult::default();
        let mut last_err = String::new();
        for attempt in 0..2u32 {
            let dir = TmpDir::new("c12");
            let rt = tokio::runtime::Builder::new_multi_thread().worker_threads(4).enable_all().build().expect("runtime");
            let r = rt.block_on(run_case(ops, dir.path(), attempt));
            rt.shutdown_background();
            drop(dir);
            match r {
                Ok(o) => {
                    res.outputs = o.outputs;
                    res.oracle_failures = o.fails;
                    res.nontrivial = o.nontrivial;
                    res.tags = o.tags;
                    return res;
                }
                Err(e) if e.contains("timeout") => {
                    last_err = e;
                    continue;
                }
                Err(e) => {
                    res.oracle_failures.push(format!("harness could not drive the real node: {e}"));
                    while res.outputs.len() < ops.len() {
                        res.outputs.push("impl-error".into());
                    }
                    return res;
                }
            }
        }
        if std::env::var("HX_VERBOSE").is_ok() {
            eprintln!("inconclusive: {last_err}");
        }
        res.inconclusive = Some("timeout".into());
        res
    }
}

// ------------------------------------------------------------------------------------------------
// generator
// ------------------------------------------------------------------------------------------------

/// Generator-side bookkeeping (what the op lines imply; the executor never looks at it).
struct G {
    ops: Vec<String>,
    rows: u64,
    sent: u64,
    committed: u64,
    published: u64,
    pruned: u64,
    blocked: u64,
    bcap: u64,
    readers: bool,
}

impl G {
    fn w(&mut self, rng: &mut Rng, big: bool) {
        let kind = match rng.below(6) {
            0..=2 => "ins",
            3 | 4 => "upd",
            _ => "del",
        };
        let n = if big { rng.range(3, 9) } else { rng.range(1, 4) };
        let ev = match kind {
            "ins" => {
                self.rows += n;
                n
            }
            "upd" => n.min(self.rows),
            _ => {
                // keep at least three rows so that a snapshot can be held
                let n = n.min(self.rows.saturating_sub(3));
                if n == 0 {
                    self.ops.push("w ins 2".into());
                    self.rows += 2;
                    self.sent += 2;
                    self.committed = self.sent;
                    return;
                }
                self.rows -= n;
                self.ops.push(format!("w del {n}"));
                self.sent += n;
                self.committed = self.sent;
                return;
            }
        };
        self.ops.push(format!("w {kind} {n}"));
        self.sent += ev;
        self.committed = self.sent;
    }
    fn pub_all(&mut self) {
        // with a reading receiver never more than the channel holds at once (whether it lags would be a race)
        while self.readers && self.sent - self.published > self.bcap {
            self.ops.push(format!("pub {}", self.bcap));
            self.published += self.bcap;
        }
        if self.published < self.sent {
            self.ops.push("pub all".into());
            self.published = self.sent;
        }
    }
    fn pub_k(&mut self, k: u64) {
        let k = k.min(self.sent - self.published);
        let k = if self.readers { k.min(self.bcap) } else { k };
        if k > 0 {
            self.ops.push(format!("pub {k}"));
            self.published += k;
        }
    }
}

fn gen_client(rng: &mut Rng) -> Vec<String> {
    let from = if rng.chance(1, 2) { None } else { Some(rng.range(0, 20)) };
    let mut items: Vec<String> = vec![];
    let mut last = from;
    if from.is_none() || rng.chance(1, 4) {
        items.push("cols".into());
        for _ in 0..rng.below(3) {
            items.push("row".into());
        }
        if rng.chance(1, 12) {
            items.push("eoqn".into());
            last = None;
        } else {
            let s = rng.range(0, 30);
            items.push(format!("eoq:{s}"));
            last = Some(s);
        }
    }
    let mut next = last.map(|l| l + 1).unwrap_or(rng.range(1, 9));
    let n = rng.range(0, 9);
    let mut dropped = false;
    for _ in 0..n {
        match rng.below(12) {
            0 => next += rng.range(1, 3),             // gap
            1 => next = next.saturating_sub(rng.range(1, 2)), // duplicate / older
            2 if !dropped && rng.chance(1, 3) => {
                items.push("drop".into());
                dropped = true;
            }
            _ => {}
        }
        items.push(format!("c:{next}"));
        next += 1;
    }
    vec![format!("client {} {}", from.map(|f| f.to_string()).unwrap_or("-".into()), if items.is_empty() { "-".to_string() } else { items.join(",") })]
}

/// generator-side view of one subscriber of a pause case
struct PS {
    sid: String,
    /// 0 = `sub` only, 1 = attached with the first read held, 2 = attached
    st: u8,
    pub_at: u64,
}

fn pick_mode(rng: &mut Rng, g: &G) -> String {
    match rng.below(20) {
        0..=6 => "new".to_string(),
        7 | 8 => "skip".to_string(),
        _ => {
            let n = match rng.below(8) {
                // the seed of C12-1: resume exactly at the head of the log
                0..=3 => g.committed,
                // claimed ids that are sent and not committed (beyond the head while the matcher is paused)
                4 => g.sent,
                5 => g.pruned,
                _ => rng.range(g.pruned, g.committed.max(g.pruned)),
            };
            format!("from:{n}")
        }
    }
}

fn holdable(mode: &str, g: &G) -> bool {
    match mode.strip_prefix("from:").and_then(|x| x.parse::<u64>().ok()) {
        Some(n) => g.committed.saturating_sub(n.max(g.pruned)) >= 3,
        None => mode == "new" && g.rows >= 2,
    }
}

/// Cases around ONE batch that the matcher has sent and not yet committed (`wpause`: it waits at the pause point
/// before `tx.commit()`), small batches mostly: `sub`, `attach new|skip|from:N hold|free`, `release`, `pub`, `recv`
/// in every position relative to the batch, to its delivery by the pipe and to its `commit`.
fn gen_pause_case(rng: &mut Rng) -> Vec<String> {
    let rows = rng.range(3, 6);
    let bcap = *rng.pick(&[16u64, 64, 16384]);
    let mut g = G { ops: vec![format!("init {rows} {bcap}")], rows, sent: 0, committed: 0, published: 0, pruned: 0, blocked: 0, bcap, readers: false };
    for _ in 0..rng.below(3) {
        let big = rng.chance(1, 3);
        g.w(rng, big);
    }
    match rng.below(5) {
        0 => {}
        1 => g.pub_k(rng.range(1, 3)),
        _ => g.pub_all(),
    }
    // a receiver that exists before its catch-up starts makes `pub` not wait for the other readers: alone in its case
    let pre = rng.chance(1, 3);
    let nsubs = if pre { 1 } else { [1, 1, 1, 2, 2, 3][rng.below(6) as usize] };
    let mut subs: Vec<PS> = vec![];
    let mut paused = false;
    let mut pend_rows = g.rows;
    let n = match rng.below(20) {
        0..=7 => 1,
        8..=11 => 2,
        12..=14 => 3,
        15..=17 => rng.range(4, 9),
        _ => rng.range(20, 200),
    };

    // one step of the subscribers / the pipe
    fn step(rng: &mut Rng, g: &mut G, subs: &mut Vec<PS>, nsubs: usize, pre: bool) {
        match rng.below(9) {
            0 | 1 => g.pub_all(),
            2 => g.pub_k(rng.range(1, 3)),
            3 if pre && subs.is_empty() => {
                g.ops.push("sub s0".into());
                subs.push(PS { sid: "s0".into(), st: 0, pub_at: g.published });
            }
            3..=5 => {
                // attach a receiver that exists, or a new subscriber
                let idx = match subs.iter().position(|p| p.st == 0) {
                    Some(i) => i,
                    None if subs.len() < nsubs => {
                        subs.push(PS { sid: format!("s{}", subs.len()), st: 0, pub_at: g.published });
                        subs.len() - 1
                    }
                    None => return,
                };
                let mut mode = pick_mode(rng, g);
                let buffered = g.published > subs[idx].pub_at;
                // a receiver that already holds events is attached with its first read held (see `gen_case`)
                if buffered && !holdable(&mode, g) {
                    mode = "new".into();
                }
                let hold = holdable(&mode, g) && (buffered || rng.chance(1, 2));
                if buffered && !hold {
                    return;
                }
                g.ops.push(format!("attach {} {mode} {}", subs[idx].sid, if hold { "hold" } else { "free" }));
                subs[idx].st = if hold { 1 } else { 2 };
                g.readers = true;
            }
            6 | 7 => {
                if let Some(p) = subs.iter_mut().find(|p| p.st == 1) {
                    g.ops.push(format!("release {}", p.sid));
                    p.st = 2;
                }
            }
            _ => {
                if let Some(p) = subs.iter().find(|p| p.st == 2) {
                    g.ops.push(format!("recv {}", p.sid));
                }
            }
        }
    }

    // before the batch: nothing, a receiver, a held reader, a live subscriber
    for _ in 0..rng.below(3) {
        step(rng, &mut g, &mut subs, nsubs, pre);
    }
    // the batch
    {
        let kind = match rng.below(6) {
            0..=2 => "ins",
            3 | 4 => "upd",
            _ => "del",
        };
        let (kind, n) = if kind == "del" && g.rows < n + 3 { ("ins", n) } else { (kind, n) };
        let ev = match kind {
            "ins" => {
                pend_rows = g.rows + n;
                n
            }
            "upd" => n.min(g.rows),
            _ => {
                pend_rows = g.rows - n;
                n
            }
        };
        g.ops.push(format!("wpause {kind} {n}"));
        g.sent += ev;
        paused = true;
    }
    // the window of seed C12-1, often: everything broadcast before anybody new looks
    if rng.chance(1, 2) {
        g.pub_all();
    }
    for _ in 0..rng.range(1, 4) {
        step(rng, &mut g, &mut subs, nsubs, pre);
    }
    if rng.chance(7, 8) {
        g.ops.push("commit".into());
        g.committed = g.sent;
        g.rows = pend_rows;
        paused = false;
        for _ in 0..rng.below(4) {
            step(rng, &mut g, &mut subs, nsubs, pre);
        }
    }
    // everybody attaches and is released
    if subs.is_empty() {
        subs.push(PS { sid: "s0".into(), st: 0, pub_at: g.published });
    }
    for i in 0..subs.len() {
        if subs[i].st == 0 {
            let mut mode = pick_mode(rng, &g);
            let buffered = g.published > subs[i].pub_at;
            if buffered && !holdable(&mode, &g) {
                mode = "new".into();
            }
            let hold = holdable(&mode, &g) && (buffered || rng.chance(1, 3));
            g.ops.push(format!("attach {} {mode} {}", subs[i].sid, if hold { "hold" } else { "free" }));
            subs[i].st = if hold { 1 } else { 2 };
            g.readers = true;
        }
        if subs[i].st == 1 {
            if rng.chance(1, 2) {
                g.pub_all();
            }
            g.ops.push(format!("release {}", subs[i].sid));
            subs[i].st = 2;
        }
        g.ops.push(format!("recv {}", subs[i].sid));
    }
    // what follows the batch must follow it at the clients too
    if !paused {
        for _ in 0..rng.range(1, 2) {
            g.w(rng, false);
            g.pub_all();
        }
    } else {
        g.pub_all();
    }
    for p in &subs {
        g.ops.push(format!("recv {}", p.sid));
    }
    g.ops
}

fn gen_case(rng: &mut Rng, tier: Tier, index: usize) -> Vec<String> {
    if rng.chance(1, 6) {
        return gen_client(rng);
    }
    if rng.chance(2, 5) {
        return gen_pause_case(rng);
    }
    if tier == Tier::Thorough && index % 75 == 33 {
        // more events than the catch-up queue holds while the first read is held
        let mode = if rng.chance(1, 2) { "new".to_string() } else { "from:0".to_string() };
        let extra = rng.range(1, 300);
        let mut ops = vec![format!("init {} 16384", rng.range(2, 5)), format!("w ins {}", rng.range(3, 6)), "pub all".to_string(), format!("attach a {mode} hold")];
        ops.push(format!("w ins {}", 10240 + extra));
        if rng.chance(1, 2) {
            ops.push(format!("pub {}", 10240 + rng.range(0, extra)));
        } else {
            ops.push(format!("pub {}", rng.range(9000, 10240)));
        }
        ops.push("release a".into());
        ops.push("recv a".into());
        ops.push("pub all".into());
        ops.push("recv a".into());
        return ops;
    }
    let rows = rng.range(2, 6);
    let bcap = *rng.pick(&[16u64, 64, 16384]);
    let mut g = G { ops: vec![format!("init {rows} {bcap}")], rows, sent: 0, committed: 0, published: 0, pruned: 0, blocked: 0, bcap, readers: false };
    // some history before anybody attaches
    for _ in 0..rng.below(3) {
        g.w(rng, false);
    }
    let heavy = tier == Tier::Thorough && index % 40 == 7;
    if rng.chance(1, 10) || heavy {
        // a long log, purged
        let n = rng.range(505, 560);
        g.ops.push(format!("w ins {n}"));
        g.rows += n;
        g.sent += n;
        g.committed = g.sent;
        if rng.chance(3, 4) {
            g.ops.push("prune".into());
            g.pruned = g.pruned.max(g.committed.saturating_sub(501));
        }
    }
    if rng.chance(1, 2) {
        g.pub_all();
    }
    let nsubs = match rng.below(10) {
        0..=4 => 1,
        5..=8 => 2,
        _ => 3,
    };
    let mut sids: Vec<String> = vec![];
    // single-subscriber cases only: the receiver exists before the catch-up starts and events are published in
    // between (fewer than the channel holds: buffered and filtered; more: the receiver is lagged at its first poll)
    let pre = nsubs == 1 && rng.chance(1, 6);
    for si in 0..nsubs {
        let sid = format!("s{si}");
        if pre {
            g.pub_all();
            g.ops.push(format!("sub {sid}"));
            let k = if rng.chance(1, 2) { rng.range(1, bcap.min(12)) } else { bcap + rng.range(1, 6) };
            if k <= 40 {
                g.ops.push(format!("w ins {k}"));
                g.rows += k;
                g.sent += k;
                g.committed = g.sent;
                if rng.chance(3, 4) {
                    g.pub_all();
                } else {
                    g.pub_k(k / 2 + 1);
                }
            }
        }
        // resume points: anywhere in the retained log, its edges, just outside, beyond the head
        let mode = match rng.below(10) {
            0..=3 => "new".to_string(),
            4 => "skip".to_string(),
            _ => {
                let n = match rng.below(8) {
                    0 => g.pruned,
                    1 => g.committed,
                    2 if g.pruned > 0 => g.pruned - 1,
                    3 => g.committed + rng.range(1, 3),
                    _ => rng.range(g.pruned, g.committed.max(g.pruned)),
                };
                format!("from:{n}")
            }
        };
        let from_n: Option<u64> = mode.strip_prefix("from:").and_then(|x| x.parse().ok());
        let holdable = match (mode.as_str(), from_n) {
            ("new", _) => g.rows >= 2,
            ("skip", _) => false,
            (_, Some(n)) => g.committed.saturating_sub(n.max(g.pruned)) >= 3,
            _ => false,
        };
        // a receiver that already holds events is only attached with the read held (the buffering task must have
        // copied them before the reconcile looks at the queue)
        let (mode, holdable) = if pre && !holdable { ("new".to_string(), g.rows >= 2) } else { (mode, holdable) };
        if holdable && (pre || rng.chance(3, 4)) {
                g.ops.push(format!("attach {sid} {mode} hold"));
            g.readers = true;
            let shape = rng.below(8);
            match shape {
                0 => {
                    // uncommitted batch, partly published, while the reader is held
                    g.pub_all();
                    let rem = rng.range(4, 30);
                    g.ops.push(format!("wblock {}", 512 + rem));
                    g.sent += 512;
                    g.blocked = rem;
                    let k = rng.range(0, rem - 1);
                    if k > 0 {
                        g.ops.push(format!("pub {k}"));
                        g.sent += k;
                        g.blocked -= k;
                        g.published += k;
                    }
                    if rng.chance(1, 2) {
                        g.ops.push("commit".into());
                        g.sent += g.blocked;
                        g.blocked = 0;
                        g.committed = g.sent;
                        g.rows += 512 + rem;
                        g.pub_all();
                    }
                }
                _ => {
                    for _ in 0..rng.below(4) {
                        match rng.below(3) {
                            0 => {
                                let big = rng.chance(1, 4);
                                g.w(rng, big)
                            }
                            1 => {
                                let k = rng.range(1, 4);
                                g.pub_k(k);
                            }
                            _ => {
                                g.w(rng, false);
                                let k = rng.range(1, 3);
                                g.pub_k(k);
                            }
                        }
                    }
                    // events delivered from the log may still be in the pipe at the hand-over (F9, fixed by cb48448)
                    if rng.chance(1, 2) {
                        g.pub_all();
                    }
                }
            }
            g.ops.push(format!("release {sid}"));
            if g.blocked == 0 && rng.chance(1, 2) {
                g.ops.push(format!("recv {sid}"));
                g.pub_all();
            }
            if g.blocked > 0 && rng.chance(1, 2) {
                g.ops.push("commit".into());
                g.sent += g.blocked;
                g.blocked = 0;
                g.committed = g.sent;
                g.rows += 512; // approximate (only used for holdability)
                g.pub_all();
            }
        } else {
            if g.blocked == 0 && rng.chance(1, 2) {
                g.pub_all();
            }
            g.ops.push(format!("attach {sid} {mode} free"));
            g.readers = true;
        }
        g.ops.push(format!("recv {sid}"));
        sids.push(sid);
        // live traffic between two attaches
        if g.blocked == 0 {
            for _ in 0..rng.below(3) {
                g.w(rng, false);
                if rng.chance(2, 3) {
                    g.pub_all();
                }
            }
        }
    }
    if g.blocked > 0 {
        g.ops.push("commit".into());
        g.sent += g.blocked;
        g.blocked = 0;
        g.committed = g.sent;
    }
    for _ in 0..rng.below(3) {
        g.w(rng, false);
    }
    g.pub_all();
    for sid in &sids {
        g.ops.push(format!("recv {sid}"));
    }
    g.ops
}

/// pinned shapes that every run must contain
fn enumerated(_tier: Tier, index: usize) -> Option<Vec<String>> {
    let s = |v: &[&str]| -> Option<Vec<String>> { Some(v.iter().map(|x| x.to_string()).collect()) };
    match index {
        // events committed and published while the snapshot read is held: re-read from the log
        0 => s(&["init 3 16", "w ins 3", "pub all", "attach a new hold", "w ins 2", "pub 2", "release a", "recv a", "w upd 2", "pub all", "recv a"]),
        // pipe still holds committed events at the attach, published during the hold: the buffer filter drops them
        1 => s(&["init 3 16", "w ins 4", "attach a from:0 hold", "pub all", "w ins 2", "pub all", "release a", "recv a"]),
        // first buffered event is last+1 and never committed: five re-reads, then the error event
        2 => s(&["init 3 16", "w ins 3", "pub all", "attach a new hold", "wblock 530", "pub 2", "release a", "recv a", "commit", "pub all"]),
        // buffered events beyond the snapshot, not committed, but the first buffered one is old: delivered from the buffer
        3 => s(&["init 3 16", "w ins 3", "attach a new hold", "pub all", "wblock 530", "pub 3", "release a", "recv a", "commit", "pub all", "recv a"]),
        // resume exactly at the purge boundary, just inside, just outside (F14)
        4 => s(&["init 2 16", "w ins 520", "w upd 5", "prune", "pub all", "attach a from:24 free", "recv a", "attach b from:23 free", "recv b", "attach c from:525 free", "recv c", "w upd 2", "pub all", "recv a", "recv b", "recv c"]),
        // skip_rows
        5 => s(&["init 4 16", "w ins 2", "pub all", "attach a skip free", "w upd 3", "pub all", "recv a"]),
        // a snapshot larger than the row channel: the read transaction is still open while the matcher commits
        6 => s(&["init 10300 16", "w upd 2", "pub all", "attach a new hold", "w upd 3", "w del 1", "pub all", "release a", "recv a", "w ins 1", "pub all", "recv a"]),
        // more buffered events than the catch-up queue holds
        7 => s(&["init 3 16384", "w ins 2", "pub all", "attach a new hold", "w ins 10300", "pub all", "release a", "recv a"]),
        // ... and fewer than it holds: all of them go through the buffer filter, live forwarding continues
        12 => s(&["init 3 16384", "w ins 4", "pub all", "attach a from:0 hold", "w ins 10400", "pub 10000", "release a", "recv a", "pub all", "recv a"]),
        // several subscribers at different stages, events in flight at both hand-overs
        13 => s(&["init 3 16", "w ins 2", "attach a new hold", "w ins 2", "pub 3", "attach b from:1 hold", "w upd 3", "release a", "pub 2", "release b", "recv a", "recv b", "attach c skip free", "pub all", "w del 1", "pub all", "recv a", "recv b", "recv c"]),
        // a batch sent and not committed (matcher at the pause point), broadcast before the subscriber exists, nothing
        // buffered: five re-reads, then the error event (the window of seed C12-1; corpus/C12/attach_between_send_and_commit.ops)
        14 => s(&["init 3 16", "w ins 2", "pub all", "wpause ins 1", "pub all", "attach a from:2 free", "recv a", "commit", "w ins 1", "pub all", "recv a"]),
        // ... committed while the first read is held: the re-read delivers it, live forwarding continues after it
        15 => s(&["init 3 16", "w ins 3", "pub all", "wpause upd 1", "pub all", "attach a from:0 hold", "commit", "release a", "recv a", "w ins 1", "pub all", "recv a"]),
        // ... a held reader buffers the uncommitted events (first buffered id = last+1, not in the log), a second
        // subscriber attaches after the commit
        16 => s(&["init 4 16", "w ins 2", "pub all", "attach a new hold", "wpause ins 2", "pub 1", "release a", "recv a", "pub all", "commit", "attach b from:2 free", "recv b", "w del 1", "pub all", "recv a", "recv b"]),
        // the client library on gaps, duplicates, resume after a dropped connection
        8 => s(&["client - cols,row,eoq:3,c:4,c:5,c:7,c:8,c:6"]),
        9 => s(&["client 5 c:6,c:6,c:7"]),
        10 => s(&["client - cols,eoq:2,c:3,drop,c:4,c:5"]),
        11 => s(&["client - cols,row,drop,c:1"]),
        _ => None,
    }
}
