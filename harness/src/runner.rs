use std::collections::{BTreeMap, HashSet};
use std::io::Write;
use std::path::Path;

use crate::rng::Rng;
use crate::util::fnv;

#[derive(Default, Debug)]
pub struct CaseResult {
    /// one canonical output line per op line (same length as the op list)
    pub outputs: Vec<String>,
    /// property-oracle failures observed on the implementation's own trace (independent of the model)
    pub oracle_failures: Vec<String>,
    /// did the case exercise the mechanism (per-property non-triviality rule)
    pub nontrivial: bool,
    /// free-form tags counted into the input distribution
    pub tags: Vec<String>,
    /// the case could not be decided (timeout of a background task…): neither explored nor a violation
    pub inconclusive: Option<String>,
}

#[derive(Clone, Copy, PartialEq, Eq, Debug)]
pub enum Tier {
    Quick,
    Thorough,
}

pub trait Prop {
    fn id(&self) -> &'static str;
    /// rule for `distinct_nontrivial`, in words
    fn rule(&self) -> &'static str;
    fn default_cases(&self, tier: Tier) -> usize;
    /// op lines of one generated case
    fn gen_case(&self, rng: &mut Rng, tier: Tier, index: usize) -> Vec<String>;
    /// extra deterministic (enumerated) cases run before the random ones; `None` when exhausted
    fn enumerated_case(&self, _tier: Tier, _index: usize) -> Option<Vec<String>> {
        None
    }
    /// run the REAL implementation on the op lines
    fn exec_case(&self, ops: &[String]) -> CaseResult;
    /// one-time set-up / tear-down around a run
    fn begin(&self) {}
    fn end(&self) {}
}

pub struct RunOpts {
    pub seed: u64,
    pub cases: Option<usize>,
    pub tier: Tier,
    pub out: String,
    pub replay: Vec<String>,
    pub corpus: Option<String>,
}

fn read_cases(path: &Path) -> Vec<Vec<String>> {
    let text = std::fs::read_to_string(path).unwrap_or_default();
    let mut cases = vec![];
    let mut cur: Vec<String> = vec![];
    for l in text.lines() {
        let l = l.trim();
        if l.is_empty() {
            continue;
        }
        if l.starts_with("# case") {
            if !cur.is_empty() {
                cases.push(std::mem::take(&mut cur));
            }
            continue;
        }
        if l.starts_with('#') {
            continue;
        }
        cur.push(l.to_string());
    }
    if !cur.is_empty() {
        cases.push(cur);
    }
    cases
}

/// Runs corpus, enumerated and generated cases; writes ops.txt / impl.txt / report.json into `out`.
pub fn run(prop: &dyn Prop, opts: &RunOpts) -> std::io::Result<()> {
    let t0 = std::time::Instant::now();
    std::fs::create_dir_all(&opts.out)?;
    let out = Path::new(&opts.out);
    let mut ops_f = std::io::BufWriter::new(std::fs::File::create(out.join("ops.txt"))?);
    let mut impl_f = std::io::BufWriter::new(std::fs::File::create(out.join("impl.txt"))?);

    let mut cases: Vec<(String, Vec<String>)> = vec![];
    if !opts.replay.is_empty() {
        for p in &opts.replay {
            for (i, c) in read_cases(Path::new(p)).into_iter().enumerate() {
                cases.push((format!("replay:{p}:{i}"), c));
            }
        }
    } else {
        if let Some(dir) = &opts.corpus {
            let mut files: Vec<_> = std::fs::read_dir(dir)
                .map(|rd| rd.filter_map(|e| e.ok().map(|e| e.path())).collect())
                .unwrap_or_default();
            files.sort();
            for f in files {
                if f.extension().and_then(|e| e.to_str()) == Some("ops") {
                    for (i, c) in read_cases(&f).into_iter().enumerate() {
                        cases.push((format!("corpus:{}:{i}", f.file_name().unwrap().to_string_lossy()), c));
                    }
                }
            }
        }
        let mut i = 0;
        while let Some(c) = prop.enumerated_case(opts.tier, i) {
            cases.push((format!("enum:{i}"), c));
            i += 1;
        }
        let n = opts.cases.unwrap_or_else(|| prop.default_cases(opts.tier));
        let mut rng = Rng::new(opts.seed);
        for i in 0..n {
            let mut r = rng.fork();
            cases.push((format!("gen:{i}"), prop.gen_case(&mut r, opts.tier, i)));
        }
    }

    prop.begin();
    let mut seen: HashSet<u64> = HashSet::new();
    let mut distinct_nontrivial = 0usize;
    let mut evaluations = 0usize;
    let mut inconclusive = 0usize;
    let mut dist: BTreeMap<String, u64> = BTreeMap::new();
    let mut oracle_failures: Vec<serde_json::Value> = vec![];
    let mut samples: Vec<serde_json::Value> = vec![];
    let mut op_lines = 0usize;
    let n_cases = cases.len();
    let sample_every = (n_cases / 4).max(1);

    for (idx, (origin, ops)) in cases.iter().enumerate() {
        // the case about to run, on disk BEFORE it runs: when the code under test kills the process (allocation
        // failure, abort, stack overflow) tools/check takes this file as the failing input
        let _ = std::fs::write(out.join("current_case.ops"), format!("# case {idx} {origin}\n{}\n", ops.join("\n")));
        let res = std::panic::catch_unwind(std::panic::AssertUnwindSafe(|| prop.exec_case(ops)));
        let res = match res {
            Ok(r) => r,
            Err(e) => {
                let msg = e
                    .downcast_ref::<String>()
                    .cloned()
                    .or_else(|| e.downcast_ref::<&str>().map(|s| s.to_string()))
                    .unwrap_or_else(|| "panic".into());
                CaseResult {
                    outputs: ops.iter().map(|_| "impl-panic".to_string()).collect(),
                    oracle_failures: vec![format!("implementation panicked: {msg}")],
                    ..Default::default()
                }
            }
        };
        if let Some(why) = &res.inconclusive {
            inconclusive += 1;
            *dist.entry(format!("inconclusive:{why}")).or_default() += 1;
            continue;
        }
        evaluations += 1;
        writeln!(ops_f, "# case {idx} {origin}")?;
        writeln!(impl_f, "# case {idx} {origin}")?;
        for (i, op) in ops.iter().enumerate() {
            writeln!(ops_f, "{op}")?;
            writeln!(impl_f, "{}", res.outputs.get(i).map(|s| s.as_str()).unwrap_or("impl-missing-output"))?;
            op_lines += 1;
            if let Some(kind) = op.split_whitespace().next() {
                *dist.entry(format!("op:{kind}")).or_default() += 1;
            }
        }
        for t in &res.tags {
            *dist.entry(format!("tag:{t}")).or_default() += 1;
        }
        let key = fnv(&ops.join("\n"));
        if res.nontrivial && seen.insert(key) {
            distinct_nontrivial += 1;
        }
        for f in &res.oracle_failures {
            oracle_failures.push(serde_json::json!({"case": idx, "origin": origin, "what": f, "ops": ops}));
        }
        if idx % sample_every == 0 && samples.len() < 5 {
            samples.push(serde_json::json!({"origin": origin, "ops": ops.iter().take(12).collect::<Vec<_>>(),
                "impl": res.outputs.iter().take(12).collect::<Vec<_>>()}));
        }
    }
    prop.end();
    ops_f.flush()?;
    impl_f.flush()?;
    let report = serde_json::json!({
        "property": prop.id(),
        "seed": opts.seed,
        "evaluations": evaluations,
        "distinct_nontrivial": distinct_nontrivial,
        "inconclusive": inconclusive,
        "op_lines": op_lines,
        "rule": prop.rule(),
        "distribution": dist,
        "oracle_failures": oracle_failures,
        "samples": samples,
        "wall_s": t0.elapsed().as_secs_f64(),
    });
    std::fs::write(out.join("report.json"), serde_json::to_string_pretty(&report).unwrap())?;
    Ok(())
}
