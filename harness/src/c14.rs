//! C14 — the row-level update feed of table `t` on a real in-process agent (`UpdatesManager::get_or_insert`,
//! `upsert_update` / `process_update_channel` = the HTTP side's event stream) vs the Lean model
//! `Corro.Updates` (+ `Corro.Crdt` for the database side).
//!
//! Op lines (one case = one agent A with site id 0 on its own directory + one plain peer database B, site 1):
//!   attach <cap> <keep> <thr>   `get_or_insert("t")` + `upsert_update`; the numbers are the constants extracted
//!                               from updates.rs (checked against lean/Corro/Gen/UpdatesConsts.lean)
//!   m <k:cl,…>                  one change list straight into the public `match_changes` (synthetic `Change`s of
//!                               table t; `!k:cl` = a change of table k, which the handle must ignore)
//!   w <stmts>                   the real `api_v1_transactions`; waits until its spawned `broadcast_changes` ran
//!   wc <stmts>                  the same transaction steps as `make_broadcastable_changes` (crsql_set_ts, statements,
//!                               `insert_local_changes`, commit, `commit_snapshot`) WITHOUT spawning the notifier;
//!                               the version's changes are read right after the commit and kept
//!   notify <v>                  the real `broadcast_changes(agent, v, last_seq, ts)` now (reads the changes NOW)
//!   notifyc <v>                 `match_changes(updates_manager, <changes read at commit>, v)` now (a notifier that
//!                               was pre-empted between reading and sending)
//!   wfill <lo> <hi>             `w ins:t:i<n>:a=t66` for n in lo..=hi, one API transaction each
//!   pw <stmts>                  transaction on the peer database; its change list is kept (as a broadcast would carry it)
//!   r <v,…>                     `process_multiple_changes` with the peer's versions as complete `ChangeV1`s, in this order
//!   rc <v> <chunk,…>            chunks (`p<k>of<n>` | `lo-hi` | `all`) of ONE peer version as `Changeset::Full { seqs, last_seq }`
//!                               in one `process_multiple_changes` call.  Incomplete chunks are buffered by the real code; when
//!                               the version is fully buffered the REAL `apply_fully_buffered_changes_loop` (spawned like
//!                               run_root.rs does, with `clear_buffered_meta_loop`) runs `process_fully_buffered_changes`, which
//!                               notifies through `match_changes_from_db_version`.  The op waits (deadline, no sleep) until the
//!                               span of `process_fully_buffered_changes` has closed, i.e. the function has returned, and checks
//!                               the real bookkeeping (`partials`, `contains_version`) against what it expects
//!   force                       `thr` × `match_changes([sentinel])` → the threshold flush; answers the events so far
//!   drain                       one `match_changes([sentinel])`, waits for the sentinel's event (the 600 ms deadline
//!                               while the loop still buffers); answers the events so far
//!   rows                        primary keys present in A's table t
//!   tag <word>                  marker (used to classify pinned replays)
//! Statements: crkit mini-language `ins:<tbl>:<pk>:<col=val,..>`, `upd:…`, `del:<tbl>:<pk>`, joined by `;`.
//!
//! Events are awaited on the feed with a 40 s deadline and an observable condition (the sentinel's own event);
//! there is no fixed sleep.  The only timing assumption — while the loop still buffers, everything up to the
//! sentinel must be sent before the first 600 ms deadline can fire — is measured; a slow run is retried and,
//! failing that, reported as inconclusive (never as a pass or a failure).
use std::collections::{BTreeMap, BTreeSet};
use std::time::{Duration, Instant};

use axum::Extension;
use klukai_agent::agent::util::process_multiple_changes;
use klukai_agent::agent::verif_hooks::{apply_fully_buffered_changes_loop, clear_buffered_meta_loop};
use klukai_agent::agent::{AgentOptions, setup};
use klukai_agent::api::public::update::{SharedUpdateBroadcastCache, upsert_update};
use klukai_agent::api::public::{TimeoutParams, api_v1_db_schema, api_v1_transactions};
use klukai_types::actor::ActorId;
use klukai_types::agent::{Agent, Bookie};
use klukai_types::api::{ExecResult, NotifyEvent, SqliteParam, Statement};
use klukai_types::base::{CrsqlDbVersion, CrsqlSeq};
use klukai_types::broadcast::{BroadcastInput, BroadcastV1, ChangeSource, ChangeV1, Changeset, Timestamp, broadcast_changes};
use klukai_types::change::{Change, insert_local_changes, row_to_change};
use klukai_types::config::Config;
use klukai_types::sqlite::CrConn;
use klukai_types::tripwire::Tripwire;
use klukai_types::updates::match_changes;

use crate::crkit::*;
use crate::rng::Rng;
use crate::runner::{CaseResult, Prop, Tier};

pub struct C14;

const FEED_TABLE: &str = "t";
const SENTINEL_BASE: i64 = 9_000_000;
const WAIT: Duration = Duration::from_secs(40);
/// while the loop still buffers: everything up to the sentinel must be sent this long after `attach` started
const BUFFERED_WINDOW: Duration = Duration::from_millis(420);

// ------------------------------------------------------------------------------------------------
// constants extracted from the source (the same file the Lean side imports)
// ------------------------------------------------------------------------------------------------

#[derive(Clone, Copy, Debug, PartialEq)]
struct Consts {
    cap: u64,
    keep: u64,
    thr: u64,
}

fn consts() -> Consts {
    let text = std::fs::read_to_string("/verif/lean/Corro/Gen/UpdatesConsts.lean").expect("Gen/UpdatesConsts.lean");
    let get = |name: &str| -> u64 {
        let pat = format!("def {name} : Nat := ");
        let at = text.find(&pat).unwrap_or_else(|| panic!("{name} missing in UpdatesConsts.lean"));
        text[at + pat.len()..].split_whitespace().next().unwrap().parse().expect("number")
    };
    Consts { cap: get("maxCacheEntries"), keep: get("keepCacheEntries"), thr: get("processChangesThreshold") }
}

// ------------------------------------------------------------------------------------------------
// observable completion of the background apply: the `#[tracing::instrument]` span of
// `process_fully_buffered_changes` closes when the function has returned (after its match calls)
// ------------------------------------------------------------------------------------------------

static APPLIES_DONE: std::sync::atomic::AtomicU64 = std::sync::atomic::AtomicU64::new(0);

struct ApplyWatch;

impl<S> tracing_subscriber::Layer<S> for ApplyWatch
where
    S: tracing::Subscriber + for<'a> tracing_subscriber::registry::LookupSpan<'a>,
{
    fn on_close(&self, id: tracing::span::Id, ctx: tracing_subscriber::layer::Context<'_, S>) {
        if ctx.span(&id).is_some_and(|sp| sp.name() == "process_fully_buffered_changes") {
            APPLIES_DONE.fetch_add(1, std::sync::atomic::Ordering::SeqCst);
        }
    }
}

fn install_watch() {
    use tracing_subscriber::prelude::*;
    static ONCE: std::sync::OnceLock<()> = std::sync::OnceLock::new();
    ONCE.get_or_init(|| {
        let filter = tracing_subscriber::filter::Targets::new().with_target("klukai_agent::agent::util", tracing::Level::INFO);
        // HX_LOG=<filter> additionally prints the node's log (debugging aid)
        let fmt = std::env::var("HX_LOG").ok().map(|f| tracing_subscriber::fmt::layer().with_writer(std::io::stderr).with_filter(tracing_subscriber::EnvFilter::new(f)));
        tracing_subscriber::registry().with(ApplyWatch.with_filter(filter)).with(fmt).try_init().expect("tracing subscriber for the apply watch");
    });
}

fn applies_done() -> u64 {
    APPLIES_DONE.load(std::sync::atomic::Ordering::SeqCst)
}

// ------------------------------------------------------------------------------------------------
// the world of one case
// ------------------------------------------------------------------------------------------------

#[derive(Debug)]
enum Fail {
    /// the buffered-phase timing assumption did not hold: retry
    Slow(String),
    /// the real node could not be driven
    Hard(String),
}

type R<T> = Result<T, Fail>;

fn hard<E: std::fmt::Display>(what: &str) -> impl Fn(E) -> Fail + '_ {
    move |e| Fail::Hard(format!("{what}: {e}"))
}

struct Feed {
    rx: tokio::sync::broadcast::Receiver<bytes::Bytes>,
    attach_started: Instant,
    /// a sentinel event has been received: the loop's `process` flag is up, nothing is buffered any more
    flush_seen: bool,
}

struct Held {
    changes: Vec<Change>,
    last_seq: CrsqlSeq,
    ts: Timestamp,
}

struct World {
    _dir: TmpDir,
    agent: Agent,
    bookie: Bookie,
    opts: AgentOptions,
    _tw: (Tripwire, klukai_types::tripwire::TripwireWorker<tokio_stream::wrappers::ReceiverStream<()>>, tokio::sync::mpsc::Sender<()>),
    bcast_cache: SharedUpdateBroadcastCache,
    peer: CrConn,
    feed: Option<Feed>,
    held: BTreeMap<u64, Held>,
    pending: BTreeSet<u64>,
    peer_log: BTreeMap<u64, Held>,
    /// peer versions this node knows in whole (applied or cleared), and the seq ranges of the others that were
    /// handed over as chunks — the harness's own expectation, cross-checked with the real bookkeeping
    peer_known: BTreeSet<u64>,
    peer_chunks: BTreeMap<u64, Vec<(u64, u64)>>,
    drains: i64,
    /// every real (non-sentinel) event received so far: (pk token, 'u' | 'd')
    events: Vec<(String, char)>,
    reported: usize,
    // ---- oracle bookkeeping (implementation side only) ----
    /// pure family: per key the causal lengths handed to `match_changes` (one per batch; None = the batch held
    /// different causal lengths for the key, the key's fate is then not defined by the property) and the number
    /// of events received before the batch was sent
    offered: BTreeMap<String, Vec<(Option<i64>, usize)>>,
    /// database family: key -> (number of events received before the op that last changed its row started,
    /// was the listener attached when that op ran)
    last_change: BTreeMap<String, (usize, bool)>,
    /// keys of table t named by a statement of any local or peer transaction (a transaction that inserts and
    /// deletes a row changes its causal length without a visible difference, and is rightly notified)
    mentioned: BTreeSet<String>,
    db_ops: bool,
    attached_at_event: Option<usize>,
    tags: BTreeSet<String>,
}

fn sentinel_tok(n: i64) -> String {
    format!("i{}", SENTINEL_BASE + n)
}

fn is_sentinel(tok: &str) -> bool {
    tok.strip_prefix('i').and_then(|s| s.parse::<i64>().ok()).is_some_and(|n| n >= SENTINEL_BASE)
}

fn synthetic(table: &str, pk_tok: &str, cl: i64) -> Option<Change> {
    Some(Change {
        table: table.into(),
        pk: pack_pk(pk_tok)?,
        cid: "a".into(),
        val: klukai_types::api::SqliteValue::Null,
        col_version: 1,
        db_version: CrsqlDbVersion(0),
        seq: CrsqlSeq(0),
        site_id: [0u8; 16],
        cl,
    })
}

fn to_param(v: &rusqlite::types::Value) -> SqliteParam {
    match v {
        rusqlite::types::Value::Null => SqliteParam::Null,
        rusqlite::types::Value::Integer(i) => SqliteParam::Integer(*i),
        rusqlite::types::Value::Real(r) => SqliteParam::Real(*r),
        rusqlite::types::Value::Text(t) => SqliteParam::Text(t.as_str().into()),
        rusqlite::types::Value::Blob(b) => SqliteParam::Blob(b.as_slice().into()),
    }
}

enum Chunk {
    Bad,
    Empty,
    Piece(u64, u64),
}

/// `all` | `p<k>of<n>` (k-th of n contiguous pieces of 0..=last) | `lo-hi` (inside 0..=last)
fn chunk_spec(spec: &str, last: u64) -> Chunk {
    if spec == "all" {
        return Chunk::Piece(0, last);
    }
    if let Some(rest) = spec.strip_prefix('p') {
        let Some((k, n)) = rest.split_once("of") else { return Chunk::Bad };
        let (Ok(k), Ok(n)) = (k.parse::<u64>(), n.parse::<u64>()) else { return Chunk::Bad };
        if n == 0 || k >= n {
            return Chunk::Empty;
        }
        let lo = k * (last + 1) / n;
        let hi1 = (k + 1) * (last + 1) / n;
        return if hi1 <= lo { Chunk::Empty } else { Chunk::Piece(lo, hi1 - 1) };
    }
    match crate::util::parse_range(spec) {
        Some((lo, hi)) if lo <= hi && hi <= last => Chunk::Piece(lo, hi),
        Some(_) => Chunk::Empty,
        None => Chunk::Bad,
    }
}

fn parse_stmts(stmts: &str) -> Option<Vec<(String, Vec<rusqlite::types::Value>)>> {
    stmts.split(';').map(stmt_sql).collect()
}

/// pk tokens of the statements on the feed's table
fn mentioned_keys(stmts: &str) -> Vec<String> {
    stmts
        .split(';')
        .filter_map(|s| {
            let p: Vec<&str> = s.split(':').collect();
            if p.len() >= 3 && p[1] == FEED_TABLE { Some(p[2].to_string()) } else { None }
        })
        .collect()
}

fn is_constraint(msg: &str) -> bool {
    msg.contains("constraint failed") || msg.contains("UNIQUE constraint") || msg.contains("ConstraintViolation")
}

impl World {
    async fn new() -> R<World> {
        let dir = TmpDir::new("c14");
        let db_path = dir.path().join("corrosion.db");
        precreate_db(&db_path, site_id(0)).map_err(hard("precreate"))?;
        let (tripwire, worker, tx) = Tripwire::new_simple();
        let conf = Config::builder()
            .db_path(db_path.display().to_string())
            .gossip_addr("127.0.0.1:0".parse().unwrap())
            .api_addr("127.0.0.1:0".parse().unwrap())
            .build()
            .map_err(hard("config"))?;
        install_watch();
        let (agent, mut opts) = setup(conf, tripwire.clone()).await.map_err(hard("setup"))?;
        if agent.actor_id() != ActorId::from_bytes(site_id(0)) {
            return Err(Fail::Hard("agent did not keep the pre-created site id".into()));
        }
        let (status, body) = api_v1_db_schema(Extension(agent.clone()), axum::Json(vec![VSCHEMA.to_string()])).await;
        if !status.is_success() {
            return Err(Fail::Hard(format!("schema: {:?}", body.0.results)));
        }
        let bookie = Bookie::new_with_registry(Default::default(), opts.lock_registry.clone());
        {
            let mut w = bookie.write::<&str, _>("init", None).await;
            w.insert(agent.actor_id(), agent.booked().clone());
        }
        // the background loops of run_root.rs that the chunked path needs
        let rx_apply = std::mem::replace(&mut opts.rx_apply, klukai_types::channel::bounded(1, "c14-unused-apply").1);
        let rx_clear_buf = std::mem::replace(&mut opts.rx_clear_buf, klukai_types::channel::bounded(1, "c14-unused-clear").1);
        tokio::spawn(clear_buffered_meta_loop(agent.clone(), rx_clear_buf));
        tokio::spawn(apply_fully_buffered_changes_loop(agent.clone(), bookie.clone(), rx_apply, tripwire.clone()));
        let peer = open_plain_db(dir.path(), 1).map_err(hard("peer db"))?;
        Ok(World {
            _dir: dir,
            agent,
            bookie,
            bcast_cache: opts.updates_bcast_cache.clone(),
            opts,
            _tw: (tripwire, worker, tx),
            peer,
            feed: None,
            held: BTreeMap::new(),
            pending: BTreeSet::new(),
            peer_log: BTreeMap::new(),
            peer_known: BTreeSet::new(),
            peer_chunks: BTreeMap::new(),
            drains: 0,
            events: vec![],
            reported: 0,
            offered: BTreeMap::new(),
            last_change: BTreeMap::new(),
            mentioned: BTreeSet::new(),
            db_ops: false,
            attached_at_event: None,
            tags: BTreeSet::new(),
        })
    }

    fn take_bytes(&mut self, b: &[u8]) -> R<Option<String>> {
        let evt: NotifyEvent = serde_json::from_slice(b).map_err(hard("event json"))?;
        match evt {
            NotifyEvent::Notify(kind, pk) => {
                let tok = pk.iter().map(show_val).collect::<Vec<_>>().join("+");
                let k = match kind {
                    klukai_types::api::sqlite::ChangeType::Delete => 'd',
                    klukai_types::api::sqlite::ChangeType::Update => 'u',
                    klukai_types::api::sqlite::ChangeType::Insert => 'i',
                };
                if !is_sentinel(&tok) {
                    self.events.push((tok.clone(), k));
                }
                Ok(Some(tok))
            }
            NotifyEvent::Error(e) => Err(Fail::Hard(format!("feed reported an error event: {e}"))),
        }
    }

    /// non-blocking: move whatever the feed has produced into `events`
    fn pump(&mut self) -> R<()> {
        loop {
            let Some(feed) = self.feed.as_mut() else { return Ok(()) };
            match feed.rx.try_recv() {
                Ok(b) => {
                    self.take_bytes(&b)?;
                }
                Err(tokio::sync::broadcast::error::TryRecvError::Empty) => return Ok(()),
                Err(e) => return Err(Fail::Hard(format!("feed receiver: {e}"))),
            }
        }
    }

    /// wait (deadline, observable condition) for the event of sentinel `tok`
    async fn wait_for(&mut self, tok: &str) -> R<()> {
        let deadline = tokio::time::Instant::now() + WAIT;
        loop {
            let feed = self.feed.as_mut().ok_or_else(|| Fail::Hard("no feed".into()))?;
            let b = match tokio::time::timeout_at(deadline, feed.rx.recv()).await {
                Err(_) => return Err(Fail::Hard(format!("no event for sentinel {tok} within {WAIT:?}"))),
                Ok(Err(e)) => return Err(Fail::Hard(format!("feed receiver: {e}"))),
                Ok(Ok(b)) => b,
            };
            if self.take_bytes(&b)?.as_deref() == Some(tok) {
                self.feed.as_mut().unwrap().flush_seen = true;
                return Ok(());
            }
        }
    }

    fn drain_bcast(&mut self) {
        while self.opts.rx_bcast.try_recv().is_ok() {}
    }

    fn report(&mut self) -> String {
        let evs: Vec<String> = self.events[self.reported..].iter().map(|(k, c)| format!("{k}:{c}")).collect();
        self.reported = self.events.len();
        format!("ev {}", crate::util::show_list(&evs, ","))
    }

    fn table_rows(&self, conn: &rusqlite::Connection) -> rusqlite::Result<BTreeMap<String, String>> {
        let mut st = conn.prepare("SELECT id, a, b FROM t")?;
        let mut q = st.query([])?;
        let mut m = BTreeMap::new();
        while let Some(r) = q.next()? {
            m.insert(show_valref(r.get_ref(0)?), format!("{},{}", show_valref(r.get_ref(1)?), show_valref(r.get_ref(2)?)));
        }
        Ok(m)
    }

    async fn snapshot(&self) -> R<BTreeMap<String, String>> {
        let conn = self.agent.pool().read().await.map_err(hard("read conn"))?;
        tokio::task::block_in_place(|| self.table_rows(&conn)).map_err(hard("snapshot"))
    }

    fn note_changes(&mut self, before: &BTreeMap<String, String>, after: &BTreeMap<String, String>, at: usize) {
        let keys: BTreeSet<&String> = before.keys().chain(after.keys()).collect();
        for k in keys {
            if before.get(k) != after.get(k) {
                self.last_change.insert(k.clone(), (at, self.feed.is_some()));
            }
        }
    }

    async fn read_version(&self, v: u64) -> R<Vec<Change>> {
        let conn = self.agent.pool().read().await.map_err(hard("read conn"))?;
        tokio::task::block_in_place(|| {
            let mut st = conn.prepare_cached(
                r#"SELECT "table", pk, cid, val, col_version, db_version, seq, site_id, cl
                     FROM crsql_changes WHERE db_version = ? AND site_id = crsql_site_id() ORDER BY seq ASC"#,
            )?;
            st.query_map([v as i64], row_to_change)?.collect::<rusqlite::Result<Vec<_>>>()
        })
        .map_err(hard("read version"))
    }

    // ------------------------------------------------------------------ ops

    async fn op_attach(&mut self, cap: u64, keep: u64, thr: u64) -> R<String> {
        if (Consts { cap, keep, thr }) != consts() {
            return Ok("err params".into());
        }
        if self.feed.is_some() {
            return Ok("err attached".into());
        }
        let started = Instant::now();
        let updates = self.agent.updates_manager().clone();
        let (handle, created) = {
            let schema = self.agent.schema().read();
            updates.get_or_insert(FEED_TABLE, &schema, self.agent.pool(), self.opts.tripwire.clone()).map_err(hard("get_or_insert"))?
        };
        let mut cache = self.bcast_cache.write().await;
        let (_id, rx) = upsert_update(handle, created, &updates, &mut cache).await.map_err(hard("upsert_update"))?;
        drop(cache);
        self.feed = Some(Feed { rx, attach_started: started, flush_seen: false });
        self.attached_at_event = Some(self.events.len());
        Ok("ok".into())
    }

    fn op_m(&mut self, cands: &str) -> R<String> {
        let mut changes = vec![];
        let mut per_key: BTreeMap<String, Vec<i64>> = BTreeMap::new();
        for c in crate::util::split_list(cands) {
            let (mine, body) = match c.strip_prefix('!') {
                Some(b) => (false, b),
                None => (true, c),
            };
            let Some((k, cl)) = body.split_once(':') else { return Ok("bad-op".into()) };
            let Ok(cl) = cl.parse::<u32>() else { return Ok("bad-op".into()) };
            let Some(ch) = synthetic(if mine { FEED_TABLE } else { "k" }, k, cl as i64) else { return Ok("bad-op".into()) };
            if mine {
                per_key.entry(k.to_string()).or_default().push(cl as i64);
            }
            changes.push(ch);
        }
        if changes.is_empty() {
            return Ok("bad-op".into());
        }
        if self.feed.is_some() {
            let at = self.events.len();
            for (k, cls) in per_key {
                let uniform = cls.iter().all(|c| *c == cls[0]);
                self.offered.entry(k).or_default().push((if uniform { Some(cls[0]) } else { None }, at));
            }
        }
        match_changes(self.agent.updates_manager(), &changes, CrsqlDbVersion(0));
        self.tags.insert("family:pure".into());
        Ok("ok".into())
    }

    /// `force` (n = thr) / `drain` (n = 1)
    async fn op_sync(&mut self, n: u64) -> R<String> {
        if self.feed.is_none() {
            return Ok("bad-op".into());
        }
        let tok = sentinel_tok(self.drains);
        self.drains += 1;
        let ch = synthetic(FEED_TABLE, &tok, 1).unwrap();
        for _ in 0..n {
            match_changes(self.agent.updates_manager(), std::slice::from_ref(&ch), CrsqlDbVersion(0));
        }
        let feed = self.feed.as_ref().unwrap();
        if !feed.flush_seen {
            let el = feed.attach_started.elapsed();
            if el > BUFFERED_WINDOW {
                return Err(Fail::Slow(format!("buffered phase took {el:?}")));
            }
            self.tags.insert(if n == 1 { "first-flush:deadline".into() } else { "first-flush:threshold".into() });
        }
        self.wait_for(&tok).await?;
        self.pump()?;
        Ok(self.report())
    }

    async fn op_w(&mut self, stmts: &str) -> R<String> {
        let Some(parsed) = parse_stmts(stmts) else { return Ok("bad-op".into()) };
        self.db_ops = true;
        self.mentioned.extend(mentioned_keys(stmts));
        self.drain_bcast();
        let before = self.snapshot().await?;
        let at = self.events.len();
        let body: Vec<Statement> =
            parsed.iter().map(|(sql, ps)| Statement::WithParams(sql.clone(), ps.iter().map(to_param).collect())).collect();
        let (status, resp) =
            api_v1_transactions(Extension(self.agent.clone()), axum::extract::Query(TimeoutParams { timeout: None }), axum::Json(body)).await;
        if !status.is_success() {
            let msg = resp.0.results.iter().find_map(|r| if let ExecResult::Error { error } = r { Some(error.clone()) } else { None }).unwrap_or_default();
            return if is_constraint(&msg) { Ok("err constraint".into()) } else { Err(Fail::Hard(format!("api_v1_transactions: {msg}"))) };
        }
        let Some(v) = resp.0.version else { return Ok("noop".into()) };
        // the notifier is a spawned task: it has run `match_changes` once its broadcast for the last chunk shows up
        let deadline = tokio::time::Instant::now() + WAIT;
        loop {
            match tokio::time::timeout_at(deadline, self.opts.rx_bcast.recv()).await {
                Err(_) | Ok(None) => return Err(Fail::Hard(format!("broadcast_changes of version {v} not observed within {WAIT:?}"))),
                Ok(Some(BroadcastInput::AddBroadcast(BroadcastV1::Change(ChangeV1 { changeset: Changeset::Full { version, seqs, last_seq, .. }, .. }))))
                    if version.0 == v && *seqs.end() == last_seq =>
                {
                    break;
                }
                Ok(Some(_)) => {}
            }
        }
        let after = self.snapshot().await?;
        self.note_changes(&before, &after, at);
        self.pump()?;
        Ok(format!("ok v={v}"))
    }

    async fn op_wc(&mut self, stmts: &str) -> R<String> {
        let Some(parsed) = parse_stmts(stmts) else { return Ok("bad-op".into()) };
        self.db_ops = true;
        self.mentioned.extend(mentioned_keys(stmts));
        let before = self.snapshot().await?;
        let at = self.events.len();
        let agent = self.agent.clone();
        let res: Result<Option<(CrsqlDbVersion, CrsqlSeq, Timestamp)>, String> = {
            let mut conn = agent.pool().write_priority().await.map_err(hard("write conn"))?;
            let mut book_writer = agent.booked().write::<&str, _>("c14(wc)", None).await;
            let ts = Timestamp::from(agent.clock().new_timestamp());
            tokio::task::block_in_place(|| {
                let tx = conn.immediate_transaction().map_err(|e| e.to_string())?;
                tx.prepare_cached("SELECT crsql_set_ts(?)")
                    .and_then(|mut st| st.query_row([&ts], |row| row.get::<_, String>(0)))
                    .map_err(|e| e.to_string())?;
                for (sql, ps) in &parsed {
                    tx.execute(sql, rusqlite::params_from_iter(ps.iter())).map_err(|e| e.to_string())?;
                }
                let info = insert_local_changes(&agent, &tx, &mut book_writer).map_err(|e| e.to_string())?;
                tx.commit().map_err(|e| e.to_string())?;
                Ok(info.map(|i| {
                    let out = (i.db_version, i.last_seq, i.ts);
                    book_writer.commit_snapshot(i.snap);
                    out
                }))
            })
        };
        match res {
            Err(msg) if is_constraint(&msg) => Ok("err constraint".into()),
            Err(msg) => Err(Fail::Hard(format!("wc: {msg}"))),
            Ok(None) => Ok("noop".into()),
            Ok(Some((v, last_seq, ts))) => {
                let changes = self.read_version(v.0).await?;
                self.held.insert(v.0, Held { changes, last_seq, ts });
                self.pending.insert(v.0);
                let after = self.snapshot().await?;
                self.note_changes(&before, &after, at);
                self.tags.insert("held-notification".into());
                Ok(format!("ok v={}", v.0))
            }
        }
    }

    async fn op_notify(&mut self, v: u64, captured: bool) -> R<String> {
        if !self.pending.remove(&v) {
            return Ok("err no-such-pending".into());
        }
        let h = self.held.get(&v).unwrap();
        if captured {
            match_changes(self.agent.updates_manager(), &h.changes, CrsqlDbVersion(v));
            self.tags.insert("notify:captured".into());
        } else {
            broadcast_changes(self.agent.clone(), CrsqlDbVersion(v), h.last_seq, h.ts).await.map_err(hard("broadcast_changes"))?;
            self.tags.insert("notify:late-read".into());
        }
        self.drain_bcast();
        self.pump()?;
        Ok("ok".into())
    }

    fn op_pw(&mut self, stmts: &str) -> R<String> {
        let Some(parsed) = parse_stmts(stmts) else { return Ok("bad-op".into()) };
        self.mentioned.extend(mentioned_keys(stmts));
        let conn = &mut self.peer;
        let before: i64 = conn.query_row("SELECT crsql_db_version()", [], |r| r.get(0)).map_err(hard("peer"))?;
        let res: rusqlite::Result<()> = (|| {
            let tx = conn.transaction()?;
            for (sql, ps) in &parsed {
                tx.execute(sql, rusqlite::params_from_iter(ps.iter()))?;
            }
            tx.commit()
        })();
        match res {
            Err(e) if e.sqlite_error_code() == Some(rusqlite::ErrorCode::ConstraintViolation) => Ok("err constraint".into()),
            Err(e) => Err(Fail::Hard(format!("peer write: {e}"))),
            Ok(()) => {
                let after: i64 = conn.query_row("SELECT crsql_db_version()", [], |r| r.get(0)).map_err(hard("peer"))?;
                if after == before {
                    return Ok("noop".into());
                }
                let site = site_id(1).to_vec();
                let changes: Vec<Change> = conn
                    .prepare(
                        r#"SELECT "table", pk, cid, val, col_version, db_version, seq, site_id, cl
                             FROM crsql_changes WHERE db_version = ? AND site_id = ? ORDER BY seq ASC"#,
                    )
                    .and_then(|mut st| st.query_map(rusqlite::params![after, site], row_to_change)?.collect::<rusqlite::Result<Vec<_>>>())
                    .map_err(hard("peer changes"))?;
                let last_seq = changes.iter().map(|c| c.seq).max().unwrap_or(CrsqlSeq(0));
                let ts = Timestamp::from(self.agent.clock().new_timestamp());
                self.peer_log.insert(after as u64, Held { changes, last_seq, ts });
                Ok(format!("ok v={after}"))
            }
        }
    }

    async fn op_r(&mut self, vs: &str) -> R<String> {
        let Some(vs) = crate::util::parse_nats(vs) else { return Ok("bad-op".into()) };
        if vs.is_empty() {
            return Ok("bad-op".into());
        }
        if vs.iter().any(|v| !self.peer_log.contains_key(v)) {
            return Ok("err no-such-version".into());
        }
        self.db_ops = true;
        let before = self.snapshot().await?;
        let at = self.events.len();
        let peer_actor = ActorId::from_bytes(site_id(1));
        let batch: Vec<(ChangeV1, ChangeSource, Instant)> = vs
            .iter()
            .map(|v| {
                let h = &self.peer_log[v];
                (
                    ChangeV1 {
                        actor_id: peer_actor,
                        changeset: Changeset::Full {
                            version: CrsqlDbVersion(*v),
                            changes: h.changes.clone(),
                            seqs: CrsqlSeq(0)..=h.last_seq,
                            last_seq: h.last_seq,
                            ts: h.ts,
                        },
                    },
                    ChangeSource::Broadcast,
                    Instant::now(),
                )
            })
            .collect();
        process_multiple_changes(self.agent.clone(), self.bookie.clone(), batch, Duration::from_secs(60))
            .await
            .map_err(hard("process_multiple_changes"))?;
        for v in &vs {
            self.peer_known.insert(*v);
            self.peer_chunks.remove(v);
        }
        let after = self.snapshot().await?;
        self.note_changes(&before, &after, at);
        self.tags.insert("remote-apply".into());
        self.pump()?;
        Ok("ok".into())
    }

    /// (the version's partial entry: Some(is it complete) | None, does the bookkeeping know the version) of the
    /// peer, from the real `Bookie`
    async fn peer_booked(&self, v: u64) -> R<(Option<bool>, bool)> {
        let actor = ActorId::from_bytes(site_id(1));
        let booked = { self.bookie.read::<&str, _>("c14(peer_booked)", None).await.get(&actor).cloned() };
        let Some(booked) = booked else { return Ok((None, false)) };
        let bv = booked.read::<&str, _>("c14(peer_booked)", None).await;
        Ok((bv.partials.get(&CrsqlDbVersion(v)).map(|p| p.is_complete()), bv.contains_version(&CrsqlDbVersion(v))))
    }

    async fn op_rc(&mut self, v: u64, specs: &str) -> R<String> {
        let Some(h) = self.peer_log.get(&v) else { return Ok("err no-such-version".into()) };
        let last = h.last_seq.0;
        let specs = crate::util::split_list(specs);
        if specs.is_empty() {
            return Ok("bad-op".into());
        }
        let mut pieces = vec![];
        let mut empty = false;
        for sp in &specs {
            match chunk_spec(sp, last) {
                Chunk::Bad => return Ok("bad-op".into()),
                Chunk::Empty => empty = true,
                Chunk::Piece(lo, hi) => pieces.push((lo, hi)),
            }
        }
        if empty {
            return Ok("err empty-chunk".into());
        }
        self.db_ops = true;
        let before = self.snapshot().await?;
        let at = self.events.len();
        let peer_actor = ActorId::from_bytes(site_id(1));
        let batch: Vec<(ChangeV1, ChangeSource, Instant)> = pieces
            .iter()
            .map(|(lo, hi)| {
                (
                    ChangeV1 {
                        actor_id: peer_actor,
                        changeset: Changeset::Full {
                            version: CrsqlDbVersion(v),
                            changes: h.changes.iter().filter(|c| c.seq.0 >= *lo && c.seq.0 <= *hi).cloned().collect(),
                            seqs: CrsqlSeq(*lo)..=CrsqlSeq(*hi),
                            last_seq: h.last_seq,
                            ts: h.ts,
                        },
                    },
                    ChangeSource::Broadcast,
                    Instant::now(),
                )
            })
            .collect();
        // what is expected to happen (independent of the model: plain coverage of 0..=last)
        let covered = |rs: &Vec<(u64, u64)>| (0..=last).all(|s| rs.iter().any(|r| r.0 <= s && s <= r.1));
        let mut expect_apply = false;
        if !self.peer_known.contains(&v) {
            for (lo, hi) in &pieces {
                let rs = self.peer_chunks.entry(v).or_default();
                if covered(rs) {
                    break;
                }
                if *lo == 0 && *hi == last {
                    self.peer_known.insert(v);
                    self.peer_chunks.remove(&v);
                    break;
                }
                rs.push((*lo, *hi));
            }
            if !self.peer_known.contains(&v) && covered(self.peer_chunks.get(&v).unwrap_or(&vec![])) {
                expect_apply = true;
            }
        }
        let done_before = applies_done();
        process_multiple_changes(self.agent.clone(), self.bookie.clone(), batch, Duration::from_secs(60))
            .await
            .map_err(hard("process_multiple_changes"))?;
        if expect_apply {
            // the trigger is on its way to the real apply loop: wait until process_fully_buffered_changes has returned
            let deadline = Instant::now() + WAIT;
            while applies_done() == done_before {
                if Instant::now() > deadline {
                    return Err(Fail::Hard(format!("fully buffered version {v} was not applied by the background loop within {WAIT:?}")));
                }
                tokio::task::yield_now().await;
                tokio::time::sleep(Duration::from_millis(1)).await; // polling interval of an observable condition
            }
            self.peer_known.insert(v);
            self.peer_chunks.remove(&v);
            self.tags.insert("remote-apply:buffered".into());
        }
        // cross-check with the real bookkeeping.  (As the code stands the in-memory partial of a version applied from
        // the buffer stays behind, complete; a version applied or cleared as a whole drops it.)
        let (partial, known) = self.peer_booked(v).await?;
        let want_known = self.peer_known.contains(&v);
        let fine = if want_known { known && partial != Some(false) } else { partial == Some(false) };
        if !fine {
            return Err(Fail::Hard(format!(
                "bookkeeping of peer version {v} after `rc`: partial={partial:?} known={known}, expected {}",
                if want_known { "known in whole" } else { "held as an incomplete partial" }
            )));
        }
        let after = self.snapshot().await?;
        self.note_changes(&before, &after, at);
        self.tags.insert(format!("rc:pieces:{}", pieces.len().min(3)));
        self.pump()?;
        Ok(if want_known { "ok applied".into() } else { "ok buffered".into() })
    }

    async fn op_rows(&mut self) -> R<String> {
        let rows = self.snapshot().await?;
        let mut ks: Vec<String> = rows.keys().cloned().collect();
        ks.sort();
        Ok(format!("rows {}", crate::util::show_list(&ks, ",")))
    }

    async fn exec_op(&mut self, op: &str) -> R<String> {
        let toks: Vec<&str> = op.split_whitespace().collect();
        match toks.as_slice() {
            ["attach", c, k, t] => match (c.parse(), k.parse(), t.parse()) {
                (Ok(c), Ok(k), Ok(t)) => self.op_attach(c, k, t).await,
                _ => Ok("bad-op".into()),
            },
            ["tag", w] => {
                self.tags.insert(format!("tag:{w}"));
                Ok("ok".into())
            }
            ["m", cands] => self.op_m(cands),
            ["w", stmts] => self.op_w(stmts).await,
            ["wc", stmts] => self.op_wc(stmts).await,
            ["wfill", lo, hi] => match (lo.parse::<u64>(), hi.parse::<u64>()) {
                (Ok(lo), Ok(hi)) if lo <= hi && hi - lo < 5000 => {
                    for n in lo..=hi {
                        self.op_w(&format!("ins:t:i{n}:a=t66")).await?;
                    }
                    Ok("ok".into())
                }
                _ => Ok("bad-op".into()),
            },
            ["notify", v] => match v.parse() {
                Ok(v) => self.op_notify(v, false).await,
                _ => Ok("bad-op".into()),
            },
            ["notifyc", v] => match v.parse() {
                Ok(v) => self.op_notify(v, true).await,
                _ => Ok("bad-op".into()),
            },
            ["pw", stmts] => self.op_pw(stmts),
            ["r", vs] => self.op_r(vs).await,
            ["rc", v, specs] => match v.parse() {
                Ok(v) => self.op_rc(v, specs).await,
                _ => Ok("bad-op".into()),
            },
            ["force"] => self.op_sync(consts().thr).await,
            ["drain"] => self.op_sync(1).await,
            ["rows"] => self.op_rows().await,
            _ => Ok("bad-op".into()),
        }
    }

    // ------------------------------------------------------------------ the property, on the real observations only

    async fn oracle(&mut self, fails: &mut Vec<String>) -> R<()> {
        if self.attached_at_event.is_none() {
            return Ok(());
        }
        // everything still in flight must come out first
        let n = if self.feed.as_ref().unwrap().flush_seen { 1 } else { consts().thr };
        self.op_sync(n).await?;
        let mut last: BTreeMap<&String, (char, usize)> = BTreeMap::new();
        let mut count: BTreeMap<&String, usize> = BTreeMap::new();
        for (i, (k, c)) in self.events.iter().enumerate() {
            last.insert(k, (*c, i));
            *count.entry(k).or_default() += 1;
            if *c != 'u' && *c != 'd' {
                fails.push(format!("event of kind {c} for key {k}: the feed only knows update/delete"));
            }
        }
        let rows = self.snapshot().await?;
        let m_keys: BTreeSet<&String> = self.offered.keys().collect();
        // ---- pure family: the highest causal length handed over decides the fate
        for (k, offs) in &self.offered {
            if self.last_change.contains_key(k) {
                continue;
            }
            let Some((lc, li)) = last.get(k) else {
                fails.push(format!("key {k} was handed to match_changes {} time(s) and never notified", offs.len()));
                continue;
            };
            if count[k] > offs.len() {
                fails.push(format!("key {k}: {} events for {} change lists", count[k], offs.len()));
            }
            if offs.iter().all(|o| o.0.is_some()) {
                let max = offs.iter().map(|o| o.0.unwrap()).max().unwrap();
                let want = if max % 2 == 0 { 'd' } else { 'u' };
                if *lc != want {
                    fails.push(format!(
                        "stale notification: the last event for key {k} says {} but the highest causal length delivered is {max} ({})",
                        if *lc == 'd' { "deleted" } else { "updated" },
                        if max % 2 == 0 { "row deleted" } else { "row exists" }
                    ));
                }
                // a change list carrying a new highest causal length must be followed by an event
                let mut hi = -1i64;
                let mut need_after = 0usize;
                for (cl, at) in offs {
                    let cl = cl.unwrap();
                    if cl >= hi {
                        hi = cl;
                        need_after = *at;
                    }
                }
                if *li < need_after {
                    fails.push(format!("key {k}: no event after the change list that carried its highest causal length {hi}"));
                }
            }
        }
        for k in last.keys() {
            if !m_keys.contains(k) && !self.last_change.contains_key(*k) && !self.mentioned.contains(*k) {
                fails.push(format!("event for key {k}, which no change list or transaction touched"));
            }
        }
        // ---- database family: last event vs final table contents; every changed key notified after its last change
        if self.pending.is_empty() {
            for (k, (c, _)) in &last {
                if m_keys.contains(k) {
                    continue;
                }
                let absent = !rows.contains_key(*k);
                if (*c == 'd') != absent {
                    fails.push(format!(
                        "stale notification: the last event for row {k} says {} but the row {}",
                        if *c == 'd' { "deleted" } else { "updated" },
                        if absent { "no longer exists" } else { "exists" }
                    ));
                }
            }
            for (k, (at, attached)) in &self.last_change {
                if m_keys.contains(k) || !*attached {
                    continue;
                }
                match last.get(k) {
                    None => fails.push(format!("row {k} of table t was changed by a committed transaction after the listener attached and never notified")),
                    Some((_, i)) => {
                        if i < at {
                            fails.push(format!("row {k}: no notification after its last committed change"));
                        }
                    }
                }
            }
        }
        Ok(())
    }
}

async fn run_case(ops: &[String], res: &mut CaseResult) -> R<()> {
    let mut w = World::new().await?;
    for op in ops {
        let out = w.exec_op(op).await?;
        res.outputs.push(out);
    }
    let mut fails = vec![];
    w.oracle(&mut fails).await?;
    res.oracle_failures = fails;
    // non-trivial: at least one event, and some key of the feed's table was changed / handed over at least twice
    let mut per_key: BTreeMap<&String, usize> = BTreeMap::new();
    for (k, _) in &w.events {
        *per_key.entry(k).or_default() += 1;
    }
    let repeated = w.offered.values().any(|v| v.len() >= 2) || per_key.values().any(|n| *n >= 2) || w.held.len() >= 2 || w.peer_log.len() >= 2;
    res.nontrivial = !w.events.is_empty() && repeated;
    if w.db_ops {
        w.tags.insert("family:db".into());
    }
    w.tags.insert(format!("events:{}", match w.events.len() { 0 => "0", 1..=3 => "1-3", 4..=10 => "4-10", _ => "11+" }));
    res.tags = w.tags.iter().cloned().collect();
    Ok(())
}

// ------------------------------------------------------------------------------------------------
// generator
// ------------------------------------------------------------------------------------------------

struct GenDb {
    cl: BTreeMap<u64, u64>,
    ver: u64,
}

impl GenDb {
    fn exists(&self, k: u64) -> bool {
        self.cl.get(&k).copied().unwrap_or(0) % 2 == 1
    }
}

fn gen_stmt(rng: &mut Rng, db: &mut GenDb, keys: &[u64], val: &mut u64, touched: &mut Vec<(u64, u64)>) -> (String, bool) {
    // occasionally a statement on another table (must not reach the feed of t)
    if rng.chance(1, 12) {
        *val += 1;
        return (format!("ins:k:i{}", 500 + *val), true);
    }
    let k = *rng.pick(keys);
    let ex = db.exists(k);
    *val += 1;
    let v = format!("t{:02x}{:02x}", 0x61 + (*val / 200) % 20, 0x30 + *val % 200 % 70);
    let kind = if ex { rng.below(10) } else { 10 + rng.below(10) };
    match kind {
        0..=3 => {
            // update of an existing row (fresh value: always a change)
            touched.push((k, db.cl[&k]));
            (format!("upd:t:i{k}:a={v}"), true)
        }
        4..=8 => {
            let c = db.cl[&k] + 1;
            db.cl.insert(k, c);
            touched.push((k, c));
            (format!("del:t:i{k}"), true)
        }
        9 => (format!("ins:t:i{k}:a={v}"), false), // constraint error
        10..=17 => {
            let c = db.cl.get(&k).copied().unwrap_or(0) + 1;
            db.cl.insert(k, c);
            touched.push((k, c));
            if rng.chance(1, 3) { (format!("ins:t:i{k}:a={v},b=i{}", *val), true) } else { (format!("ins:t:i{k}:a={v}"), true) }
        }
        18 => (format!("del:t:i{k}"), true), // no-op statement
        _ => (format!("upd:t:i{k}:a={v}"), true), // no-op statement
    }
}

/// one transaction: statements joined by `;`; returns (text, Some(touched) if it commits a new version)
fn gen_tx(rng: &mut Rng, db: &mut GenDb, keys: &[u64], val: &mut u64) -> (String, Option<Vec<(u64, u64)>>) {
    let n = match rng.below(10) { 0..=6 => 1, 7 | 8 => 2, _ => 3 };
    let saved = db.cl.clone();
    let mut stmts = vec![];
    let mut touched = vec![];
    let mut ok = true;
    let mut other = false;
    for _ in 0..n {
        let (s, fine) = gen_stmt(rng, db, keys, val, &mut touched);
        other |= s.starts_with("ins:k:");
        ok &= fine;
        stmts.push(s);
    }
    if !ok {
        db.cl = saved;
        return (stmts.join(";"), None);
    }
    if touched.is_empty() && !other {
        return (stmts.join(";"), None);
    }
    db.ver += 1;
    (stmts.join(";"), Some(touched))
}

/// the generator's view of a peer version arriving here: a higher causal length replaces the row
fn apply_peer(a: &mut GenDb, peer_versions: &[(u64, Vec<(u64, u64)>)], v: u64) {
    if let Some((_, t)) = peer_versions.iter().find(|p| p.0 == v) {
        for (k, cl) in t {
            if *cl > a.cl.get(k).copied().unwrap_or(0) {
                a.cl.insert(*k, *cl);
            }
        }
    }
}

fn gen_db_case(rng: &mut Rng, c: Consts, dl: u64) -> Vec<String> {
    let nkeys = rng.range(1, 4);
    let keys: Vec<u64> = (1..=nkeys).collect();
    let mut a = GenDb { cl: BTreeMap::new(), ver: 0 };
    let mut b = GenDb { cl: BTreeMap::new(), ver: 0 };
    let mut val = rng.below(50);
    let mut ops = vec![];
    let mut pending: Vec<u64> = vec![];
    let mut peer_versions: Vec<(u64, Vec<(u64, u64)>)> = vec![];
    let mut unapplied: Vec<u64> = vec![];
    // peer versions being delivered in chunks: (version, chunk specs not yet sent)
    let mut chunking: Vec<(u64, Vec<String>)> = vec![];
    let remote = rng.chance(3, 5);
    // before the listener attaches: such rows are not in cl_cache (a stale candidate for them would not be
    // suppressed; regression case corpus/C14/remote_batch_spurious_candidate.ops, repo commit 80d703f)
    let pre = rng.chance(1, 4);
    if pre {
        for _ in 0..rng.range(1, 3) {
            let (s, _) = gen_tx(rng, &mut a, &keys, &mut val);
            ops.push(format!("w {s}"));
        }
    }
    ops.push(format!("attach {} {} {}", c.cap, c.keep, c.thr));
    // where does the first flush come from
    let first = rng.below(20);
    let mut synced = false;
    if first < 8 {
        ops.push("force".into());
        synced = true;
    }
    let n = if remote { rng.range(6, 16) } else { rng.range(4, 13) };
    let sync_at = if synced { usize::MAX } else { rng.range(1, 4) as usize };
    for i in 0..n as usize {
        if !synced && i == sync_at {
            ops.push(if first >= dl { "drain".into() } else { "force".into() });
            synced = true;
        }
        // with a peer: more than half of the ops are peer writes and deliveries (whole or in chunks)
        let roll = if remote {
            match rng.below(25) {
                0..=4 => 0,
                5..=8 => 6,
                9 | 10 => 11,
                11..=15 => 14,
                16..=22 => 16,
                _ => 19,
            }
        } else {
            rng.below(20)
        };
        match roll {
            0..=5 => {
                let (s, _) = gen_tx(rng, &mut a, &keys, &mut val);
                ops.push(format!("w {s}"));
            }
            6..=10 => {
                let (s, t) = gen_tx(rng, &mut a, &keys, &mut val);
                ops.push(format!("wc {s}"));
                if t.is_some() {
                    pending.push(a.ver);
                }
            }
            11..=13 if !pending.is_empty() => {
                let i = rng.below(pending.len() as u64) as usize;
                let v = pending.remove(i);
                ops.push(if rng.chance(2, 3) { format!("notifyc {v}") } else { format!("notify {v}") });
            }
            14 | 15 if remote => {
                let (s, t) = gen_tx(rng, &mut b, &keys, &mut val);
                ops.push(format!("pw {s}"));
                if let Some(t) = t {
                    peer_versions.push((b.ver, t));
                    unapplied.push(b.ver);
                }
            }
            16..=18 if remote && (!unapplied.is_empty() || !chunking.is_empty()) => {
                let chunked = !chunking.is_empty() && (unapplied.is_empty() || rng.chance(1, 2)) || (!unapplied.is_empty() && rng.chance(1, 2));
                if chunked {
                    // one peer version in 2-3 chunks, any order, the chunks spread over several ops so that other
                    // writes to the same keys (local, or newer peer versions) land before the last chunk arrives
                    if chunking.is_empty() || (!unapplied.is_empty() && rng.chance(1, 3)) {
                        let i = rng.below(unapplied.len() as u64) as usize;
                        let v = unapplied.remove(i);
                        let n = rng.range(2, 3);
                        let mut specs: Vec<String> = (0..n).map(|k| format!("p{k}of{n}")).collect();
                        rng.shuffle(&mut specs);
                        chunking.push((v, specs));
                    }
                    let i = rng.below(chunking.len() as u64) as usize;
                    let take = if rng.chance(1, 4) { 2 } else { 1 }.min(chunking[i].1.len());
                    let v = chunking[i].0;
                    let pieces: Vec<String> = (0..take).map(|_| chunking[i].1.pop().unwrap()).collect();
                    ops.push(format!("rc {v} {}", pieces.join(",")));
                    if chunking[i].1.is_empty() {
                        chunking.remove(i);
                        apply_peer(&mut a, &peer_versions, v);
                    }
                } else {
                    // a subset of the peer's versions, in any order, sometimes one that was applied before or one
                    // that is partly buffered (the whole version then supersedes the buffered copy)
                    let mut pickn = rng.range(1, unapplied.len() as u64) as usize;
                    let mut vs = vec![];
                    rng.shuffle(&mut unapplied);
                    while pickn > 0 {
                        vs.push(unapplied.pop().unwrap());
                        pickn -= 1;
                    }
                    if rng.chance(1, 6) && !peer_versions.is_empty() {
                        vs.push(rng.pick(&peer_versions).0);
                    }
                    for v in &vs {
                        apply_peer(&mut a, &peer_versions, *v);
                    }
                    ops.push(format!("r {}", vs.iter().map(|v| v.to_string()).collect::<Vec<_>>().join(",")));
                }
            }
            19 if synced => ops.push("drain".into()),
            _ => {
                let (s, _) = gen_tx(rng, &mut a, &keys, &mut val);
                ops.push(format!("w {s}"));
            }
        }
    }
    // deliver everything that is still held back, in any order
    rng.shuffle(&mut pending);
    for v in pending {
        ops.push(if rng.chance(1, 2) { format!("notifyc {v}") } else { format!("notify {v}") });
    }
    // the chunks that are still missing (mostly), then what was never sent
    if rng.chance(4, 5) {
        rng.shuffle(&mut chunking);
        for (v, mut specs) in chunking {
            while let Some(sp) = specs.pop() {
                ops.push(format!("rc {v} {sp}"));
            }
        }
    }
    if remote && !unapplied.is_empty() && rng.chance(2, 3) {
        rng.shuffle(&mut unapplied);
        ops.push(format!("r {}", unapplied.iter().map(|v| v.to_string()).collect::<Vec<_>>().join(",")));
    }
    if !synced {
        ops.push(if first >= dl { "drain".into() } else { "force".into() });
    } else {
        ops.push("drain".into());
    }
    ops.push("rows".into());
    ops
}

fn gen_pure_case(rng: &mut Rng, c: Consts, dl: u64) -> Vec<String> {
    let mut ops = vec![format!("attach {} {} {}", c.cap, c.keep, c.thr)];
    let nkeys = rng.range(1, 4);
    let first = rng.below(20);
    let mut synced = false;
    // sometimes a large block of OTHER keys first: exercises the threshold flush and the eviction itself.
    // It comes before any activity of the hot keys, so no reordered pair ever straddles an eviction
    // (the region of finding F10 is only entered by the pinned replay in corpus/C14).
    match rng.below(40) {
        0 => {
            let n = c.cap + rng.range(1, 200);
            let ks: Vec<String> = (0..n).map(|i| format!("i{}:1", 100_000 + i)).collect();
            ops.push(format!("m {}", ks.join(",")));
            synced = true; // n >= thr: the loop has flushed
        }
        1 | 2 => {
            let n = c.thr + rng.range(0, 50);
            let ks: Vec<String> = (0..n).map(|i| format!("i{}:{}", 100_000 + i, 1 + i % 2)).collect();
            ops.push(format!("m {}", ks.join(",")));
            synced = true;
        }
        _ => {}
    }
    if !synced && first < 8 {
        ops.push("force".into());
        synced = true;
    }
    let n = rng.range(3, 14);
    let sync_at = if synced { usize::MAX } else { rng.range(1, 5) as usize };
    for i in 0..n as usize {
        if !synced && i == sync_at {
            ops.push(if first >= dl { "drain".into() } else { "force".into() });
            synced = true;
        }
        let len = match rng.below(10) { 0..=5 => 1, 6 | 7 => 2, 8 => 3, _ => 4 };
        let mut cs = vec![];
        let mut seen: BTreeMap<u64, u64> = BTreeMap::new();
        for _ in 0..len {
            let k = rng.range(0, nkeys - 1);
            let mut cl = rng.range(1, 6);
            // a key repeated inside one change list normally carries the same causal length (one version of one
            // row); now and then it does not, to exercise "first one wins" (the oracle then skips the key)
            if let Some(prev) = seen.get(&k) {
                if !rng.chance(1, 6) {
                    cl = *prev;
                }
            }
            seen.insert(k, cl);
            if rng.chance(1, 10) {
                cs.push(format!("!i{k}:{}", rng.range(1, 6)));
            }
            cs.push(format!("i{k}:{cl}"));
        }
        ops.push(format!("m {}", cs.join(",")));
        if synced && rng.chance(1, 4) {
            ops.push("drain".into());
        }
    }
    if !synced {
        ops.push(if first >= dl { "drain".into() } else { "force".into() });
    } else {
        ops.push("drain".into());
    }
    ops
}

impl Prop for C14 {
    fn id(&self) -> &'static str {
        "C14"
    }
    fn rule(&self) -> &'static str {
        "one case = one history on a fresh agent + feed of table t; non-trivial iff the feed emitted at least one event and \
         some key was changed / handed to match_changes at least twice (or two held / peer versions exist); distinct by hash of the op list"
    }
    fn default_cases(&self, tier: Tier) -> usize {
        match tier {
            Tier::Quick => 300,
            Tier::Thorough => 5000,
        }
    }
    fn gen_case(&self, rng: &mut Rng, tier: Tier, _index: usize) -> Vec<String> {
        let c = consts();
        // share of cases whose first flush is the real 600 ms deadline (each costs that long): 15 % quick, 5 % thorough
        let dl = if tier == Tier::Thorough { 19 } else { 17 };
        if rng.chance(3, 10) { gen_pure_case(rng, c, dl) } else { gen_db_case(rng, c, dl) }
    }
    fn exec_case(&self, ops: &[String]) -> CaseResult {
        let mut last_slow = String::new();
        for _attempt in 0..4 {
            let mut res = CaseResult::default();
            let rt = tokio::runtime::Builder::new_multi_thread().worker_threads(2).enable_all().build().expect("runtime");
            let r = rt.block_on(run_case(ops, &mut res));
            rt.shutdown_background();
            match r {
                Ok(()) => return res,
                Err(Fail::Slow(why)) => {
                    last_slow = why;
                    continue;
                }
                Err(Fail::Hard(e)) => {
                    res.oracle_failures.push(format!("harness could not drive the real node: {e}"));
                    while res.outputs.len() < ops.len() {
                        res.outputs.push("impl-error".into());
                    }
                    return res;
                }
            }
        }
        CaseResult { inconclusive: Some(format!("slow-buffered-phase:{last_slow}")), ..Default::default() }
    }
}
